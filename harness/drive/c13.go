package main

// C13 — connection gating, sender attribution, topology refresh.
// Real code run: p2p.ConnectionGate (all five hooks), Libp2pCommunication.ProcessMessagesFromStream (fake stream whose
// connection reports the authenticated remote peer), topology.TopologyProvider with the real AES decrypter and a scripted
// fetcher, topology.TopologyStore on a private temp dir, RefreshEventHandler.HandleEvents with a scripted event listener,
// p2p.LoadPeers on a real in-memory peerstore; thorough tier: two real libp2p hosts on loopback (p2p.NewHost).

import (
	"bytes"
	"context"
	"crypto/aes"
	"crypto/cipher"
	"crypto/sha256"
	"encoding/base64"
	"encoding/hex"
	"encoding/json"
	"errors"
	"fmt"
	"io"
	"math/big"
	"net/http"
	"os"
	"path/filepath"
	"runtime"
	"sort"
	"strconv"
	"strings"
	"sync"
	"time"

	"github.com/ChainSafe/sygma-relayer/chains/evm/calls/events"
	"github.com/ChainSafe/sygma-relayer/chains/evm/listener/eventHandlers"
	clitopology "github.com/ChainSafe/sygma-relayer/cli/topology"
	"github.com/ChainSafe/sygma-relayer/comm"
	"github.com/ChainSafe/sygma-relayer/comm/p2p"
	"github.com/ChainSafe/sygma-relayer/config/relayer"
	"github.com/ChainSafe/sygma-relayer/keyshare"
	"github.com/ChainSafe/sygma-relayer/topology"
	ethCommon "github.com/ethereum/go-ethereum/common"
	ethTypes "github.com/ethereum/go-ethereum/core/types"
	"github.com/libp2p/go-libp2p/core/crypto"
	"github.com/libp2p/go-libp2p/core/host"
	"github.com/libp2p/go-libp2p/core/network"
	"github.com/libp2p/go-libp2p/core/peer"
	"github.com/libp2p/go-libp2p/core/peerstore"
	"github.com/libp2p/go-libp2p/core/protocol"
	"github.com/libp2p/go-libp2p/p2p/host/peerstore/pstoremem"
	ma "github.com/multiformats/go-multiaddr"
	"github.com/rs/zerolog"
)

const c13Key = "v8y/B?E(H+MbQeTh" // 16-byte AES key (the topology encryption key of the harness)
const c13N = 8                   // universe of peers, referred to by index on the wire

var c13Privs []crypto.PrivKey
var c13IDs []peer.ID

func c13Universe() {
	if len(c13IDs) > 0 {
		return
	}
	for i := 0; i < c13N; i++ {
		seed := bytes.Repeat([]byte{byte(0x40 + i)}, 32)
		priv, _, err := crypto.GenerateEd25519Key(bytes.NewReader(seed))
		if err != nil {
			panic(err)
		}
		id, err := peer.IDFromPrivateKey(priv)
		if err != nil {
			panic(err)
		}
		c13Privs = append(c13Privs, priv)
		c13IDs = append(c13IDs, id)
	}
}

// c13Idx: universe peers are 0..7; any other peer id (e.g. one produced by flipping a ciphertext bit) gets a number ≥ 1000
// that is a function of the id alone.
func c13Idx(id peer.ID) string {
	for i, x := range c13IDs {
		if x == id {
			return itoa(i)
		}
	}
	h := sha256.Sum256([]byte(id))
	return itoa(1000 + (int(h[0])<<16|int(h[1])<<8|int(h[2]))%1000000)
}

func c13SortNum(xs []string) []string {
	sort.Slice(xs, func(i, j int) bool { return u64(xs[i]) < u64(xs[j]) })
	out := []string{}
	for i, x := range xs {
		if i == 0 || xs[i-1] != x {
			out = append(out, x)
		}
	}
	return out
}

func c13Addr(i int) string {
	return fmt.Sprintf("/ip4/127.0.0.1/tcp/%d/p2p/%s", 4000+i, c13IDs[i].String())
}

// c13Topo parses `i,j,k/thr`
func c13Topo(s string) *topology.NetworkTopology {
	f := strings.Split(s, "/")
	t := &topology.NetworkTopology{Threshold: int(i64(f[1]))}
	for _, x := range items(f[0], ",") {
		ai, err := peer.AddrInfoFromString(c13Addr(int(u64(x))))
		if err != nil {
			panic(err)
		}
		t.Peers = append(t.Peers, ai)
	}
	return t
}

type c13Host struct {
	host.Host
	id   peer.ID
	ps   peerstore.Peerstore
	seam func() // called on every Peerstore() access (refresh2 parks one handler there); nil otherwise
}

func (h *c13Host) ID() peer.ID { return h.id }
func (h *c13Host) Peerstore() peerstore.Peerstore {
	if h.seam != nil {
		h.seam()
	}
	return h.ps
}
func (h *c13Host) SetStreamHandler(pid protocol.ID, f network.StreamHandler) {}

func c13NewHost(self int) *c13Host {
	ps, err := pstoremem.NewPeerstore()
	if err != nil {
		panic(err)
	}
	return &c13Host{id: c13IDs[self], ps: ps}
}

type c13Conn struct {
	network.Conn
	remote peer.ID
}

func (c *c13Conn) RemotePeer() peer.ID { return c.remote }

type c13Stream struct {
	network.Stream
	r    *bytes.Reader
	conn *c13Conn
}

func (s *c13Stream) Read(p []byte) (int, error) { return s.r.Read(p) }
func (s *c13Stream) Conn() network.Conn          { return s.conn }
func (s *c13Stream) Close() error                { return nil }

type c13Fetcher struct {
	body []byte
	err  bool
	n    int
}

func (f *c13Fetcher) Get(url string) (*http.Response, error) {
	f.n++
	if f.err {
		return nil, errors.New("fetch failed")
	}
	return &http.Response{StatusCode: 200, Body: io.NopCloser(bytes.NewReader(f.body))}, nil
}

type c13Listener struct {
	hashes []string
	err    bool
}

func (l *c13Listener) FetchKeygenEvents(ctx context.Context, a ethCommon.Address, s, e *big.Int) ([]ethTypes.Log, error) {
	return nil, nil
}
func (l *c13Listener) FetchFrostKeygenEvents(ctx context.Context, a ethCommon.Address, s, e *big.Int) ([]ethTypes.Log, error) {
	return nil, nil
}
func (l *c13Listener) FetchRefreshEvents(ctx context.Context, a ethCommon.Address, s, e *big.Int) ([]*events.Refresh, error) {
	if l.err {
		return nil, errors.New("rpc down")
	}
	out := []*events.Refresh{}
	for _, h := range l.hashes {
		out = append(out, &events.Refresh{Hash: h})
	}
	return out, nil
}
func (l *c13Listener) FetchDeposits(ctx context.Context, a ethCommon.Address, s, e *big.Int) ([]*events.Deposit, error) {
	return nil, nil
}
func (l *c13Listener) FetchRetryV1Events(ctx context.Context, a ethCommon.Address, s, e *big.Int) ([]events.RetryV1Event, error) {
	return nil, nil
}
func (l *c13Listener) FetchRetryV2Events(ctx context.Context, a ethCommon.Address, s, e *big.Int) ([]events.RetryV2Event, error) {
	return nil, nil
}
func (l *c13Listener) FetchRetryDepositEvents(ev events.RetryV1Event, b ethCommon.Address, c *big.Int) ([]events.Deposit, error) {
	return nil, nil
}

// c13Provider wraps the REAL provider only to record whether the call itself panicked (Decrypt on a short ciphertext).
type c13Provider struct {
	inner    topology.NetworkTopologyProvider
	panicked bool
}

func (p *c13Provider) NetworkTopology(hash string) (*topology.NetworkTopology, error) {
	defer func() {
		if r := recover(); r != nil {
			p.panicked = true
			panic(r)
		}
	}()
	return p.inner.NetworkTopology(hash)
}

type c13Storer struct{}

func (c13Storer) GetKeyshare() (keyshare.ECDSAKeyshare, error) {
	return keyshare.ECDSAKeyshare{}, errors.New("none")
}
func (c13Storer) StoreKeyshare(k keyshare.ECDSAKeyshare) error { return nil }
func (c13Storer) LockKeyshare()                                {}
func (c13Storer) UnlockKeyshare()                              {}

type c13Comm struct{}

func (c13Comm) CloseSession(string) {}
func (c13Comm) Broadcast(peer.IDSlice, []byte, comm.MessageType, string) error {
	return nil
}
func (c13Comm) Subscribe(s string, t comm.MessageType, ch chan *comm.WrappedMessage) comm.SubscriptionID {
	return comm.NewSubscriptionID(s, t)
}
func (c13Comm) UnSubscribe(comm.SubscriptionID) {}

func c13Encrypt(iv, data []byte) []byte {
	block, err := aes.NewCipher([]byte(c13Key))
	if err != nil {
		panic(err)
	}
	dst := make([]byte, len(data))
	cipher.NewCTR(block, iv).XORKeyStream(dst, data)
	return append(append([]byte{}, iv...), dst...)
}

// c13Oracle: what decrypt + json.Unmarshal + AddrInfoFromString + ParseInt give for a ciphertext (the model's parameters).
// `peers/thr` with peers as universe indices, or `n`.
func c13Oracle(ct []byte) string {
	if len(ct) < 16 {
		return "n"
	}
	dec, err := topology.NewAESEncryption([]byte(c13Key))
	if err != nil {
		panic(err)
	}
	raw := &topology.RawTopology{}
	if json.Unmarshal(dec.Decrypt(ct), raw) != nil {
		return "n"
	}
	idx := []string{}
	for _, p := range raw.Peers {
		ai, err := peer.AddrInfoFromString(p.PeerAddress)
		if err != nil {
			return "n"
		}
		idx = append(idx, c13Idx(ai.ID))
	}
	thr, err := strconv.ParseInt(raw.Threshold, 0, 0)
	if err != nil {
		return "n"
	}
	return joinOr(idx, ",") + "/" + strconv.FormatInt(thr, 10)
}

func c13Sorted(ids []peer.ID) string {
	xs := []string{}
	for _, id := range ids {
		xs = append(xs, c13Idx(id))
	}
	return joinOr(c13SortNum(xs), ",")
}

func c13Hashes(s string) []string {
	out := []string{}
	for _, h := range items(s, ",") {
		if h == "E" {
			h = ""
		}
		out = append(out, h)
	}
	return out
}

// c13Observe: the stored topology as a RESTARTED process would load it (a fresh TopologyStore on the same path, which is
// what app.Run builds the gate and the peerstore from), whom the live gate admits (asked about the universe, the stored
// peers and the peerstore's peers), and the peerstore's peers. The live store object must agree with the fresh one.
func c13Observe(path string, store *topology.TopologyStore, gate *p2p.ConnectionGate, h *c13Host) string {
	render := func(t *topology.NetworkTopology) string {
		xs := []string{}
		for _, p := range t.Peers {
			xs = append(xs, c13Idx(p.ID))
		}
		return joinOr(xs, ",") + "/" + itoa(t.Threshold)
	}
	s := "none"
	cands := append([]peer.ID{}, c13IDs...)
	cands = append(cands, h.Peerstore().Peers()...)
	if t, err := topology.NewTopologyStore(path).Topology(); err == nil {
		for _, p := range t.Peers {
			cands = append(cands, p.ID)
		}
		s = render(t)
	}
	live := "none"
	if t, err := store.Topology(); err == nil {
		live = render(t)
	}
	if live != s {
		return "live-store-disagrees-with-file:" + live + "≠" + s
	}
	adm := []string{}
	for _, id := range cands {
		in, out := gate.InterceptSecured(network.DirInbound, id, nil), gate.InterceptPeerDial(id)
		if in != out {
			return "gate-inconsistent"
		}
		if in {
			adm = append(adm, c13Idx(id))
		}
	}
	return "S=" + s + "|G=" + joinOr(c13SortNum(adm), ",") + "|P=" + c13Sorted(h.Peerstore().Peers())
}

func init() {
	c13Universe()
	// sha256 <hex> => hex   (Go's crypto/sha256; validates the Lean implementation)
	ops["C13.sha256"] = func(a []string) string { h := sha256.Sum256(unhx(a[0])); return hx(h[:]) }

	// gate <topology peers i,j,…> <hook> <peer index> => true|false
	ops["C13.gate"] = func(a []string) string {
		cg := p2p.NewConnectionGate(c13Topo(a[0] + "/1"))
		p := c13IDs[int(u64(a[2]))]
		var r bool
		switch a[1] {
		case "peerDial":
			r = cg.InterceptPeerDial(p)
		case "securedIn":
			r = cg.InterceptSecured(network.DirInbound, p, nil)
		case "securedOut":
			r = cg.InterceptSecured(network.DirOutbound, p, nil)
		case "addrDial":
			m, _ := ma.NewMultiaddr("/ip4/127.0.0.1/tcp/1")
			r = cg.InterceptAddrDial(p, m)
		case "accept":
			r = cg.InterceptAccept(nil)
		case "upgraded":
			r, _ = cg.InterceptUpgraded(nil)
		default:
			panic("hook")
		}
		return strconv.FormatBool(r)
	}

	// attr <remote index> <lines>  =>  from:type:session:payload;… (sorted) | -
	//   line = <ok|bad>:<type>:<session>:<payload hex>:<smuggle>   smuggle ∈ n|From|from|dash|FROM|dup
	//   ok lines are well-formed WrappedMessage JSON (plus a smuggled sender key naming peer 7), bad lines are not JSON /
	//   have a wrong field type. The stream is handed to the REAL ProcessMessagesFromStream of a communication whose
	//   subscriber listens on every (session, type) used.
	ops["C13.attr"] = func(a []string) string {
		remote := c13IDs[int(u64(a[0]))]
		c := p2p.NewCommunication(c13NewHost(0), "p2p/sygma")
		ch := make(chan *comm.WrappedMessage)
		var buf bytes.Buffer
		lines := items(a[1], ";")
		hasBad := false
		subscribed := map[string]bool{}
		for _, l := range lines {
			f := strings.Split(l, ":")
			if !subscribed[f[1]+":"+f[2]] {
				subscribed[f[1]+":"+f[2]] = true
				c.Subscribe(f[2], comm.MessageType(u64(f[1])), ch)
			}
			other, _ := json.Marshal(c13IDs[7])
			smug := ""
			switch f[4] {
			case "From":
				smug = `,"From":` + string(other)
			case "from":
				smug = `,"from":` + string(other)
			case "dash":
				smug = `,"-":` + string(other)
			case "FROM":
				smug = `,"FROM":` + string(other)
			case "dup":
				smug = `,"From":` + string(other) + `,"from":` + string(other) + `,"-":` + string(other)
			}
			sess, _ := json.Marshal(f[2])
			js := `{"message_type":` + f[1] + `,"message_id":` + string(sess) + `,"payload":"` + base64.StdEncoding.EncodeToString(unhx(f[3])) + `"` + smug + `}`
			switch f[0] {
			case "ok":
			case "bad":
				hasBad = true
				js = js[:len(js)-1] // truncated JSON
			case "badtype":
				hasBad = true
				js = `{"message_type":"x","message_id":` + string(sess) + `}`
			default:
				panic("line kind")
			}
			buf.WriteString(js + "\n")
		}
		st := &c13Stream{r: bytes.NewReader(buf.Bytes()), conn: &c13Conn{remote: remote}}
		c.ProcessMessagesFromStream(st)
		// every delivery goroutine exists by now and blocks on `ch` until we receive
		wait := 10 * time.Second
		if hasBad {
			wait = time.Second
		}
		out := []string{}
		deadline := time.After(wait)
	loop:
		for len(out) < len(lines) {
			select {
			case m := <-ch:
				out = append(out, c13Idx(m.From)+":"+itoa(int(m.MessageType))+":"+m.SessionID+":"+hx(m.Payload))
			case <-deadline:
				break loop
			}
		}
		// if the whole process was descheduled past the deadline, deliveries may be pending right now: let every runnable
		// goroutine reach its send and take what is parked on the channel (never reports fewer than were really delivered)
		for i := 0; i < 200 && len(out) < len(lines); i++ {
			runtime.Gosched()
			select {
			case m := <-ch:
				out = append(out, c13Idx(m.From)+":"+itoa(int(m.MessageType))+":"+m.SessionID+":"+hx(m.Payload))
			default:
			}
		}
		sort.Strings(out)
		return joinOr(out, ";")
	}

	// refresh <initial topology i,j/thr> <hashes h1,h2|x|-  (E = empty string)> <body hex|x> <oracle> <storeOk 0|1>
	//   => <done|panic>|S=<stored peers/thr | none>|G=<admitted universe peers>|P=<peerstore peers>
	ops["C13.refresh"] = func(a []string) string {
		dir, err := os.MkdirTemp("", "verif-c13-")
		if err != nil {
			panic(err)
		}
		defer os.RemoveAll(dir)
		path := filepath.Join(dir, "topology.json")
		if a[4] == "0" {
			path = dir // a directory: StoreTopology cannot open it for writing
		}
		store := topology.NewTopologyStore(path)
		init := c13Topo(a[0])
		if a[4] != "0" {
			if err := store.StoreTopology(init); err != nil {
				panic(err)
			}
		}
		gate := p2p.NewConnectionGate(init)
		h := c13NewHost(0)
		p2p.LoadPeers(h, init.Peers)
		f := &c13Fetcher{}
		if a[2] == "x" {
			f.err = true
		} else {
			f.body = unhx(a[2])
		}
		inner, err := topology.NewNetworkTopologyProvider(relayer.TopologyConfiguration{EncryptionKey: c13Key, Url: "http://unused"}, f)
		if err != nil {
			panic(err)
		}
		prov := &c13Provider{inner: inner}
		l := &c13Listener{}
		if a[1] == "x" {
			l.err = true
		} else {
			l.hashes = c13Hashes(a[1])
		}
		eh := eventHandlers.NewRefreshEventHandler(zerolog.Nop().With(), prov, store, l, nil, h, c13Comm{}, gate, c13Storer{}, nil, ethCommon.Address{})
		func() {
			// the handler ends in coordinator.Execute on a nil coordinator (harness artefact, after LoadPeers): recovered here
			defer func() { _ = recover() }()
			_ = eh.HandleEvents(big.NewInt(1), big.NewInt(2))
		}()
		out := "done"
		if prov.panicked {
			out = "panic"
		}
		return out + "|" + c13Observe(path, store, gate, h)
	}
	// refreshseq <initial topology> <ev>#<ev>#…   with ev = <hashes>~<body hex|x>~<oracle>~<storeOk>
	//   hashes = B: not a refresh but the start-up call NetworkTopology("") on the same provider (result discarded)
	//   => <outcome>|S=…|G=…|P=…#…   one observation per call; the SAME provider, store, gate, host and handler see the whole sequence
	ops["C13.refreshseq"] = func(a []string) string {
		dir, err := os.MkdirTemp("", "verif-c13-")
		if err != nil {
			panic(err)
		}
		defer os.RemoveAll(dir)
		path := filepath.Join(dir, "topology.json")
		store := topology.NewTopologyStore(path)
		init := c13Topo(a[0])
		if err := store.StoreTopology(init); err != nil {
			panic(err)
		}
		gate := p2p.NewConnectionGate(init)
		h := c13NewHost(0)
		p2p.LoadPeers(h, init.Peers)
		f := &c13Fetcher{}
		inner, err := topology.NewNetworkTopologyProvider(relayer.TopologyConfiguration{EncryptionKey: c13Key, Url: "http://unused"}, f)
		if err != nil {
			panic(err)
		}
		prov := &c13Provider{inner: inner}
		l := &c13Listener{}
		eh := eventHandlers.NewRefreshEventHandler(zerolog.Nop().With(), prov, store, l, nil, h, c13Comm{}, gate, c13Storer{}, nil, ethCommon.Address{})
		outs := []string{}
		for _, ev := range strings.Split(a[1], "#") {
			p := strings.Split(ev, "~")
			l.err, l.hashes = p[0] == "x", nil
			if !l.err {
				l.hashes = c13Hashes(p[0])
			}
			f.err, f.body = p[1] == "x", nil
			if !f.err {
				f.body = unhx(p[1])
			}
			prov.panicked = false
			if p[0] == "B" {
				func() {
					defer func() { _ = recover() }()
					_, _ = prov.NetworkTopology("")
				}()
				outs = append(outs, map[bool]string{true: "panic", false: "done"}[prov.panicked]+"|"+c13Observe(path, store, gate, h))
				continue
			}
			if p[3] == "0" { // the topology file cannot be opened for writing during this call: a directory sits in its place
				if err := os.Rename(path, path+".bak"); err != nil {
					panic(err)
				}
				if err := os.Mkdir(path, 0o700); err != nil {
					panic(err)
				}
			}
			func() {
				defer func() { _ = recover() }()
				_ = eh.HandleEvents(big.NewInt(1), big.NewInt(2))
			}()
			if p[3] == "0" {
				if err := os.Remove(path); err != nil {
					panic(err)
				}
				if err := os.Rename(path+".bak", path); err != nil {
					panic(err)
				}
			}
			if prov.panicked {
				outs = append(outs, "panic|"+c13Observe(path, store, gate, h))
			} else {
				outs = append(outs, "done|"+c13Observe(path, store, gate, h))
			}
		}
		return strings.Join(outs, "#")
	}
	// refresh2 <initial topology> <ev A> <ev B>     ev = <hashes>~<body hex|x>~<oracle>~1
	//   => S=…|G=…|P=…
	//   TWO real RefreshEventHandlers (as app.Run creates one per EVM chain) share the provider, the store, the gate and the
	//   host. Handler A runs in its own goroutine until its first access to the host's peerstore — that is inside
	//   p2p.LoadPeers, i.e. AFTER it has stored and gated its topology — and is parked there; handler B then runs completely;
	//   then A is let go. The schedule is fixed by the seam in the fake host, not by timing. (If A does not get that far
	//   because its announcement is not acceptable, it simply finishes first.)
	ops["C13.refresh2"] = func(a []string) string {
		dir, err := os.MkdirTemp("", "verif-c13-")
		if err != nil {
			panic(err)
		}
		defer os.RemoveAll(dir)
		path := filepath.Join(dir, "topology.json")
		store := topology.NewTopologyStore(path)
		init := c13Topo(a[0])
		if err := store.StoreTopology(init); err != nil {
			panic(err)
		}
		gate := p2p.NewConnectionGate(init)
		h := c13NewHost(0)
		p2p.LoadPeers(h, init.Peers)
		f := &c13Fetcher{}
		inner, err := topology.NewNetworkTopologyProvider(relayer.TopologyConfiguration{EncryptionKey: c13Key, Url: "http://unused"}, f)
		if err != nil {
			panic(err)
		}
		mk := func(ev string) (*eventHandlers.RefreshEventHandler, []byte, bool) {
			p := strings.Split(ev, "~")
			l := &c13Listener{}
			l.err = p[0] == "x"
			if !l.err {
				l.hashes = c13Hashes(p[0])
			}
			var body []byte
			if p[1] != "x" {
				body = unhx(p[1])
			}
			return eventHandlers.NewRefreshEventHandler(zerolog.Nop().With(), &c13Provider{inner: inner}, store, l, nil, h, c13Comm{}, gate, c13Storer{}, nil, ethCommon.Address{}), body, p[1] == "x"
		}
		ehA, bodyA, errA := mk(a[1])
		ehB, bodyB, errB := mk(a[2])
		atSeam, letGo, doneA := make(chan struct{}), make(chan struct{}), make(chan struct{})
		parked := false
		var mu sync.Mutex
		h.seam = func() {
			mu.Lock()
			first := !parked
			parked = true
			mu.Unlock()
			if first {
				close(atSeam)
				<-letGo
			}
		}
		f.body, f.err = bodyA, errA
		go func() {
			defer close(doneA)
			defer func() { _ = recover() }()
			_ = ehA.HandleEvents(big.NewInt(1), big.NewInt(2))
		}()
		select {
		case <-atSeam:
		case <-doneA:
			mu.Lock()
			parked = true // A never reached the peerstore: nobody is to be parked any more
			mu.Unlock()
		}
		f.body, f.err = bodyB, errB
		func() {
			defer func() { _ = recover() }()
			_ = ehB.HandleEvents(big.NewInt(3), big.NewInt(4))
		}()
		close(letGo)
		<-doneA
		h.seam = nil
		return c13Observe(path, store, gate, h)
	}
	// conn <A's topology> <B's topology> <broadcast|raw>  => delivered:<attributed sender> | refused        (TEST of the libp2p assumptions)
	//   Two REAL libp2p hosts built by p2p.NewHost on loopback: A = peer 0 (gater over A's topology), B = peer 1 (gater over
	//   B's topology). A sends one message to B — through the real Broadcast, or `raw` by writing a line that smuggles
	//   "From":<peer 7> straight into a stream. B's subscriber reports whom the message was attributed to.
	//   A refusal is observed as "nothing delivered within 1.2 s" (can only hide a violation, never invent one).
	ops["C13.conn"] = func(a []string) string {
		ta, tb := c13Topo(a[0]+"/1"), c13Topo(a[1]+"/1")
		hB, err := p2p.NewHost(c13Privs[1], tb, p2p.NewConnectionGate(tb), 0)
		if err != nil {
			return "hosterr"
		}
		defer hB.Close()
		hA, err := p2p.NewHost(c13Privs[0], ta, p2p.NewConnectionGate(ta), 0)
		if err != nil {
			return "hosterr"
		}
		defer hA.Close()
		// the topology's address of B is a placeholder; give A the address B really listens on
		hA.Peerstore().ClearAddrs(c13IDs[1])
		var loop []ma.Multiaddr
		for _, m := range hB.Addrs() {
			if strings.HasPrefix(m.String(), "/ip4/127.0.0.1/tcp/") {
				loop = append(loop, m)
			}
		}
		if len(loop) == 0 {
			return "noaddr"
		}
		hA.Peerstore().AddAddrs(c13IDs[1], loop[:1], peerstore.PermanentAddrTTL)
		cA := p2p.NewCommunication(hA, "p2p/sygma")
		cB := p2p.NewCommunication(hB, "p2p/sygma")
		ch := make(chan *comm.WrappedMessage, 4)
		cB.Subscribe("s-conn", comm.TssKeySignMsg, ch)
		expect := ta.IsAllowedPeer(c13IDs[1]) && tb.IsAllowedPeer(c13IDs[0])
		switch a[2] {
		case "broadcast":
			_ = cA.Broadcast(peer.IDSlice{c13IDs[1]}, []byte{1, 2, 3}, comm.TssKeySignMsg, "s-conn")
		case "raw":
			ctx, cancel := context.WithTimeout(context.Background(), 10*time.Second)
			defer cancel()
			if err := hA.Connect(ctx, peer.AddrInfo{ID: c13IDs[1], Addrs: loop[:1]}); err == nil {
				if st, err := hA.NewStream(ctx, c13IDs[1], "p2p/sygma"); err == nil {
					other, _ := json.Marshal(c13IDs[7])
					_, _ = st.Write([]byte(`{"message_type":1,"message_id":"s-conn","payload":"AQID","From":` + string(other) + `,"from":` + string(other) + "}\n"))
					defer st.Close()
				}
			}
		default:
			panic("via")
		}
		wait := 1200 * time.Millisecond
		if expect {
			wait = 15 * time.Second
		}
		select {
		case m := <-ch:
			return "delivered:" + c13Idx(m.From)
		case <-time.After(wait):
			return "refused"
		}
	}
	// cli <peers i,j,…/threshold> => ok:<peers/threshold> | …        (TEST: the operator's side of the announcement)
	//   The REAL `topology encrypt` command body encrypts a topology file and prints the ciphertext and the hash to announce;
	//   the REAL provider, given the printed ciphertext as fetched body and the printed hash as announced hash, must accept it
	//   and return the same topology (so the hash the CLI tells operators to announce is the one the relayers check).
	ops["C13.cli"] = func(a []string) string {
		f := strings.Split(a[0], "/")
		peers := []int{}
		for _, x := range items(f[0], ",") {
			peers = append(peers, int(u64(x)))
		}
		dir, err := os.MkdirTemp("", "verif-c13-")
		if err != nil {
			panic(err)
		}
		defer os.RemoveAll(dir)
		tp := filepath.Join(dir, "topology.json")
		if err := os.WriteFile(tp, c13TopoJSON(nil, peers, f[1]), 0o600); err != nil {
			panic(err)
		}
		old := os.Stdout
		r, w, err := os.Pipe()
		if err != nil {
			panic(err)
		}
		got := make(chan []byte, 1)
		go func() { b, _ := io.ReadAll(r); got <- b }()
		os.Stdout = w
		cerr := clitopology.VerifC13Encrypt(tp, c13Key)
		os.Stdout = old
		w.Close()
		printed := string(<-got)
		r.Close()
		if cerr != nil {
			return "clierr"
		}
		const p1, p2 = "Encrypted topology is: ", "Hash of the topology "
		i, j := strings.Index(printed, p1), strings.Index(printed, p2)
		if i < 0 || j < 0 {
			return "unparsed-output"
		}
		ctHex := strings.TrimSpace(printed[i+len(p1) : j])
		hash := strings.TrimSpace(printed[j+len(p2):])
		prov, err := topology.NewNetworkTopologyProvider(relayer.TopologyConfiguration{EncryptionKey: c13Key, Url: "http://unused"}, &c13Fetcher{body: []byte(ctHex + "\n")})
		if err != nil {
			panic(err)
		}
		if hash == "" {
			return "empty-hash"
		}
		t, err := prov.NetworkTopology(hash)
		if err != nil {
			return "rejected"
		}
		xs := []string{}
		for _, p := range t.Peers {
			xs = append(xs, c13Idx(p.ID))
		}
		return "ok:" + joinOr(xs, ",") + "/" + itoa(t.Threshold)
	}
	// stale <reconnect 0|1> => <first>,<second>       (OBSERVATION at the edge of the statement, labelled so)
	//   A (peer 0) and B (peer 1) are mutual members and exchange a message. Then B adopts a topology without A exactly as
	//   RefreshEventHandler does (SetTopology + LoadPeers). A sends again — over the connection that already exists
	//   (reconnect=0), or after B closed its connections to A (reconnect=1). The gater is consulted when a connection is
	//   made, not per stream: an existing connection of a removed peer keeps delivering until it is closed.
	ops["C13.stale"] = func(a []string) string {
		ta, tb := c13Topo("0,1/1"), c13Topo("0,1/1")
		gB := p2p.NewConnectionGate(tb)
		hB, err := p2p.NewHost(c13Privs[1], tb, gB, 0)
		if err != nil {
			return "hosterr"
		}
		defer hB.Close()
		hA, err := p2p.NewHost(c13Privs[0], ta, p2p.NewConnectionGate(ta), 0)
		if err != nil {
			return "hosterr"
		}
		defer hA.Close()
		hA.Peerstore().ClearAddrs(c13IDs[1])
		var loop []ma.Multiaddr
		for _, m := range hB.Addrs() {
			if strings.HasPrefix(m.String(), "/ip4/127.0.0.1/tcp/") {
				loop = append(loop, m)
			}
		}
		if len(loop) == 0 {
			return "noaddr"
		}
		hA.Peerstore().AddAddrs(c13IDs[1], loop[:1], peerstore.PermanentAddrTTL)
		cA := p2p.NewCommunication(hA, "p2p/sygma")
		cB := p2p.NewCommunication(hB, "p2p/sygma")
		ch := make(chan *comm.WrappedMessage, 4)
		cB.Subscribe("s-stale", comm.TssKeySignMsg, ch)
		recv := func(wait time.Duration) string {
			select {
			case m := <-ch:
				return "delivered:" + c13Idx(m.From)
			case <-time.After(wait):
				return "refused"
			}
		}
		_ = cA.Broadcast(peer.IDSlice{c13IDs[1]}, []byte{1}, comm.TssKeySignMsg, "s-stale")
		first := recv(15 * time.Second)
		nt := c13Topo("1,2/1") // B's new topology: A removed
		gB.SetTopology(nt)
		p2p.LoadPeers(hB, nt.Peers)
		wait := 15 * time.Second
		if a[0] == "1" {
			_ = hB.Network().ClosePeer(c13IDs[0])
			cA.CloseSession("s-stale")
			for i := 0; i < 200 && len(hA.Network().ConnsToPeer(c13IDs[1])) > 0; i++ {
				time.Sleep(10 * time.Millisecond)
			}
			wait = 1200 * time.Millisecond
		}
		_ = cA.Broadcast(peer.IDSlice{c13IDs[1]}, []byte{2}, comm.TssKeySignMsg, "s-stale")
		return first + "," + recv(wait)
	}
	gens["C13"] = genC13
}

func c13TopoJSON(g *G, peers []int, thr string) []byte {
	raw := topology.RawTopology{Threshold: thr}
	for _, p := range peers {
		raw.Peers = append(raw.Peers, topology.RawPeer{PeerAddress: c13Addr(p)})
	}
	b, _ := json.Marshal(raw)
	return b
}

func c13Subset(g *G) []int {
	out := []int{}
	for i := 0; i < c13N; i++ {
		if g.Intn(2) == 0 {
			out = append(out, i)
		}
	}
	return out
}

func c13Ints(xs []int) string {
	ss := []string{}
	for _, x := range xs {
		ss = append(ss, itoa(x))
	}
	return joinOr(ss, ",")
}

func c13Sha(b []byte) string { h := sha256.Sum256(b); return hex.EncodeToString(h[:]) }

func genC13(g *G) {
	c13Universe()
	thrs := []string{"1", "2", "3", "0", "-1", "0x2", "abc", "", "1_0", "9223372036854775807", "9223372036854775808"}
	// 1. SHA-256: every length 0..200 (straddles the 64-byte block and the 55/56 padding edge), random longer
	for n := 0; n <= 200; n++ {
		g.Emit("sha256", hx(g.Bytes(n)))
	}
	for i := 0; i < g.Count(30, 1500); i++ {
		g.Emit("sha256", hx(g.Bytes(200+g.Intn(1200))))
	}
	// 2. gate: exhaustive over hooks × peers for a few topologies (incl. empty and full), then random subsets
	hooks := []string{"peerDial", "securedIn", "securedOut", "addrDial", "accept", "upgraded"}
	tops := []string{"-", "0", "7", "0,1,2", "1,3,5,7", "0,1,2,3,4,5,6,7", "3,3"}
	for i := 0; i < g.Count(6, 60); i++ {
		tops = append(tops, c13Ints(c13Subset(g)))
	}
	for _, t := range tops {
		for _, h := range hooks {
			for p := 0; p < c13N; p++ {
				g.Emit("gate", t, h, itoa(p))
			}
		}
	}
	// 3. attribution: payloads that try to smuggle a sender
	smug := []string{"n", "From", "from", "dash", "FROM", "dup"}
	sess := []string{"s1", "1-2-100-104", "resharing-5", "keygen-1"}
	for r := 0; r < c13N; r++ {
		for _, s := range smug {
			g.Emit("attr", itoa(r), "ok:"+itoa(g.Intn(13))+":"+g.Pick(sess)+":"+hx(g.Bytes(g.Intn(40)))+":"+s)
		}
	}
	for i := 0; i < g.Count(150, 5000); i++ {
		n := 1 + g.Intn(4)
		ls := []string{}
		for j := 0; j < n; j++ {
			ls = append(ls, "ok:"+itoa(g.Intn(14))+":"+g.Pick(sess)+":"+hx(g.Bytes(g.Intn(64)))+":"+g.Pick(smug))
		}
		g.Emit("attr", itoa(g.Intn(c13N)), strings.Join(ls, ";"))
	}
	for i := 0; i < g.Count(4, 40); i++ { // a line that does not decode ends the stream (1 s wait each)
		kinds := []string{"ok", "bad", "ok"}
		if i%2 == 1 {
			kinds = []string{"badtype", "ok"}
		}
		ls := []string{}
		for _, k := range kinds {
			ls = append(ls, k+":"+itoa(g.Intn(13))+":"+g.Pick(sess)+":"+hx(g.Bytes(g.Intn(20)))+":"+g.Pick(smug))
		}
		g.Emit("attr", itoa(g.Intn(c13N)), strings.Join(ls, ";"))
	}
	// 3b. TEST: two real libp2p hosts (A = peer 0, B = peer 1); every combination of "B in A's topology" × "A in B's topology"
	for rep := 0; rep < g.Count(1, 12); rep++ {
		for _, ta := range []string{"0,1,2", "0,2", "1", "-"} {
			for _, tb := range []string{"0,1,3", "1,3"} {
				for _, via := range []string{"broadcast", "raw"} {
					if !g.Thorough() && (ta == "-" || (ta == "1" && via == "raw")) {
						continue
					}
					g.Emit("conn", ta, tb, via)
				}
			}
		}
	}
	// 3b'. OBSERVATION: a peer removed by a refresh — new connection refused, existing connection not re-examined
	for i := 0; i < g.Count(1, 10); i++ {
		g.Emit("stale", "0")
		g.Emit("stale", "1")
	}
	// 3c. TEST: what `topology encrypt` prints is accepted by the provider under the printed hash
	for i := 0; i < g.Count(12, 300); i++ {
		ps := c13Subset(g)
		g.Emit("cli", c13Ints(ps)+"/"+itoa(1+g.Intn(4)))
	}
	// 3d. sequences of refresh calls on one handler: mixtures of acceptable and unacceptable announcements
	for i := 0; i < g.Count(120, 6000); i++ {
		n := 2 + g.Intn(3)
		evs := []string{}
		for j := 0; j < n; j++ {
			thr := "2"
			if g.Intn(5) == 0 {
				thr = g.Pick(thrs)
			}
			ct := c13Encrypt(g.Bytes(16), c13TopoJSON(g, c13Subset(g), thr))
			body := hex.EncodeToString(ct)
			dec := ct
			hash := c13Sha(ct)
			switch g.Intn(9) {
			case 0:
				hash = c13Sha(g.Bytes(4)) // some other announcement
			case 1:
				hash = "E"
			case 2:
				dec = ct[:8+g.Intn(8)] // announced but too short to decrypt
				body = hex.EncodeToString(dec)
				hash = c13Sha(dec)
			case 3:
				hash = "x" // listener error
			case 4:
				hash = strings.ToUpper(hash)
			}
			b := hx([]byte(body))
			if g.Intn(12) == 0 {
				b = "x"
			}
			sOk := "1"
			if g.Intn(6) == 0 {
				sOk = "0"
			}
			evs = append(evs, hash+"~"+b+"~"+c13Oracle(dec)+"~"+sOk)
		}
		g.Emit("refreshseq", c13Ints(c13Subset(g))+"/1", strings.Join(evs, "#"))
	}
	// 3e. replays on ONE provider / store: a small pool of ciphertexts (topologies with repeated peers, same size and
	//     threshold as the initial one, a subset, a reordering) announced under each other's hashes, in every order
	{
		pool := [][]int{{0, 1, 2, 2}, {0, 1, 2}, {3, 2, 1, 0}}
		cts := [][]byte{}
		for _, ps := range pool {
			cts = append(cts, c13Encrypt(g.Bytes(16), c13TopoJSON(g, ps, "2")))
		}
		evAlpha := []string{}
		for i, ct := range cts {
			b := hx([]byte(hex.EncodeToString(ct)))
			for j := range cts {
				evAlpha = append(evAlpha, c13Sha(cts[j])+"~"+b+"~"+c13Oracle(ct)+"~1")
			}
			evAlpha = append(evAlpha, c13Sha([]byte{byte(i)})+"~"+b+"~"+c13Oracle(ct)+"~1")
			evAlpha = append(evAlpha, "B~"+b+"~"+c13Oracle(ct)+"~1")
		}
		for _, e1 := range evAlpha {
			for _, e2 := range evAlpha {
				g.Emit("refreshseq", "0,1,2,3/2", e1+"#"+e2)
			}
		}
		// adopt one, adopt another, then every event (a replay of the first body under any announcement comes third)
		good := []string{}
		for i, ct := range cts {
			good = append(good, c13Sha(ct)+"~"+hx([]byte(hex.EncodeToString(ct)))+"~"+c13Oracle(cts[i])+"~1")
		}
		for _, e1 := range good {
			for _, e2 := range good {
				if e1 == e2 {
					continue
				}
				for _, e3 := range evAlpha {
					g.Emit("refreshseq", "0,1,2,3/2", e1+"#"+e2+"#"+e3)
				}
			}
		}
		// announcements that match a digest of the provider's HISTORY instead of the fetched ciphertext: each call announces
		// either the right hash or the SHA-256 of everything fetched so far including this body (also after a start-up call)
		for _, boot := range []bool{false, true} {
			var rec func(seq []int, evs []string, acc []byte, depth int)
			rec = func(seq []int, evs []string, acc []byte, depth int) {
				if len(evs) >= 2 {
					g.Emit("refreshseq", "0,1,2,3/2", strings.Join(evs, "#"))
				}
				if depth == 0 {
					return
				}
				for i, ct := range cts {
					if depth == 1 && len(seq) >= 2 && !g.Thorough() && g.Intn(3) != 0 {
						continue
					}
					b := hx([]byte(hex.EncodeToString(ct)))
					acc2 := append(append([]byte{}, acc...), ct...)
					for _, h := range []string{c13Sha(ct), c13Sha(acc2)} {
						if len(acc) == 0 && h == c13Sha(acc2) && h == c13Sha(ct) && len(evs) > 0 {
							continue
						}
						rec(append(append([]int{}, seq...), i), append(append([]string{}, evs...), h+"~"+b+"~"+c13Oracle(ct)+"~1"), acc2, depth-1)
					}
				}
			}
			if boot {
				b0 := hx([]byte(hex.EncodeToString(cts[0])))
				rec([]int{0}, []string{"B~" + b0 + "~" + c13Oracle(cts[0]) + "~1"}, append([]byte{}, cts[0]...), 2)
			} else {
				rec(nil, nil, nil, 3)
			}
		}
		for i := 0; i < g.Count(250, 5000); i++ {
			n := 3 + g.Intn(4)
			evs := []string{}
			for j := 0; j < n; j++ {
				evs = append(evs, g.Pick(evAlpha))
			}
			g.Emit("refreshseq", []string{"0,1,2,3/2", "0,1,2/2", "2,1,0,0/2"}[g.Intn(3)], strings.Join(evs, "#"))
		}
	}
	// 3g. two handlers on shared store / gate / host, A parked between gate and peerstore while B runs
	{
		pool := [][]int{{1, 2}, {2, 3}, {0, 1, 2, 3}}
		evs := []string{}
		for _, ps := range pool {
			ct := c13Encrypt(g.Bytes(16), c13TopoJSON(g, ps, "1"))
			b := hx([]byte(hex.EncodeToString(ct)))
			evs = append(evs, c13Sha(ct)+"~"+b+"~"+c13Oracle(ct)+"~1")        // acceptable
			evs = append(evs, c13Sha([]byte("z"))+"~"+b+"~"+c13Oracle(ct)+"~1") // wrong announcement
		}
		evs = append(evs, "-~x~n~1")
		for _, ea := range evs {
			for _, eb := range evs {
				g.Emit("refresh2", "4,5/1", ea, eb)
			}
		}
	}
	// 3f. peer LISTS (order, repetitions) — every initial list × every announced list of 3 entries over {0,1,2}, same threshold
	{
		lists := []string{}
		for x := 0; x < 3; x++ {
			for y := 0; y < 3; y++ {
				for z := 0; z < 3; z++ {
					lists = append(lists, itoa(x)+","+itoa(y)+","+itoa(z))
				}
			}
		}
		toInts := func(s string) []int {
			out := []int{}
			for _, x := range strings.Split(s, ",") {
				out = append(out, int(u64(x)))
			}
			return out
		}
		for _, a := range lists {
			for _, b := range lists {
				if !g.Thorough() && g.Intn(3) != 0 && a != b {
					continue
				}
				ct := c13Encrypt(g.Bytes(16), c13TopoJSON(g, toInts(b), "2"))
				g.Emit("refresh", a+"/2", c13Sha(ct), hx([]byte(hex.EncodeToString(ct))), c13Oracle(ct), "1")
			}
		}
	}
	// 4. refresh: body variants × announced-hash variants × event lists × store outcome
	// 4a. systematic: an otherwise fully acceptable refresh × every threshold string × store outcome × position of the
	//     good hash in the event list; and a valid topology × every (body form, hash form) pair
	for _, thr := range thrs {
		for _, sOk := range []string{"1", "0"} {
			ct := c13Encrypt(g.Bytes(16), c13TopoJSON(g, c13Subset(g), thr))
			other := c13Sha(g.Bytes(8))
			for _, evs := range []string{c13Sha(ct), other + "," + c13Sha(ct), c13Sha(ct) + "," + other, "E," + c13Sha(ct), c13Sha(ct) + ",E"} {
				g.Emit("refresh", "0,1,2/2", evs, hx([]byte(hex.EncodeToString(ct))), c13Oracle(ct), sOk)
			}
		}
	}
	for rep := 0; rep < g.Count(1, 10); rep++ {
		ct := c13Encrypt(g.Bytes(16), c13TopoJSON(g, c13Subset(g), "2"))
		hexct := hex.EncodeToString(ct)
		bodies := []string{hexct, hexct + "\n", hexct + "\n\n", "\n" + hexct, strings.ToUpper(hexct), hexct[:len(hexct)-1], hexct[:len(hexct)-2],
			hexct[:32], hexct[:30], hexct + "00", "0x" + hexct, " " + hexct, hexct + " ", ""}
		for _, b := range bodies {
			good := c13Sha(ct)
			var dec []byte
			if d, err := hex.DecodeString(strings.TrimSuffix(b, "\n")); err == nil {
				good = c13Sha(d)
				dec = d
			}
			flipped := []byte(good)
			flipped[17] ^= 1
			for _, h := range []string{good, strings.ToUpper(good), c13Sha(ct), "E", string(flipped), good[:63], good + "0", "0x" + good} {
				g.Emit("refresh", "3,4/1", h, hx([]byte(b)), c13Oracle(dec), "1")
			}
		}
	}
	for i := 0; i < g.Count(900, 25000); i++ {
		init := c13Ints(c13Subset(g)) + "/" + itoa(1+g.Intn(3))
		thr := "2"
		if g.Intn(3) == 0 {
			thr = g.Pick(thrs)
		}
		js := c13TopoJSON(g, c13Subset(g), thr)
		switch g.Intn(12) {
		case 0:
			js = js[:len(js)/2] // broken JSON
		case 1:
			js = []byte(strings.Replace(string(js), "/p2p/", "/p3p/", 1)) // invalid peer address
		case 2:
			js = []byte{} // ciphertext is exactly the 16-byte iv
		}
		ct := c13Encrypt(g.Bytes(16), js)
		ct2 := c13Encrypt(g.Bytes(16), c13TopoJSON(g, c13Subset(g), "1")) // another valid topology
		body := []byte(hex.EncodeToString(ct))
		used := ct
		switch g.Intn(16) {
		case 0:
			body = append(body, '\n')
		case 1:
			body = append(body, '\n', '\n')
		case 2:
			body = []byte(strings.ToUpper(string(body)))
		case 3: // bit flip
			used = append([]byte{}, ct...)
			used[g.Intn(len(used))] ^= 1 << uint(g.Intn(8))
			body = []byte(hex.EncodeToString(used))
		case 4: // truncation to a boundary length
			n := []int{0, 1, 15, 16, 17, len(ct) - 1}[g.Intn(6)]
			if n > len(ct) {
				n = len(ct)
			}
			used = ct[:n]
			body = []byte(hex.EncodeToString(used))
		case 5:
			body = body[:len(body)-1] // odd number of hex digits
		case 6:
			used = ct2
			body = []byte(hex.EncodeToString(ct2))
		case 7:
			body = []byte("<html>not found</html>")
		case 8:
			body = []byte{}
		case 9:
			body = []byte("\n")
		case 10:
			body = append([]byte(" "), body...)
		}
		var good string
		if d, err := hex.DecodeString(strings.TrimSuffix(string(body), "\n")); err == nil {
			good = c13Sha(d)
			used = d
		} else {
			good = c13Sha(ct)
			used = nil
		}
		hashOf := func() string {
			switch g.Intn(14) {
			case 0:
				return strings.ToUpper(good)
			case 1:
				return c13Sha(ct2)
			case 2:
				return "E"
			case 3:
				b := []byte(good)
				k := g.Intn(len(b))
				if b[k] == '0' {
					b[k] = '1'
				} else {
					b[k] = '0'
				}
				return string(b)
			case 4:
				return good[:63]
			case 5:
				return "0x" + good
			case 6:
				return c13Sha(ct)
			}
			return good
		}
		evs := "-"
		switch g.Intn(10) {
		case 0:
			evs = "x"
		case 1:
			evs = "-"
		case 2, 3:
			evs = hashOf() + "," + hashOf()
		case 4:
			evs = hashOf() + "," + hashOf() + "," + hashOf()
		default:
			evs = hashOf()
		}
		b := hx(body)
		if g.Intn(25) == 0 {
			b = "x"
		}
		storeOk := "1"
		if g.Intn(10) == 0 {
			storeOk = "0"
		}
		g.Emit("refresh", init, evs, b, c13Oracle(used), storeOk)
	}
}
