package main

// C03 — the executed-status lookups themselves: the REAL BridgeContract.IsProposalExecuted (bridge.go) over a fake
// chain client that decodes the eth_call, and the REAL Pallet.IsProposalExecuted (pallet.go) over a fake RPC client.
// Observed: which (domain, nonce) the destination was asked about, and whether its answer is passed on unchanged.

import (
	"context"
	"errors"
	"fmt"
	"math/big"
	"strings"

	"github.com/ChainSafe/sygma-relayer/chains/evm/calls/consts"
	"github.com/ChainSafe/sygma-relayer/chains/evm/calls/contracts/bridge"
	"github.com/ChainSafe/sygma-relayer/chains/substrate/pallet"
	"github.com/ChainSafe/sygma-relayer/relayer/transfer"
	gsrpcClient "github.com/centrifuge/go-substrate-rpc-client/v4/client"
	"github.com/ethereum/go-ethereum/accounts/abi"
	"github.com/ethereum/go-ethereum/common"
	"github.com/ethereum/go-ethereum/common/hexutil"
	ethTypes "github.com/ethereum/go-ethereum/core/types"
	gethrpc "github.com/centrifuge/go-substrate-rpc-client/v4/gethrpc"
	evmClient "github.com/sygmaprotocol/sygma-core/chains/evm/client"
	subClient "github.com/sygmaprotocol/sygma-core/chains/substrate/client"
	"github.com/sygmaprotocol/sygma-core/chains/substrate/connection"
)

type c3EthClient struct {
	abi    abi.ABI
	answer string
	asked  string
}

func (c *c3EthClient) CallContract(ctx context.Context, args map[string]interface{}, block *big.Int) ([]byte, error) {
	data, _ := args["data"].(hexutil.Bytes)
	if len(data) < 4 {
		c.asked = "nodata"
		return nil, errors.New("no data")
	}
	m, err := c.abi.MethodById(data[:4])
	if err != nil {
		c.asked = "unknown-method"
		return nil, err
	}
	in, err := m.Inputs.Unpack(data[4:])
	if err != nil || len(in) != 2 {
		c.asked = m.Name + ":undecodable"
		return nil, errors.New("undecodable")
	}
	c.asked = fmt.Sprintf("%s:%d:%s", m.Name, in[0].(uint8), in[1].(*big.Int).String())
	switch c.answer {
	case "x":
		return nil, errors.New("rpc failed")
	case "e":
		return m.Outputs.Pack(true)
	}
	return m.Outputs.Pack(false)
}
func (c *c3EthClient) CodeAt(ctx context.Context, a common.Address, b *big.Int) ([]byte, error) {
	return []byte{1}, nil
}
func (c *c3EthClient) WaitAndReturnTxReceipt(h common.Hash) (*ethTypes.Receipt, error) { return nil, nil }
func (c *c3EthClient) SignAndSendTransaction(ctx context.Context, tx evmClient.CommonTransaction) (common.Hash, error) {
	return common.Hash{}, nil
}
func (c *c3EthClient) TransactionReceipt(ctx context.Context, h common.Hash) (*ethTypes.Receipt, error) {
	return nil, nil
}
func (c *c3EthClient) GetTransactionByHash(h common.Hash) (*ethTypes.Transaction, bool, error) {
	return nil, false, nil
}
func (c *c3EthClient) UnsafeNonce() (*big.Int, error)             { return big.NewInt(0), nil }
func (c *c3EthClient) LockNonce()                                 {}
func (c *c3EthClient) UnlockNonce()                               {}
func (c *c3EthClient) UnsafeIncreaseNonce() error                 { return nil }
func (c *c3EthClient) From() common.Address                       { return common.Address{} }
func (c *c3EthClient) ChainID(ctx context.Context) (*big.Int, error) { return big.NewInt(1), nil }

type c3RpcClient struct {
	answer string
	asked  string
}

func (c *c3RpcClient) Call(result interface{}, method string, args ...interface{}) error {
	xs := []string{method}
	for _, a := range args {
		xs = append(xs, fmt.Sprintf("%T=%v", a, a))
	}
	c.asked = strings.Join(xs, ":")
	switch c.answer {
	case "x":
		return errors.New("rpc failed")
	case "e":
		*(result.(*bool)) = true
	default:
		*(result.(*bool)) = false
	}
	return nil
}
func (c *c3RpcClient) CallContext(ctx context.Context, result interface{}, method string, args ...interface{}) error {
	return c.Call(result, method, args...)
}
func (c *c3RpcClient) Subscribe(ctx context.Context, ns, sub, unsub, notif string, ch interface{}, args ...interface{}) (*gethrpc.ClientSubscription, error) {
	return nil, errors.New("not in harness")
}
func (c *c3RpcClient) URL() string { return "" }
func (c *c3RpcClient) Close()      {}

var _ gsrpcClient.Client = (*c3RpcClient)(nil)

func c3Answer(b bool, err error) string {
	if err != nil {
		return "x"
	}
	if b {
		return "e"
	}
	return "p"
}

func init() {
	// lookupevm <source> <destination> <nonce> <p|e|x>  =>  <method>:<domain asked>:<nonce asked>|<answer passed on>
	ops["C03.lookupevm"] = func(a []string) string {
		ab, _ := abi.JSON(strings.NewReader(consts.BridgeABI))
		cl := &c3EthClient{abi: ab, answer: a[3], asked: "-"}
		br := bridge.NewBridgeContract(cl, common.HexToAddress("0x01"), nil)
		ok, err := br.IsProposalExecuted(&transfer.TransferProposal{Source: uint8(u64(a[0])), Destination: uint8(u64(a[1])),
			Data: transfer.TransferProposalData{DepositNonce: u64(a[2])}})
		return cl.asked + "|" + c3Answer(ok, err)
	}
	// lookupsub <source> <destination> <nonce> <p|e|x>  =>  <rpc method>:<typed args>|<answer passed on>
	ops["C03.lookupsub"] = func(a []string) string {
		cl := &c3RpcClient{answer: a[3], asked: "-"}
		p := pallet.NewPallet(&subClient.SubstrateClient{Conn: &connection.Connection{Client: cl}})
		ok, err := p.IsProposalExecuted(&transfer.TransferProposal{Source: uint8(u64(a[0])), Destination: uint8(u64(a[1])),
			Data: transfer.TransferProposalData{DepositNonce: u64(a[2])}})
		return cl.asked + "|" + c3Answer(ok, err)
	}
}

func init() {
	// lookupseq <evm|sub> <src.nonce.answer,…>   ONE long-lived BridgeContract / Pallet answers a SEQUENCE of lookups for
	//   proposals of several source domains; the node's answer for the pair asked is the one of the current step.
	//   =>  per step `<what the node was asked | noask>=<answer passed on>`, ','-separated
	ops["C03.lookupseq"] = func(a []string) string {
		ab, _ := abi.JSON(strings.NewReader(consts.BridgeABI))
		ecl := &c3EthClient{abi: ab}
		rcl := &c3RpcClient{}
		br := bridge.NewBridgeContract(ecl, common.HexToAddress("0x01"), nil)
		pl := pallet.NewPallet(&subClient.SubstrateClient{Conn: &connection.Connection{Client: rcl}})
		out := []string{}
		for _, q := range items(a[1], ",") {
			f := strings.Split(q, ".")
			prop := &transfer.TransferProposal{Source: uint8(u64(f[0])), Destination: 9,
				Data: transfer.TransferProposalData{DepositNonce: u64(f[1])}}
			var ok bool
			var err error
			asked := ""
			if a[0] == "evm" {
				ecl.answer, ecl.asked = f[2], "noask"
				ok, err = br.IsProposalExecuted(prop)
				asked = strings.TrimPrefix(ecl.asked, "isProposalExecuted:")
			} else {
				rcl.answer, rcl.asked = f[2], "noask"
				ok, err = pl.IsProposalExecuted(prop)
				// sygma_isProposalExecuted:uint64=<nonce>:uint8=<domain>  ->  <domain>:<nonce>
				if g := strings.Split(rcl.asked, ":"); len(g) == 3 {
					asked = strings.TrimPrefix(g[2], "uint8=") + ":" + strings.TrimPrefix(g[1], "uint64=")
				} else {
					asked = rcl.asked
				}
			}
			out = append(out, asked+"="+c3Answer(ok, err))
		}
		return joinOr(out, ",")
	}
}

// sequences of lookups over a few source domains and nonces that COINCIDE across domains; the node's answers are
// monotone per (domain, nonce): once executed, executed (lookup errors may come and go)
func genC03LookupSeq(g *G) {
	for i := 0; i < g.Count(400, 8000); i++ {
		n := 2 + g.Intn(6)
		executed := map[string]bool{}
		qs := []string{}
		for j := 0; j < n; j++ {
			src := []string{"1", "2", "3", "255"}[g.Intn(4)]
			nonce := []string{"0", "5", "5", "7", "18446744073709551615"}[g.Intn(5)]
			key := src + "." + nonce
			ans := "p"
			switch {
			case g.Intn(8) == 0:
				ans = "x"
			case executed[key] || g.Intn(2) == 0:
				ans = "e"
				executed[key] = true
			}
			qs = append(qs, key+"."+ans)
		}
		g.Emit("lookupseq", g.Pick([]string{"evm", "sub", "sub"}), strings.Join(qs, ","))
	}
	// the smallest instance of every pair of domains with a coinciding nonce
	for _, kind := range []string{"evm", "sub"} {
		for _, a1 := range []string{"e", "p", "x"} {
			for _, a2 := range []string{"e", "p", "x"} {
				g.Emit("lookupseq", kind, "1.5."+a1+",2.5."+a2)
				g.Emit("lookupseq", kind, "1.5."+a1+",1.6."+a2+",2.5.p,1.5.e")
			}
		}
	}
}

func genC03Lookups(g *G) {
	genC03LookupSeq(g)
	for i := 0; i < g.Count(300, 5000); i++ {
		src := []uint64{0, 1, 2, 3, 255}[g.Intn(5)]
		dst := []uint64{0, 1, 2, 3, 255}[g.Intn(5)]
		n := []uint64{0, 1, 2, 255, 256, 1 << 32, 1<<64 - 1, uint64(g.Intn(1000))}[g.Intn(8)]
		g.Emit(g.Pick([]string{"lookupevm", "lookupsub"}), utoa(src), utoa(dst), utoa(n), g.Pick([]string{"p", "e", "x"}))
	}
}
