package main

// C03 — "no submission": what the EVM / Substrate executors submit once a signature arrives is the batch that was
// signed. The REAL watchExecution is run (hook) with a pre-filled signature channel; the fake bridge / pallet records
// the proposals handed to ExecuteProposals.

import (
	"context"
	"errors"
	"sync"
	"time"

	evmExecutor "github.com/ChainSafe/sygma-relayer/chains/evm/executor"
	subExecutor "github.com/ChainSafe/sygma-relayer/chains/substrate/executor"
	"github.com/ChainSafe/sygma-relayer/relayer/transfer"
	tssCommon "github.com/binance-chain/tss-lib/common"
	"github.com/centrifuge/go-substrate-rpc-client/v4/rpc/author"
	"github.com/centrifuge/go-substrate-rpc-client/v4/types"
	ethCommon "github.com/ethereum/go-ethereum/common"
	"github.com/libp2p/go-libp2p/p2p/host/peerstore/pstoremem"
	"github.com/sygmaprotocol/sygma-core/chains/evm/transactor"
)

type c3SubmitRec struct {
	mu        sync.Mutex
	submitted []string
	fail      bool
	cancel    context.CancelFunc
	tracked   int
}

func (r *c3SubmitRec) rec(ps []*transfer.TransferProposal, gas string) error {
	r.mu.Lock()
	defer r.mu.Unlock()
	xs := []string{}
	for _, p := range ps {
		xs = append(xs, utoa(p.Data.DepositNonce))
	}
	r.submitted = append(r.submitted, joinOr(xs, ",")+"/"+gas)
	if r.cancel != nil {
		defer r.cancel()
	}
	if r.fail {
		return errors.New("submission refused")
	}
	return nil
}

type c3SubmitBridge struct{ r *c3SubmitRec }

func (b c3SubmitBridge) IsProposalExecuted(p *transfer.TransferProposal) (bool, error) { return false, nil }
func (b c3SubmitBridge) ProposalsHash(ps []*transfer.TransferProposal) ([]byte, error) {
	return nil, errors.New("not reached")
}
func (b c3SubmitBridge) ExecuteProposals(ps []*transfer.TransferProposal, sig []byte, opts transactor.TransactOptions) (*ethCommon.Hash, error) {
	if len(sig) != 65 {
		return nil, errors.New("bad signature length")
	}
	if err := b.r.rec(ps, utoa(opts.GasLimit)); err != nil {
		return nil, err
	}
	return &ethCommon.Hash{}, nil
}

type c3SubmitPallet struct{ r *c3SubmitRec }

func (b c3SubmitPallet) IsProposalExecuted(p *transfer.TransferProposal) (bool, error) { return false, nil }
func (b c3SubmitPallet) ProposalsHash(ps []*transfer.TransferProposal) ([]byte, error) {
	return nil, errors.New("not reached")
}
func (b c3SubmitPallet) ExecuteProposals(ps []*transfer.TransferProposal, sig []byte) (types.Hash, *author.ExtrinsicStatusSubscription, error) {
	if len(sig) != 65 {
		return types.Hash{}, nil, errors.New("bad signature length")
	}
	return types.Hash{}, nil, b.r.rec(ps, "-")
}
func (b c3SubmitPallet) TrackExtrinsic(h types.Hash, sub *author.ExtrinsicStatusSubscription) error {
	b.r.mu.Lock()
	defer b.r.mu.Unlock()
	b.r.tracked++
	return nil
}

func c3TProps(ns []uint64) []*transfer.TransferProposal {
	ps := []*transfer.TransferProposal{}
	for _, n := range ns {
		ps = append(ps, &transfer.TransferProposal{Source: c3Src, Destination: c3Dst, MessageID: "m",
			Data: transfer.TransferProposalData{DepositNonce: n, Data: []byte{byte(n)}}})
	}
	return ps
}

func init() {
	// submit <evm|sub> <ok|fail> <gas> <nonces>  =>  <nil|err>|<submitted nonces>/<gas>;…
	ops["C03.submit"] = func(a []string) string {
		ctx, cancel := context.WithTimeout(context.Background(), 15*time.Second)
		defer cancel()
		r := &c3SubmitRec{fail: a[1] == "fail", cancel: cancel}
		ps, _ := pstoremem.NewPeerstore()
		h, cm := &c17Host{ps: ps}, &c17Comm{}
		sigChn := make(chan interface{}, 1)
		sigChn <- &tssCommon.SignatureData{R: []byte{1}, S: []byte{2}, SignatureRecovery: []byte{0}}
		var err error
		if a[0] == "evm" {
			e := evmExecutor.NewExecutor(h, cm, nil, c3SubmitBridge{r}, nil, &sync.RWMutex{}, 1000, 60)
			err = e.VerifC03WatchExecution(ctx, func() {}, c3TProps(c3Nonces(a[3])), u64(a[2]), sigChn, "m-0", "m")
		} else {
			e := subExecutor.NewExecutor(h, cm, nil, c3SubmitPallet{r}, nil, nil, &sync.RWMutex{})
			err = e.VerifC03WatchExecution(ctx, func() {}, c3TProps(c3Nonces(a[3])), sigChn, "m")
		}
		r.mu.Lock()
		defer r.mu.Unlock()
		return c3Ret(err) + "|" + joinOr(r.submitted, ";")
	}
}

func genC03Submit(g *G) {
	for i := 0; i < g.Count(120, 3000); i++ {
		kind := g.Pick([]string{"evm", "sub"})
		gas := "-"
		if kind == "evm" {
			gas = utoa([]uint64{0, 60, 120, 1 << 40, 1<<64 - 1}[g.Intn(5)])
		} else {
			gas = "0"
		}
		ns := c3RandNonces(g, 50, 6)
		if ns == "" {
			ns = "-"
		}
		g.Emit("submit", kind, g.Pick([]string{"ok", "ok", "fail"}), gas, ns)
	}
}
