package main

// C08, second group of orchestration ops: a Signing object that is run more than once (retries), the parameters the
// ECDSA resharing hands to the library, real ECDSA refreshes that change the threshold.

import (
	"context"
	"encoding/json"
	"fmt"
	"math/big"
	"reflect"
	"time"
	"unsafe"

	"github.com/ChainSafe/sygma-relayer/keyshare"
	ecdsaResharing "github.com/ChainSafe/sygma-relayer/tss/ecdsa/resharing"
	ecdsaSigning "github.com/ChainSafe/sygma-relayer/tss/ecdsa/signing"
	tssCommon "github.com/binance-chain/tss-lib/common"
	"github.com/binance-chain/tss-lib/tss"
	"github.com/libp2p/go-libp2p/core/peer"
)

// release2 ecdsa <roles e.g. TF> <how each Run ends early: j = undecodable start params, s = subset without this relayer>
// ONE Signing object, Run once per role letter (as the coordinator does when it retries a session), then the real
// processEndMessage with a signature waiting  =>  sig | nil | nothing
func c08OpRelease2(a []string) string {
	all, err := c08FixturePeers()
	if err != nil {
		return "nofixture"
	}
	st := &c08ECDSAStore{has: true, key: keyshare.ECDSAKeyshare{Threshold: 1, Peers: all}}
	s, err := ecdsaSigning.NewSigning(big.NewInt(1), "m", "sid", &c08Host{id: all[0], peers: all}, &c08Comm{net: newC08Net(1, 1), self: all[0]}, st)
	if err != nil {
		return "newsigning"
	}
	ch := make(chan interface{}, 4)
	params := []byte("{not json")
	if a[2] == "s" {
		params, _ = json.Marshal([]peer.ID{all[1], all[2]})
	}
	for _, r := range a[1] {
		if s.Run(context.Background(), r == 'T', ch, params) == nil {
			return "run-did-not-end-early"
		}
	}
	sig := tssCommon.SignatureData{Signature: []byte{1, 2, 3}, R: []byte{4}, S: []byte{5}}
	res, delivered, err := s.VerifEndOn(sig)
	switch {
	case err != nil:
		return "err"
	case !delivered:
		return "nothing"
	case res == nil:
		return "nil"
	}
	if p, ok := res.(*tssCommon.SignatureData); ok && p != nil && string(p.Signature) == string(sig.Signature) {
		return "sig"
	}
	return "other"
}

func c08Committee(idx string) ([]peer.ID, error) { // indexes into [fixture 0, 1, 2, pool 0, pool 3, pool 6]
	all, err := c08FixturePeers()
	if err != nil {
		return nil, err
	}
	all = append(all, c08PoolPeer(0), c08PoolPeer(3), c08PoolPeer(6))
	out := []peer.ID{}
	for _, i := range c08Subset(idx) {
		out = append(out, all[i])
	}
	return out, nil
}

// reshareparams <old threshold> <new threshold> <old subset idx> <new committee idx>  (this relayer = index 0, in both)
// the REAL Resharing.Run up to the point where the library's party exists; the parameters it was given are read back from it
//   =>  t=<old threshold>,n=<old parties>;nt=<new threshold>,nn=<new parties> | err
func c08OpReshareParams(a []string) string {
	oldThr, newThr := int(i64(a[0])), int(i64(a[1]))
	old, err := c08Committee(a[2])
	if err != nil {
		return "nofixture"
	}
	nw, _ := c08Committee(a[3])
	fx, err := c18Fixture("ecdsa", 0)
	if err != nil {
		return "nofixture"
	}
	k := fx.ecdsa
	k.Peers, k.Threshold = old, oldThr
	st := &c08ECDSAStore{has: true, key: k}
	net := newC08Net(1, 1)
	defer close(net.done)
	r := ecdsaResharing.NewResharing("c08rp", newThr, &c08Host{id: nw[0], peers: nw}, &c08Comm{net: net, self: nw[0]}, st)
	defer r.Stop()
	ctx, cancel := context.WithCancel(context.Background())
	defer cancel()
	errC := make(chan error, 1)
	go func() { errC <- r.Run(ctx, true, make(chan interface{}, 1), r.StartParams(nil)) }()
	deadline := time.After(10 * time.Second)
	for {
		select {
		case e := <-errC:
			if e != nil {
				return "err"
			}
			return "ended"
		case <-deadline:
			return "noparty"
		case <-time.After(2 * time.Millisecond):
		}
		if p := r.Party; p != nil {
			f := reflect.ValueOf(p).Elem().FieldByName("params")
			if !f.IsValid() {
				return "noparams"
			}
			rp := reflect.NewAt(f.Type(), unsafe.Pointer(f.UnsafeAddr())).Elem().Interface().(*tss.ReSharingParameters)
			return fmt.Sprintf("t=%d,n=%d;nt=%d,nn=%d", rp.Threshold(), rp.PartyCount(), rp.NewThreshold(), rp.NewPartyCount())
		}
	}
}

// resharerun ecdsa <new thresholds in turn, e.g. 2,1> <seed> [<committee: fixture indexes, default 0,1,2>]
// REAL ECDSA refreshes (tss/ecdsa/resharing + threshlib) over the listed fixture holders (a holder not listed LEAVES), one
// per listed threshold; after each: every member stored the unchanged public key, the new threshold and the NEW committee;
// then a real signing session of (last threshold + 1) members with the refreshed shares  =>  ok | reason
func c08OpReshareRunECDSA(a []string) string {
	seed := u64(a[2])
	all, err := c08FixturePeers()
	if err != nil {
		return "nofixture"
	}
	members := []int{0, 1, 2}
	if len(a) > 3 {
		members = c08Subset(a[3])
	}
	committee := []peer.ID{}
	for _, i := range members {
		committee = append(committee, all[i])
	}
	n := len(members)
	stores := []*c08ECDSAStore{}
	var pubX *big.Int
	for _, i := range members {
		fx, err := c18Fixture("ecdsa", i)
		if err != nil {
			return "nofixture"
		}
		stores = append(stores, &c08ECDSAStore{has: true, key: fx.ecdsa})
		pubX = fx.ecdsa.Key.ECDSAPub.X()
	}
	last := 1
	for round, it := range items(a[1], ",") {
		nthr := int(u64(it))
		sid := fmt.Sprintf("c08er-%s-%d", a[2], round)
		procs := make([]*ecdsaResharing.Resharing, n)
		for i := range procs {
			procs[i] = ecdsaResharing.NewResharing(sid, nthr, &c08Host{id: committee[i], peers: committee}, &c08Comm{self: committee[i]}, stores[i])
		}
		if r := c08RunAll(n, seed+uint64(round), func(i int) peer.ID { return committee[i] }, func(i int, c *c08Comm) c08Proc {
			procs[i].Communication = c
			return procs[i]
		}, func() []byte { return procs[0].StartParams(nil) }); r != "" {
			return fmt.Sprintf("refresh%d-%s", round, r)
		}
		for _, s := range stores {
			if len(s.stored) != round+1 {
				return fmt.Sprintf("refresh%d-stored-nothing", round)
			}
			k := s.stored[round]
			if k.Key.ECDSAPub.X().Cmp(pubX) != 0 {
				return fmt.Sprintf("refresh%d-changed-public-key", round)
			}
			if k.Threshold != nthr {
				return fmt.Sprintf("refresh%d-stored-threshold", round)
			}
			if len(k.Peers) != len(committee) {
				return fmt.Sprintf("refresh%d-stored-committee", round)
			}
			for _, p := range committee {
				if !c08Has(k.Peers, p) {
					return fmt.Sprintf("refresh%d-stored-committee", round)
				}
			}
			s.key = k
		}
		last = nthr
	}
	sub := []int{}
	fetchers := []ecdsaSigning.SaveDataFetcher{}
	for i := 0; i <= last && i < n; i++ {
		j := (i + int(seed)) % n
		sub = append(sub, members[j])
		fetchers = append(fetchers, stores[j])
	}
	digest := make([]byte, 32)
	copy(digest, []byte("c08 resharerun "+a[2]))
	if r := c08SignECDSAWith(sub, fetchers, all, digest, 0, seed+7, "c08ers-"+a[2]); r != "ok" {
		return "sign-" + r
	}
	return "ok"
}

func init() {
	ops["C08.release2"] = c08OpRelease2
	ops["C08.reshareparams"] = c08OpReshareParams
	ops["C08.resharerun"] = c08OpReshareRunECDSA
}
