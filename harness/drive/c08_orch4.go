package main

// C08, fourth group: (a) processes constructed one after another on ONE long-lived key-share store object — what each sees of
// the share, in particular after a refresh that was only attempted; (b) the real coordinator collecting `ready` answers that
// arrive repeated and out of step, and the subset it then starts the session with; (c) a FROST signing session and a FROST
// refresh with a threshold change run side by side (one 11 s start-up pause instead of two).

import (
	"context"
	"encoding/json"
	"fmt"
	"math/big"
	"os"
	"path/filepath"
	"strings"
	"sync"
	"time"

	"github.com/ChainSafe/sygma-relayer/comm"
	"github.com/ChainSafe/sygma-relayer/comm/elector"
	"github.com/ChainSafe/sygma-relayer/keyshare"
	"github.com/ChainSafe/sygma-relayer/tss"
	ecdsaResharing "github.com/ChainSafe/sygma-relayer/tss/ecdsa/resharing"
	ecdsaSigning "github.com/ChainSafe/sygma-relayer/tss/ecdsa/signing"
	frostResharing "github.com/ChainSafe/sygma-relayer/tss/frost/resharing"
	frostSigning "github.com/ChainSafe/sygma-relayer/tss/frost/signing"
	"github.com/ChainSafe/sygma-relayer/tss/message"
	tssUtil "github.com/ChainSafe/sygma-relayer/tss/util"
	"github.com/libp2p/go-libp2p/core/peer"
)

// storelife <ecdsa|frost> <holder 0..2> <steps, e.g. s;r2;s;g;r3;g>
//
//	s  = construct a signing process on the store (as the executor does for every message) and look at the share it will use
//	g  = Lock, GetKeyshare, Unlock
//	rN = construct a resharing process with new threshold N and stop it again: a refresh that was attempted and abandoned
//
// ONE real store object over a private copy of the holder's fixture file for the whole sequence. Every look at the share
// reports <committee threshold>,<share threshold (frost: TaprootConfig.Threshold)>,<peers>,<1: same public key as the file>
//
//	=>  per step joined by `/`; the file itself is re-read with a FRESH store object at the end (last item)
func c08OpStoreLife(a []string) string {
	kind, self := a[0], int(u64(a[1]))
	all, err := c08FixturePeers()
	if err != nil {
		return "nofixture"
	}
	dir, err := os.MkdirTemp("", "verif-c08sl-")
	if err != nil {
		return "notmp"
	}
	defer os.RemoveAll(dir)
	src := fmt.Sprintf("%s/tss/test/keyshares/%d.keyshare", repoRoot(), self)
	if kind == "frost" {
		src = fmt.Sprintf("%s/tss/test/keyshares/%d-frost.keyshare", repoRoot(), self)
	}
	b, err := os.ReadFile(src)
	if err != nil {
		return "nofixture"
	}
	path := filepath.Join(dir, "share.json")
	if os.WriteFile(path, b, 0o644) != nil {
		return "notmp"
	}
	host := &c08Host{id: all[self], peers: all}
	net := newC08Net(1, 1)
	defer close(net.done)
	cm := &c08Comm{net: net, self: all[self]}
	es := keyshare.NewECDSAKeyshareStore(path)
	fs := keyshare.NewFrostKeyshareStore(path)
	var refE keyshare.ECDSAKeyshare
	var refF keyshare.FrostKeyshare
	if kind == "ecdsa" {
		refE, err = keyshare.NewECDSAKeyshareStore(src).GetKeyshare()
	} else {
		refF, err = keyshare.NewFrostKeyshareStore(src).GetKeyshare()
	}
	if err != nil {
		return "nofixture"
	}
	showE := func(k keyshare.ECDSAKeyshare) string {
		pk := 0
		if k.Key.ECDSAPub != nil && k.Key.ECDSAPub.Equals(refE.Key.ECDSAPub) && k.Key.Xi.Cmp(refE.Key.Xi) == 0 {
			pk = 1
		}
		return fmt.Sprintf("%d,-,%d,%d", k.Threshold, len(k.Peers), pk)
	}
	showF := func(k keyshare.FrostKeyshare, tweaked bool) string {
		pk := 0
		if k.Key != nil && (tweaked || string(k.Key.PublicKey) == string(refF.Key.PublicKey)) && (tweaked || k.Key.PrivateShare.Equal(refF.Key.PrivateShare)) {
			pk = 1
		}
		kt := "-"
		if k.Key != nil {
			kt = itoa(k.Key.Threshold)
		}
		return fmt.Sprintf("%d,%s,%d,%d", k.Threshold, kt, len(k.Peers), pk)
	}
	out := []string{}
	for i, st := range items(a[2], ";") {
		sid := fmt.Sprintf("sl-%d", i)
		switch {
		case st == "g" && kind == "ecdsa":
			es.LockKeyshare()
			k, err := es.GetKeyshare()
			es.UnlockKeyshare()
			if err != nil {
				out = append(out, "err")
			} else {
				out = append(out, showE(k))
			}
		case st == "g":
			fs.LockKeyshare()
			k, err := fs.GetKeyshare()
			fs.UnlockKeyshare()
			if err != nil {
				out = append(out, "err")
			} else {
				out = append(out, showF(k, false))
			}
		case st == "s" && kind == "ecdsa":
			s, err := ecdsaSigning.NewSigning(big.NewInt(7), "m", sid, host, cm, es)
			if err != nil {
				out = append(out, "err")
				continue
			}
			ok1, _ := s.Ready(all[:2], nil) // two ready holders: the fixture's threshold is 1
			out = append(out, fmt.Sprintf("ready2=%v", ok1))
		case st == "s":
			s, err := frostSigning.NewSigning(0, make([]byte, 32), c08One, "m", sid, host, cm, fs)
			if err != nil {
				out = append(out, "err")
				continue
			}
			ok1, _ := s.Ready(all[:2], nil)
			out = append(out, showF(s.VerifKey(), true)+fmt.Sprintf(",ready2=%v", ok1))
		case strings.HasPrefix(st, "r") && kind == "ecdsa":
			r := ecdsaResharing.NewResharing(sid, int(u64(st[1:])), host, cm, es)
			r.Stop()
			out = append(out, "r")
		case strings.HasPrefix(st, "r"):
			r := frostResharing.NewResharing(sid, int(u64(st[1:])), host, cm, fs)
			r.Stop()
			out = append(out, "r")
		default:
			return "badstep"
		}
	}
	if kind == "ecdsa" {
		k, err := keyshare.NewECDSAKeyshareStore(path).GetKeyshare()
		if err != nil {
			return "unreadable"
		}
		out = append(out, "file:"+showE(k))
	} else {
		k, err := keyshare.NewFrostKeyshareStore(path).GetKeyshare()
		if err != nil {
			return "unreadable"
		}
		out = append(out, "file:"+showF(k, false))
	}
	return joinOr(out, "/")
}

// ---------------------------------------------------------------------------------------------- coordinator: ready answers

type c08ReadyComm struct {
	mu       sync.Mutex
	self     peer.ID
	answers  []peer.ID // who answers `ready`, in this order (repeats allowed)
	start    [][]byte  // payloads of TssStartMsg broadcasts
	started  chan struct{}
	once     sync.Once
	allTaken chan struct{}
	onceAll  sync.Once
}

func (c *c08ReadyComm) CloseSession(string)             {}
func (c *c08ReadyComm) UnSubscribe(comm.SubscriptionID) {}
func (c *c08ReadyComm) Broadcast(_ peer.IDSlice, msg []byte, t comm.MessageType, _ string) error {
	if t == comm.TssStartMsg {
		c.mu.Lock()
		c.start = append(c.start, append([]byte{}, msg...))
		c.mu.Unlock()
		c.once.Do(func() { close(c.started) })
	}
	return nil
}
func (c *c08ReadyComm) Subscribe(sid string, t comm.MessageType, ch chan *comm.WrappedMessage) comm.SubscriptionID {
	if t == comm.TssReadyMsg { // the coordinator listens for ready answers: they arrive one by one in the scripted order
		go func() {
			// … followed by two answers of a peer that holds no share (it can never make the process ready): when the
			// coordinator TAKES the second one it has finished with everything before it - no timer decides "nothing started"
			outsider := c08PoolPeer(0)
			for _, p := range append(append([]peer.ID{}, c.answers...), outsider, outsider) {
				select {
				case ch <- &comm.WrappedMessage{MessageType: t, SessionID: sid, From: p}:
				case <-c.started:
					return
				case <-time.After(30 * time.Second):
					return
				}
			}
			c.onceAll.Do(func() { close(c.allTaken) })
		}()
	}
	return comm.SubscriptionID(fmt.Sprintf("%s-%d", sid, t))
}

// initready <ecdsa|frost> <committee threshold 1..2> <ready answers: holder indexes in arrival order, repeats allowed, e.g. 1,1,2>
// The REAL tss.Coordinator (this relayer = the elected coordinator) collects the answers and, once the process says Ready,
// broadcasts the start message: the signing subset it names.
//
//	=>  n=<size of the subset>;distinct=<distinct members>;holders=<1: all are key holders>   | nostart
func c08OpInitReady(a []string) string {
	thr := int(u64(a[1]))
	all, err := c08FixturePeers()
	if err != nil {
		return "nofixture"
	}
	sid := "c08-initready-" + a[2]
	self := 0
	elected := tssUtil.SortPeersForSession(all, sid)[0].ID
	for i, p := range all {
		if p == elected {
			self = i
		}
	}
	answers := []peer.ID{}
	for _, i := range c08Subset(a[2]) { // 1 and 2 = the two holders that are not this relayer, 3 = a relayer without a share
		if i == 3 {
			answers = append(answers, c08PoolPeer(3))
			continue
		}
		answers = append(answers, all[(self+i)%3])
	}
	host := &c08Host{id: all[self], peers: all}
	cm := &c08ReadyComm{self: all[self], answers: answers, started: make(chan struct{}), allTaken: make(chan struct{})}
	coord := tss.NewCoordinator(host, cm, elector.VerifC08Factory(host, cm))
	coord.TssTimeout, coord.CoordinatorTimeout, coord.InitiatePeriod = 20*time.Second, 20*time.Second, 20*time.Second
	var proc tss.TssProcess
	if a[0] == "ecdsa" {
		fx, err := c18Fixture("ecdsa", self)
		if err != nil {
			return "nofixture"
		}
		k := fx.ecdsa
		k.Threshold = thr
		proc, err = ecdsaSigning.NewSigning(big.NewInt(99), "m", sid, host, cm, &c08ECDSAStore{has: true, key: k})
		if err != nil {
			return "newsigning"
		}
	} else {
		k, err := c08FrostFixture(self)
		if err != nil {
			return "nofixture"
		}
		k.Threshold = thr
		proc, err = frostSigning.NewSigning(0, make([]byte, 32), c08One, "m", sid, host, cm, &c08FrostStore{has: true, key: k})
		if err != nil {
			return "newsigning"
		}
	}
	ctx, cancel := context.WithCancel(context.Background())
	done := make(chan struct{})
	go func() {
		defer func() { _ = recover(); close(done) }()
		_ = coord.Execute(ctx, []tss.TssProcess{proc}, make(chan interface{}, 4))
	}()
	res := "nostart"
	select {
	case <-cm.started:
		cm.mu.Lock()
		payload := cm.start[0]
		cm.mu.Unlock()
		if sm, err := message.UnmarshalStartMessage(payload); err == nil {
			var subset []peer.ID
			if json.Unmarshal(sm.Params, &subset) == nil {
				seen := map[peer.ID]bool{}
				holders := 1
				for _, p := range subset {
					seen[p] = true
					if !c08Has(all, p) {
						holders = 0
					}
				}
				res = fmt.Sprintf("n=%d;distinct=%d;holders=%d", len(subset), len(seen), holders)
			}
		}
	case <-cm.allTaken: // every scripted answer has been taken and dealt with: the coordinator is still waiting
		select {
		case <-cm.started: // (the last real answer did start the session)
			res = "late"
		default:
		}
	case <-time.After(30 * time.Second):
		res = "stuck"
	}
	cancel()
	// the cancelled session is not waited for: what it still computes (the first protocol round, a start-up pause) ends by itself
	_ = done
	return res
}

// frostpair <signing subset> <digest> <tweak> <refresh committee> <new threshold(s)> <seed>: a FROST signing session and a FROST
// refresh side by side  =>  sign=<ok|reason>;refresh=<ok|reason>
func c08OpFrostPair(a []string) string {
	var sg, rf string
	var wg sync.WaitGroup
	wg.Add(2)
	go func() { defer wg.Done(); sg = c08SignRunFrost([]string{"frost", a[0], a[1], a[2], a[5]}) }()
	go func() { defer wg.Done(); rf = c08RefreshRunFrost([]string{"frost", a[3], a[4], a[5]}) }()
	wg.Wait()
	return "sign=" + sg + ";refresh=" + rf
}

func init() {
	ops["C08.storelife"] = c08OpStoreLife
	ops["C08.initready"] = c08OpInitReady
	ops["C08.frostpair"] = c08OpFrostPair
}
