package main

// C01 — one long-lived ETHDepositHandler over a SEQUENCE of deposits of different resources (different handler types), with
// the handler lookup failing at scripted steps (node error / handler address not registered).
//   hseq <dstKind> <steps>     steps `;`-separated, each  kind,fault,src,dst,nonce,rid,calldata,resp   fault ∈ ok|rpc|unreg
//   => out1|out2|…   (relay-style results; all proposals are rendered after the last step)
// The history-free model must describe every step: a failed lookup is an error for that deposit only.

import (
	"errors"
	"strings"
	"time"

	"github.com/ChainSafe/sygma-relayer/chains/evm/listener/depositHandlers"
	"github.com/ethereum/go-ethereum/common"
	"github.com/sygmaprotocol/sygma-core/relayer/message"
)

type scriptedMatcher struct {
	kinds map[[32]byte]string
	fault string // fault of the current step
}

func (m *scriptedMatcher) GetHandlerAddressForResourceID(rid [32]byte) (common.Address, error) {
	switch m.fault {
	case "rpc":
		return common.Address{}, errors.New("node unavailable")
	case "unreg":
		return common.HexToAddress("0x00000000000000000000000000000000000dead1"), nil
	}
	k, ok := m.kinds[rid]
	if !ok {
		return common.Address{}, errors.New("unknown resource")
	}
	return common.HexToAddress(c01Addr[k]), nil
}

func init() {
	ops["C01.hseq"] = func(a []string) string {
		steps := items(a[1], ";")
		m := &scriptedMatcher{kinds: map[[32]byte]string{}}
		for _, st := range steps {
			f := strings.Split(st, ",")
			m.kinds[rid32(f[5])] = f[0]
		}
		dh := depositHandlers.NewETHDepositHandler(m)
		dh.RegisterDepositHandler(c01Addr["erc20"], &depositHandlers.Erc20DepositHandler{})
		dh.RegisterDepositHandler(c01Addr["generic"], &depositHandlers.PermissionlessGenericDepositHandler{})
		dh.RegisterDepositHandler(c01Addr["erc721"], &depositHandlers.Erc721DepositHandler{})
		dh.RegisterDepositHandler(c01Addr["erc1155"], &depositHandlers.Erc1155DepositHandler{})
		rs := []seqRes{}
		for _, st := range steps {
			f := strings.Split(st, ",")
			m.fault = f[1]
			var msg *message.Message
			cls := guarded(func() error {
				var err error
				msg, err = dh.HandleDeposit(uint8(u64(f[2])), uint8(u64(f[3])), u64(f[4]), rid32(f[5]), exact(unhx(f[6])), exact(unhx(f[7])), "mid", time.Unix(1700000000, 0))
				return err
			})
			if cls != "ok" {
				rs = append(rs, seqRes{nil, cls + ":src"})
				continue
			}
			p, cls := c01Dest(a[0], msg)
			if cls != "ok" {
				rs = append(rs, seqRes{nil, cls + ":dst"})
				continue
			}
			rs = append(rs, seqRes{p, ""})
		}
		out := []string{}
		for _, r := range rs {
			out = append(out, r.String())
		}
		return strings.Join(out, "|")
	}
}

func genC01HSeq(g *G) {
	kinds := []string{"erc20", "erc721", "erc1155", "generic"}
	cdOf := func(k string) []byte {
		switch k {
		case "erc20":
			return g.fungibleCD(g.Intn(3) == 0)
		case "erc721":
			return g.erc721CD()
		case "erc1155":
			return g.erc1155CD()
		}
		return g.genericCD()
	}
	n := g.Count(120, 8000)
	for i := 0; i < n; i++ {
		// 2-3 resources with pairwise different handler types
		nr := 2 + g.Intn(2)
		perm := []int{0, 1, 2, 3}
		for j := 3; j > 0; j-- {
			k := g.Intn(j + 1)
			perm[j], perm[k] = perm[k], perm[j]
		}
		rids := make([]string, nr)
		for j := range rids {
			rids[j] = hx(g.Bytes(32))
		}
		steps := []string{}
		last := -1
		for s := 0; s < 3+g.Intn(5); s++ {
			r := g.Intn(nr)
			if last >= 0 && g.Intn(3) == 0 {
				r = last // the same resource again (retry / next deposit of the burst)
			}
			last = r
			fault := "ok"
			if g.Intn(4) == 0 {
				fault = []string{"rpc", "unreg"}[g.Intn(2)]
			}
			src, dst, nonce, _ := g.ids()
			k := kinds[perm[r]]
			steps = append(steps, strings.Join([]string{k, fault, src, dst, nonce, rids[r], hx(cdOf(k)), hx([][]byte{nil, nil, w32(g.big256())}[g.Intn(3)])}, ","))
		}
		g.Emit("hseq", "evm", strings.Join(steps, ";"))
	}
}
