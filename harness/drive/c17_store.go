package main

// C17 (and C03, BTC) — how store/propstore.go classifies what the database returns, per error KIND, and the same
// through a REAL goleveldb database (sygma-core's lvldb wrapper) that is closed between execution and retry.
//   propstatus : the real PropStore.PropStatus over the fake database returning one given error kind
//   storestatus: the real PropStore.StorePropStatus, likewise
//   lvldb      : real leveldb in a unique directory under $VERIF_ROOT/work (removed afterwards): statuses are written
//                through the real PropStore, the database is optionally CLOSED, then the retry filter, the BTC
//                executor's proposalsForExecution and PropStatus run against it

import (
	"errors"
	"os"
	"strings"
	"sync"
	"time"

	btcConfig "github.com/ChainSafe/sygma-relayer/chains/btc/config"
	btcExecutor "github.com/ChainSafe/sygma-relayer/chains/btc/executor"
	"github.com/ChainSafe/sygma-relayer/relayer/retry"
	"github.com/ChainSafe/sygma-relayer/store"
	"github.com/btcsuite/btcd/chaincfg"
	"github.com/sygmaprotocol/sygma-core/store/lvldb"
)

func init() {
	// propstatus <kind letter | 0> <stored status>  =>  <status letter>,<nil|err>
	//   kind letters: see c3ErrOf; n/N = the database answers ErrNotFound (plain / wrapped)
	ops["C17.propstatus"] = func(a []string) string {
		db := newC3DB(a[0])
		db.preset(c3Src, c3Dst, 5, a[1])
		st, err := store.NewPropStore(db).PropStatus(c3Src, c3Dst, 5)
		return c3Letter(st) + "," + c3Ret(err)
	}
	// storestatus <kind letter | 0> <status>  =>  <nil|err>,<stored afterwards>
	ops["C17.storestatus"] = func(a []string) string {
		db := newC3DB(a[0])
		err := store.NewPropStore(db).StorePropStatus(c3Src, c3Dst, 5, c3Status(a[1]))
		return c3Ret(err) + "," + db.letter(c3Src, c3Dst, 5)
	}
	// lvldb <open|closed> <statuses>   deposits / proposals 0..n-1, all matching the retry request
	//   =>  <emitted by FilterDeposits>|<statuses then>|<proposalsForExecution: s:<nonces> | e>|<statuses then>
	//   (a status that cannot be read is printed as x)
	ops["C17.lvldb"] = func(a []string) string {
		init := c3Script(a[1])
		if err := os.MkdirAll(verifRoot()+"/work", 0o755); err != nil {
			return "mkdir:" + err.Error()
		}
		dir, err := os.MkdirTemp(verifRoot()+"/work", "c17-lvldb-*")
		if err != nil {
			return "tempdir:" + err.Error()
		}
		defer os.RemoveAll(dir)
		db, err := lvldb.NewLvlDB(dir)
		if err != nil {
			return "open:" + err.Error()
		}
		closed := false
		defer func() {
			if !closed {
				_ = db.Close()
			}
		}()
		ps := store.NewPropStore(db)
		for i := range init {
			if init[i] != 'm' {
				if err := ps.StorePropStatus(c3Src, c3Dst, uint64(i), c3Status(init[i:i+1])); err != nil {
					return "preset:" + err.Error()
				}
			}
		}
		if a[0] == "closed" {
			if err := db.Close(); err != nil {
				return "close:" + err.Error()
			}
			closed = true
		}
		snapshot := func() string {
			var sb strings.Builder
			for i := range init {
				st, err := ps.PropStatus(c3Src, c3Dst, uint64(i))
				if err != nil {
					sb.WriteByte('x')
				} else {
					sb.WriteString(c3Letter(st))
				}
			}
			return joinOr1(sb.String())
		}
		ds := []c17Dep{}
		for i := range init {
			ds = append(ds, c17Dep{c3Dst, 1, uint64(i), 0})
		}
		em, err := retry.FilterDeposits(ps, c17ByDomain(ds), c3Resource(1), c3Dst)
		if err != nil {
			return "filter-err"
		}
		out := c17Idx(em) + "|" + snapshot()
		exe := btcExecutor.NewExecutor(ps, nil, nil, nil, nil, nil, c3Mempool{}, map[[32]byte]btcConfig.Resource{},
			chaincfg.TestNet3Params, &sync.RWMutex{}, &c3Uploader{})
		props, err := exe.VerifC17ProposalsForExecution(c3BtcProps(c3Range(len(init)), "", "m"), "m")
		sel := "e"
		if err == nil {
			xs := []string{}
			for _, p := range props {
				xs = append(xs, utoa(p.Data.DepositNonce))
			}
			sel = "s:" + joinOr(xs, ",")
		}
		if !exe.VerifC17MutexFree() {
			sel += "!held"
		}
		return out + "|" + sel + "|" + snapshot()
	}
}

// c17StoreCall: one caller of the shared PropStore. `w<n><s>` StorePropStatus, `r<n>` PropStatus, `X<n>` the BTC
// executor recording nonce n executed (storeProposalsStatus), `R<n>` the retry filter on the deposit with nonce n.
func c17StoreCall(spec string, ps *store.PropStore, exe *btcExecutor.Executor) func() string {
	n := u64(strings.TrimRight(spec[1:], "mpfe"))
	switch spec[0] {
	case 'w':
		st := c3Status(spec[len(spec)-1:])
		return func() string { return c3Ret(ps.StorePropStatus(c3Src, c3Dst, n, st)) }
	case 'r':
		return func() string {
			st, err := ps.PropStatus(c3Src, c3Dst, n)
			if err != nil {
				return "x"
			}
			return c3Letter(st)
		}
	case 'X':
		return func() string {
			exe.VerifC17StoreProposalsStatus([]*btcExecutor.BtcTransferProposal{{Source: c3Src, Destination: c3Dst,
				Data: btcExecutor.BtcTransferProposalData{DepositNonce: n}}}, store.ExecutedProp)
			return "d"
		}
	case 'R':
		return func() string {
			ds := []c17Dep{{c3Dst, 1, n, 0}}
			em, _ := retry.FilterDeposits(ps, c17ByDomain(ds), c3Resource(1), c3Dst)
			return "r" + itoa(len(em))
		}
	}
	panic("bad store call " + spec)
}

func init() {
	// overlap <A> <B> <nonce:status,…>   two callers of the ONE long-lived PropStore overlap: A has handed its key to
	//   the database (which has not looked at it yet) when B runs completely; then A's database call goes on.
	//   Sequenced by channels inside the fake database, so the outcome does not depend on scheduling.
	//   =>  <result of A>,<result of B>|<status of every listed nonce afterwards>
	ops["C17.overlap"] = func(a []string) string {
		db := newC3DB("-")
		nonces := []uint64{}
		for _, it := range items(a[2], ",") {
			f := strings.Split(it, ":")
			db.preset(c3Src, c3Dst, u64(f[0]), f[1])
			nonces = append(nonces, u64(f[0]))
		}
		ps := store.NewPropStore(db)
		exe := btcExecutor.NewExecutor(ps, nil, nil, nil, nil, nil, c3Mempool{}, map[[32]byte]btcConfig.Resource{},
			chaincfg.TestNet3Params, &sync.RWMutex{}, &c3Uploader{})
		callA, callB := c17StoreCall(a[0], ps, exe), c17StoreCall(a[1], ps, exe)
		gate := db.arm()
		resA := make(chan string, 1)
		go func() {
			defer func() {
				if r := recover(); r != nil {
					resA <- "panic"
				}
			}()
			resA <- callA()
		}()
		select {
		case <-gate.entered:
		case <-time.After(10 * time.Second):
			return "A-never-reached-the-database"
		}
		rb := callB()
		close(gate.resume)
		var ra string
		select {
		case ra = <-resA:
		case <-time.After(10 * time.Second):
			return "A-hang"
		}
		var sb strings.Builder
		for _, n := range nonces {
			sb.WriteString(db.letter(c3Src, c3Dst, n))
		}
		return ra + "," + rb + "|" + joinOr1(sb.String())
	}
}

func init() {
	// race <statuses of nonces 0..n-1> <nonces of delivery B> <nonces of delivery A>
	//   two deliveries on ONE executor. B is parked inside its first status read (the answer already taken). If B
	//   holds propMutex there, A cannot run: B is resumed first, then A delivers; otherwise A runs to completion
	//   (delivery, execution recorded executed) inside B's check-then-act window, then B resumes. Finally B's execution
	//   is recorded failed. TryLock picks the only schedule possible on the tree; channels sequence it; no sleeps.
	//   =>  <selected by B>|<selected by A>|<statuses>|<held|free: propMutex while B is parked>
	ops["C17.race"] = func(a []string) string {
		init := c3Script(a[0])
		b := newC3Btc("-")
		for i := range init {
			b.db.preset(c3Src, c3Dst, uint64(i), init[i:i+1])
		}
		type res struct {
			props []*btcExecutor.BtcTransferProposal
			err   error
		}
		show := func(r res) string {
			if r.err != nil {
				return "e"
			}
			xs := []string{}
			for _, p := range r.props {
				xs = append(xs, utoa(p.Data.DepositNonce))
			}
			return "s:" + joinOr(xs, ",")
		}
		deliver := func(ns string) res {
			ps, err := b.exe.VerifC17ProposalsForExecution(c3BtcProps(c3Nonces(ns), "", "m"), "m")
			if err != nil {
				ps = nil
			}
			return res{ps, err}
		}
		gate := b.db.armAfterRead()
		chB := make(chan res, 1)
		go func() {
			defer func() {
				if r := recover(); r != nil {
					chB <- res{nil, errors.New("panic")}
				}
			}()
			chB <- deliver(a[1])
		}()
		var rB, rA res
		held := "free"
		waitB := func() bool {
			select {
			case rB = <-chB:
				return true
			case <-time.After(10 * time.Second):
				return false
			}
		}
		select {
		case <-gate.entered:
			if !b.exe.VerifC17MutexFree() {
				held = "held"
				close(gate.resume)
				if !waitB() {
					return "B-hang"
				}
				rA = deliver(a[2])
				b.exe.VerifC17StoreProposalsStatus(rA.props, store.ExecutedProp)
			} else {
				rA = deliver(a[2])
				b.exe.VerifC17StoreProposalsStatus(rA.props, store.ExecutedProp)
				close(gate.resume)
				if !waitB() {
					return "B-hang"
				}
			}
		case rB = <-chB: // B made no status read (empty delivery)
			rA = deliver(a[2])
			b.exe.VerifC17StoreProposalsStatus(rA.props, store.ExecutedProp)
			held = "held"
		case <-time.After(10 * time.Second):
			return "B-never-read"
		}
		b.exe.VerifC17StoreProposalsStatus(rB.props, store.FailedProp)
		return show(rB) + "|" + show(rA) + "|" + b.statuses(len(init)) + "|" + held
	}
}

func genC17Race(g *G) {
	subs := []string{"0", "1", "0,1", "1,0"}
	for _, sb := range subs {
		for _, sa := range subs {
			for _, s0 := range "mpfe" {
				for _, s1 := range "mpfe" {
					g.Emit("race", string(s0)+string(s1), sb, sa)
				}
			}
		}
	}
	for i := 0; i < g.Count(150, 4000); i++ {
		n := 3 + g.Intn(2)
		var st strings.Builder
		for j := 0; j < n; j++ {
			st.WriteByte("mffpe"[g.Intn(5)])
		}
		pick := func() string {
			xs := []string{}
			for k := 1 + g.Intn(3); k > 0; k-- {
				xs = append(xs, itoa(g.Intn(n)))
			}
			return strings.Join(xs, ",")
		}
		g.Emit("race", st.String(), pick(), pick())
	}
}

func genC17Overlap(g *G) {
	genC17Race(g)
	for _, pair := range [][2]string{{"3", "4"}, {"4", "3"}, {"5", "15"}, {"15", "5"}, {"7", "7"}} {
		for _, init := range []string{"m:m", "p:m", "p:p", "e:p", "f:e"} {
			st := strings.Split(init, ":")
			inits := pair[0] + ":" + st[0]
			if pair[1] != pair[0] {
				inits += "," + pair[1] + ":" + st[1]
			}
			for _, A := range []string{"w" + pair[0] + "e", "w" + pair[0] + "f", "X" + pair[0], "r" + pair[0], "R" + pair[0]} {
				for _, B := range []string{"r" + pair[1], "w" + pair[1] + "p", "w" + pair[1] + "e", "R" + pair[1]} {
					g.Emit("overlap", A, B, inits)
				}
			}
		}
	}
}

func genC17Store(g *G) {
	genC17Overlap(g)
	for _, k := range "0nN" + c3FaultKinds {
		for _, st := range "mpfe" {
			g.Emit("propstatus", string(k), string(st))
			g.Emit("storestatus", string(k), string(st))
		}
	}
	// every error kind at the read and at the release write of a single matching deposit, and at the read / the
	// pending write of a single BTC delivery (ops of this property and, for the executor, through hist)
	for _, k := range c3FaultKinds {
		for _, st := range "mpfe" {
			g.Emit("filter", "2.1.0", "1", "2", string(st), string(k))
			g.Emit("filter", "2.1.0", "1", "2", string(st), "0"+string(k))
			g.Emit("retryv1", "2.1.0", string(st), string(k))
		}
		g.Emit("hist", "2", "D0,1@"+string(k)+"/D0,1")
		g.Emit("hist", "2", "D0,1@0"+string(k)+"/D0,1")
		g.Emit("hist", "2", "D0,1/S0/R0,1@"+string(k)+"/D0,1@"+string(k))
	}
	// real leveldb, open and closed: all status vectors for ≤ 2 (thorough 3) records, plus a few longer ones
	L := g.Count(2, 3)
	var rec func(st string)
	rec = func(st string) {
		g.Emit("lvldb", "open", joinOr1(st))
		g.Emit("lvldb", "closed", joinOr1(st))
		if len(st) == L {
			return
		}
		for _, s := range "mpfe" {
			rec(st + string(s))
		}
	}
	rec("")
	for i := 0; i < g.Count(10, 200); i++ {
		var st strings.Builder
		for j := 0; j < 3+g.Intn(4); j++ {
			st.WriteByte("mpfe"[g.Intn(4)])
		}
		g.Emit("lvldb", g.Pick([]string{"open", "closed"}), st.String())
	}
}
