package main

// The repository's REAL transport adapter (comm/p2p Libp2pCommunication) over a scripted libp2p host:
//   - inbound: crafted envelopes are fed through the real ProcessMessagesFromStream on a stream whose connection reports
//     a chosen (authenticated) remote peer; what the real receive path hands to a subscriber — in particular the sender it
//     attributes — is what the scenario then hands to the coordinator;
//   - outbound: the real Broadcast / sendMessage against scripted dial / NewStream / write failures; the error it returns
//     is what the scenario feeds to handleError.

import (
	"bytes"
	"context"
	"encoding/json"
	"errors"
	"io"
	"sync"
	"time"

	"github.com/ChainSafe/sygma-relayer/comm"
	"github.com/ChainSafe/sygma-relayer/comm/p2p"
	"github.com/libp2p/go-libp2p/core/host"
	"github.com/libp2p/go-libp2p/core/network"
	"github.com/libp2p/go-libp2p/core/peer"
	"github.com/libp2p/go-libp2p/core/peerstore"
	"github.com/libp2p/go-libp2p/core/protocol"
	ma "github.com/multiformats/go-multiaddr"
)

type c07NetConn struct {
	network.Conn
	remote peer.ID
}

func (c *c07NetConn) RemotePeer() peer.ID { return c.remote }

// c07NetStream: reads the scripted bytes; writes succeed (recorded) or fail as scripted.
type c07NetStream struct {
	network.Stream
	conn     *c07NetConn
	r        *bytes.Reader
	mu       sync.Mutex
	written  [][]byte
	failFrom int // writes with index ≥ failFrom fail (-1: never)
	nWrites  int
	closed   bool
}

func (s *c07NetStream) Read(p []byte) (int, error) {
	if s.r == nil {
		return 0, io.EOF
	}
	return s.r.Read(p)
}
func (s *c07NetStream) Write(p []byte) (int, error) {
	s.mu.Lock()
	defer s.mu.Unlock()
	i := s.nWrites
	s.nWrites++
	if s.failFrom >= 0 && i >= s.failFrom {
		return 0, errors.New("stream reset")
	}
	s.written = append(s.written, append([]byte{}, p...))
	return len(p), nil
}
func (s *c07NetStream) Close() error                { s.closed = true; return nil }
func (s *c07NetStream) Reset() error                { s.closed = true; return nil }
func (s *c07NetStream) Conn() network.Conn          { return s.conn }
func (s *c07NetStream) Protocol() protocol.ID       { return "/verif/1" }
func (s *c07NetStream) SetDeadline(time.Time) error { return nil }

// c07NetPS / c07NetHost: a host that knows one address per peer and dials / opens streams as scripted.
type c07NetPS struct {
	peerstore.Peerstore
	noAddr map[peer.ID]bool
}

func (p *c07NetPS) PeerInfo(id peer.ID) peer.AddrInfo {
	if p.noAddr[id] {
		return peer.AddrInfo{ID: id}
	}
	a, _ := ma.NewMultiaddr("/ip4/127.0.0.1/tcp/4001")
	return peer.AddrInfo{ID: id, Addrs: []ma.Multiaddr{a}}
}

type c07NetHost struct {
	host.Host
	id         peer.ID
	ps         *c07NetPS
	mu         sync.Mutex
	dialFail   map[peer.ID]bool
	streamFail map[peer.ID]bool
	writeFail  map[peer.ID]int // index of the first failing write on a stream to that peer (absent: none)
	streams    map[peer.ID][]*c07NetStream
}

func c07NewNetHost(self peer.ID) *c07NetHost {
	return &c07NetHost{id: self, ps: &c07NetPS{noAddr: map[peer.ID]bool{}}, dialFail: map[peer.ID]bool{},
		streamFail: map[peer.ID]bool{}, writeFail: map[peer.ID]int{}, streams: map[peer.ID][]*c07NetStream{}}
}
func (h *c07NetHost) ID() peer.ID                                         { return h.id }
func (h *c07NetHost) Peerstore() peerstore.Peerstore                      { return h.ps }
func (h *c07NetHost) SetStreamHandler(protocol.ID, network.StreamHandler) {}
func (h *c07NetHost) Connect(_ context.Context, pi peer.AddrInfo) error {
	h.mu.Lock()
	defer h.mu.Unlock()
	if h.dialFail[pi.ID] {
		return errors.New("dial backoff")
	}
	return nil
}
func (h *c07NetHost) NewStream(_ context.Context, p peer.ID, _ ...protocol.ID) (network.Stream, error) {
	h.mu.Lock()
	defer h.mu.Unlock()
	if h.streamFail[p] {
		return nil, errors.New("protocol not supported")
	}
	s := &c07NetStream{conn: &c07NetConn{remote: p}, failFrom: -1}
	if k, ok := h.writeFail[p]; ok {
		s.failFrom = k
	}
	h.streams[p] = append(h.streams[p], s)
	return s, nil
}

// c07Net is one relayer's real transport adapter over such a host.
type c07Net struct {
	h    *c07NetHost
	rc   p2p.Libp2pCommunication
	mu   sync.Mutex
	taps map[string]chan *comm.WrappedMessage
}

func c07NewNet(self peer.ID) *c07Net {
	h := c07NewNetHost(self)
	return &c07Net{h: h, rc: p2p.NewCommunication(h, "/verif/1"), taps: map[string]chan *comm.WrappedMessage{}}
}

// receive feeds one envelope — as it would arrive over `conn`'s (noise-authenticated) connection, optionally carrying a
// `from` field naming `claimed` — through the real ProcessMessagesFromStream and returns the message the real receive
// path dispatches to a subscriber of (session, type).
func (n *c07Net) receive(conn peer.ID, claimed string, typ comm.MessageType, session string, payload []byte) (*comm.WrappedMessage, string) {
	key := session + "\x00" + typ.String()
	n.mu.Lock()
	tap, ok := n.taps[key]
	if !ok {
		tap = make(chan *comm.WrappedMessage, 4)
		n.taps[key] = tap
		n.rc.Subscribe(session, typ, tap)
	}
	n.mu.Unlock()
	env := map[string]interface{}{"message_type": uint8(typ), "message_id": session, "payload": payload}
	if claimed != "" {
		env["from"] = claimed
	}
	b, _ := json.Marshal(env)
	n.rc.ProcessMessagesFromStream(&c07NetStream{conn: &c07NetConn{remote: conn}, r: bytes.NewReader(append(b, '\n')), failFrom: -1})
	timer := time.NewTimer(c07Patience())
	defer timer.Stop()
	select {
	case m := <-tap:
		return m, "ok"
	case <-timer.C:
		c07Anomaly()
		return nil, "undelivered"
	}
}

// sendFault: what the real Broadcast returns when communicating with `to` breaks at the given point:
//
//	a no address known, d dial fails, n NewStream fails, w the write on the fresh stream fails,
//	c a first message goes through (the session's stream is now cached), the write of the next one fails.
func c07SendFault(self, to peer.ID, fault byte, session string) error {
	n := c07NewNet(self)
	switch fault {
	case 'a':
		n.h.ps.noAddr[to] = true
	case 'd':
		n.h.dialFail[to] = true
	case 'n':
		n.h.streamFail[to] = true
	case 'w':
		n.h.writeFail[to] = 0
	case 'c':
		n.h.writeFail[to] = 1
		if err := n.rc.Broadcast(peer.IDSlice{to}, []byte("round-1"), comm.TssKeySignMsg, session); err != nil {
			return errors.New("verif: the first message should have gone through: " + err.Error())
		}
	default:
		panic("bad fault")
	}
	return n.rc.Broadcast(peer.IDSlice{to}, []byte("round-2"), comm.TssKeySignMsg, session)
}
