package main

// C02 — EIP-712 digest handed to threshold signing, and the 65-byte signature submitted with a batch.
// Real code run: chains.ProposalsHash, (*bridge.BridgeContract).ProposalsHash (fake chain client),
// (*pallet.Pallet).ProposalsHash, evm/executor.executeBatch and substrate/executor.executeProposal (accessor hooks,
// recording fake bridge / pallet), go-ethereum crypto.Keccak256 (validates the Lean Keccak) and, as a labelled test,
// crypto.Sign / crypto.Ecrecover around the real signature assembly.

import (
	"bytes"
	"context"
	"encoding/hex"
	"errors"
	"math/big"
	"reflect"
	"strings"
	"sync"

	"github.com/ChainSafe/sygma-relayer/chains"
	"github.com/ChainSafe/sygma-relayer/chains/evm/calls/consts"
	evmbridge "github.com/ChainSafe/sygma-relayer/chains/evm/calls/contracts/bridge"
	evmexec "github.com/ChainSafe/sygma-relayer/chains/evm/executor"
	subexec "github.com/ChainSafe/sygma-relayer/chains/substrate/executor"
	"github.com/ChainSafe/sygma-relayer/chains/substrate/pallet"
	"github.com/ChainSafe/sygma-relayer/relayer/transfer"
	tsscommon "github.com/binance-chain/tss-lib/common"
	"github.com/centrifuge/go-substrate-rpc-client/v4/rpc/author"
	"github.com/centrifuge/go-substrate-rpc-client/v4/types"
	"github.com/ethereum/go-ethereum/accounts/abi"
	ethCommon "github.com/ethereum/go-ethereum/common"
	"github.com/ethereum/go-ethereum/crypto"
	evmclient "github.com/sygmaprotocol/sygma-core/chains/evm/client"
	"github.com/sygmaprotocol/sygma-core/chains/evm/transactor"
	subclient "github.com/sygmaprotocol/sygma-core/chains/substrate/client"
)

// c02Props parses `origin:nonce:rid:data;…`
func c02Props(spec string) []*transfer.TransferProposal {
	ps := []*transfer.TransferProposal{}
	for _, it := range items(spec, ";") {
		f := strings.Split(it, ":")
		var rid [32]byte
		rb := unhx(f[2])
		if len(rb) != 32 {
			panic("rid must be 32 bytes")
		}
		copy(rid[:], rb)
		ps = append(ps, &transfer.TransferProposal{
			Source:      uint8(u64(f[0])),
			Destination: 9,
			Data: transfer.TransferProposalData{
				DepositNonce: u64(f[1]),
				ResourceId:   rid,
				Data:         unhx(f[3]),
				Metadata:     map[string]interface{}{"gasLimit": uint64(7)},
			},
			MessageID: "m",
		})
	}
	return ps
}

// c02Snap renders everything of a batch the code under test could write to (the caller's view of its own input).
func c02Snap(ps []*transfer.TransferProposal) string {
	var b strings.Builder
	for _, p := range ps {
		b.WriteString(utoa(uint64(p.Source)) + "/" + utoa(uint64(p.Destination)) + "/" + utoa(p.Data.DepositNonce) + "/" + hex.EncodeToString(p.Data.ResourceId[:]) + "/" + hx(p.Data.Data) + "/" + p.MessageID + ";")
	}
	return b.String()
}

func c02Str(s string) string {
	if s == "-" {
		return ""
	}
	return s
}

type c02Client struct {
	evmclient.Client
	id  *big.Int
	err bool
}

func (c *c02Client) ChainID(ctx context.Context) (*big.Int, error) {
	if c.err {
		return nil, errors.New("rpc down")
	}
	return c.id, nil
}

// c02Bridge records what executeBatch submits.
type c02Bridge struct {
	mu   sync.Mutex
	sigs [][]byte
	ps   [][]*transfer.TransferProposal
}

// the destination reports every proposal as executed meanwhile: the signature assembly / submission must not care
func (b *c02Bridge) IsProposalExecuted(p *transfer.TransferProposal) (bool, error) { return true, nil }
func (b *c02Bridge) ExecuteProposals(ps []*transfer.TransferProposal, sig []byte, opts transactor.TransactOptions) (*ethCommon.Hash, error) {
	b.mu.Lock()
	defer b.mu.Unlock()
	b.sigs = append(b.sigs, append([]byte{}, sig...))
	b.ps = append(b.ps, ps)
	return &ethCommon.Hash{}, nil
}
func (b *c02Bridge) ProposalsHash(ps []*transfer.TransferProposal) ([]byte, error) {
	return make([]byte, 32), nil
}

type c02Transactor struct {
	to   *ethCommon.Address
	data []byte
}

func (t *c02Transactor) Transact(to *ethCommon.Address, data []byte, opts transactor.TransactOptions) (*ethCommon.Hash, error) {
	t.to, t.data = to, append([]byte{}, data...)
	return &ethCommon.Hash{}, nil
}

type c02Pallet struct {
	sigs [][]byte
	ps   [][]*transfer.TransferProposal
}

func (b *c02Pallet) IsProposalExecuted(p *transfer.TransferProposal) (bool, error) { return true, nil }
func (b *c02Pallet) ExecuteProposals(ps []*transfer.TransferProposal, sig []byte) (types.Hash, *author.ExtrinsicStatusSubscription, error) {
	b.sigs = append(b.sigs, append([]byte{}, sig...))
	b.ps = append(b.ps, ps)
	return types.Hash{}, nil, nil
}
func (b *c02Pallet) ProposalsHash(ps []*transfer.TransferProposal) ([]byte, error) {
	return make([]byte, 32), nil
}
func (b *c02Pallet) TrackExtrinsic(h types.Hash, sub *author.ExtrinsicStatusSubscription) error {
	return nil
}

func c02EvmSig(r, s, rec []byte, ps []*transfer.TransferProposal) ([]byte, bool) {
	br := &c02Bridge{}
	e := evmexec.NewExecutor(nil, nil, nil, br, nil, &sync.RWMutex{}, 1000, 10)
	// the executor must not write into the caller's slices: hand over copies and compare afterwards
	sd := &tsscommon.SignatureData{R: append([]byte{}, r...), S: append([]byte{}, s...), SignatureRecovery: append([]byte{}, rec...)}
	before := c02Snap(ps)
	if err := e.VerifC02ExecuteBatch(ps, 77, sd); err != nil || len(br.sigs) != 1 {
		return nil, false
	}
	if !bytes.Equal(sd.R, r) || !bytes.Equal(sd.S, s) || !bytes.Equal(sd.SignatureRecovery, rec) || c02Snap(ps) != before ||
		len(br.ps) != 1 || c02Snap(br.ps[0]) != before {
		return nil, false // the signature data or the batch was written to, or another batch was submitted
	}
	return br.sigs[0], true
}

func c02SubSig(r, s, rec []byte, ps []*transfer.TransferProposal) ([]byte, bool) {
	pl := &c02Pallet{}
	e := subexec.NewExecutor(nil, nil, nil, pl, nil, nil, &sync.RWMutex{})
	sd := &tsscommon.SignatureData{R: append([]byte{}, r...), S: append([]byte{}, s...), SignatureRecovery: append([]byte{}, rec...)}
	before := c02Snap(ps)
	if err := e.VerifC02ExecuteProposal(ps, sd); err != nil || len(pl.sigs) != 1 {
		return nil, false
	}
	if !bytes.Equal(sd.R, r) || !bytes.Equal(sd.S, s) || !bytes.Equal(sd.SignatureRecovery, rec) || c02Snap(ps) != before ||
		len(pl.ps) != 1 || c02Snap(pl.ps[0]) != before {
		return nil, false
	}
	return pl.sigs[0], true
}

func init() {
	// keccak <hex> => hex            (go-ethereum's Keccak-256; validates the Lean implementation)
	ops["C02.keccak"] = func(a []string) string { return hx(crypto.Keccak256(unhx(a[0]))) }

	// hash <chainId int64> <verifContract string> <version string> <props> => digest hex | err
	ops["C02.hash"] = func(a []string) string {
		ps := c02Props(a[3])
		before := c02Snap(ps)
		h, err := chains.ProposalsHash(ps, i64(a[0]), c02Str(a[1]), c02Str(a[2]))
		if c02Snap(ps) != before {
			return "mutated-input"
		}
		if err != nil {
			return "err"
		}
		// a second call on the same input gives the same digest (nothing remembered, nothing consumed)
		if h2, err2 := chains.ProposalsHash(ps, i64(a[0]), c02Str(a[1]), c02Str(a[2])); err2 != nil || !bytes.Equal(h, h2) {
			return "unstable"
		}
		return hx(h)
	}
	// evmhash <client chain id: decimal big | x> <bridge address 20 bytes hex> <props> => digest hex | err
	ops["C02.evmhash"] = func(a []string) string {
		cl := &c02Client{}
		if a[0] == "x" {
			cl.err = true
		} else {
			n, ok := new(big.Int).SetString(a[0], 10)
			if !ok {
				panic("bad chain id")
			}
			cl.id = n
		}
		bc := evmbridge.NewBridgeContract(cl, ethCommon.BytesToAddress(unhx(a[1])), nil)
		h, err := bc.ProposalsHash(c02Props(a[2]))
		if err != nil {
			return "err"
		}
		return hx(h)
	}
	// subhash <chain id decimal big> <props> => digest hex | err
	ops["C02.subhash"] = func(a []string) string {
		n, ok := new(big.Int).SetString(a[0], 10)
		if !ok {
			panic("bad chain id")
		}
		p := pallet.NewPallet(subclient.NewSubstrateClient(nil, nil, n, 0))
		h, err := p.ProposalsHash(c02Props(a[1]))
		if err != nil {
			return "err"
		}
		return hx(h)
	}
	// evmsig|subsig <R hex> <S hex> <SignatureRecovery hex> => submitted signature hex | err
	ops["C02.evmsig"] = func(a []string) string {
		sig, ok := c02EvmSig(unhx(a[0]), unhx(a[1]), unhx(a[2]), c02Props("1:2:"+strings.Repeat("ab", 32)+":00"))
		if !ok {
			return "err"
		}
		return hx(sig)
	}
	ops["C02.subsig"] = func(a []string) string {
		sig, ok := c02SubSig(unhx(a[0]), unhx(a[1]), unhx(a[2]), c02Props("1:2:"+strings.Repeat("ab", 32)+":00"))
		if !ok {
			return "err"
		}
		return hx(sig)
	}
	// recover <evm|sub> <key seed hex> <want leading zero bytes in r: 0|1> <chainId> <addr> <props>
	//   => ok:<rlen>:<slen> | mismatch…     (TEST, not proof: secp256k1 recovery is go-ethereum's, not modelled)
	// A go-ethereum key signs the digest computed by the REAL ProposalsHash; (r, s, recid) in tss-lib's minimal big-endian
	// form go through the REAL signature assembly; what the contract does (v-27, ecrecover) must return the signer.
	ops["C02.recover"] = func(a []string) string {
		seed := crypto.Keccak256(unhx(a[1]))
		key, err := crypto.ToECDSA(seed)
		if err != nil {
			return "badkey"
		}
		want := int(u64(a[2]))
		ps := c02Props(a[5])
		for try := 0; try < 5000; try++ {
			if len(ps) > 0 {
				ps[0].Data.DepositNonce = uint64(try)
			}
			digest, err := chains.ProposalsHash(ps, i64(a[3]), "0x"+a[4], "3.1.0")
			if err != nil {
				return "err"
			}
			gs, err := crypto.Sign(digest, key)
			if err != nil {
				return "signerr"
			}
			r := new(big.Int).SetBytes(gs[:32]).Bytes()
			s := new(big.Int).SetBytes(gs[32:64]).Bytes()
			if 32-len(r) < want && len(ps) > 0 {
				continue
			}
			var sig []byte
			var ok bool
			if a[0] == "evm" {
				sig, ok = c02EvmSig(r, s, gs[64:65], ps)
			} else {
				sig, ok = c02SubSig(r, s, gs[64:65], ps)
			}
			if !ok || len(sig) != 65 || (sig[64] != 27 && sig[64] != 28) {
				return "mismatch:layout"
			}
			cs := append([]byte{}, sig...)
			cs[64] -= 27
			pub, err := crypto.Ecrecover(digest, cs)
			if err != nil {
				return "mismatch:ecrecover"
			}
			if !bytes.Equal(pub, crypto.FromECDSAPub(&key.PublicKey)) {
				return "mismatch:signer"
			}
			return "ok"
		}
		return "ok" // no signature with that many leading zero bytes found within the budget: nothing to test
	}
	// evmcall <props> <sig hex> => <props as decoded from the calldata>|<sig as decoded>|<to>   | err
	//   the REAL BridgeContract.ExecuteProposals packs the transaction; a capturing transactor hands us the calldata, which is
	//   decoded with the bridge ABI: the batch the contract will hash is the batch we were given, in order, and the signature
	//   bytes arrive unchanged.
	ops["C02.evmcall"] = func(a []string) string {
		tr := &c02Transactor{}
		addr := ethCommon.HexToAddress("0x6cde2cd82a4f8b74693ff5e194c19ca08c2d1c68")
		bc := evmbridge.NewBridgeContract(&c02Client{id: big.NewInt(1)}, addr, tr)
		if _, err := bc.ExecuteProposals(c02Props(a[0]), unhx(a[1]), transactor.TransactOptions{GasLimit: 5}); err != nil || len(tr.data) < 4 {
			return "err"
		}
		ab, err := abi.JSON(strings.NewReader(consts.BridgeABI))
		if err != nil {
			panic(err)
		}
		m := ab.Methods["executeProposals"]
		if !bytes.Equal(tr.data[:4], m.ID) || tr.to == nil || *tr.to != addr {
			return "wrong-selector-or-target"
		}
		vals, err := m.Inputs.Unpack(tr.data[4:])
		if err != nil || len(vals) != 2 {
			return "undecodable"
		}
		out := []string{}
		rv := reflect.ValueOf(vals[0])
		for i := 0; i < rv.Len(); i++ {
			e := rv.Index(i)
			rid := e.FieldByName("ResourceID").Interface().([32]byte)
			out = append(out, utoa(uint64(e.FieldByName("OriginDomainID").Interface().(uint8)))+":"+utoa(e.FieldByName("DepositNonce").Interface().(uint64))+":"+
				hex.EncodeToString(rid[:])+":"+hx(e.FieldByName("Data").Interface().([]byte)))
		}
		return joinOr(out, ";") + "|" + hx(vals[1].([]byte))
	}
	gens["C02"] = genC02
}

func c02RandProp(g *G) string {
	origin := []uint64{0, 1, 2, 255, uint64(g.Intn(256))}[g.Intn(5)]
	nonce := []uint64{0, 1, 1<<64 - 1, 1 << 63, g.U64(), uint64(g.Intn(1000))}[g.Intn(6)]
	var rid []byte
	switch g.Intn(4) {
	case 0:
		rid = make([]byte, 32)
	case 1:
		rid = bytes.Repeat([]byte{0xff}, 32)
	case 2:
		rid = make([]byte, 32)
		rid[31] = byte(g.Intn(4))
	default:
		rid = g.Bytes(32)
	}
	dl := []int{0, 0, 1, 31, 32, 33, 64, 135, 136, 137, 272, g.Intn(600)}[g.Intn(12)]
	var data []byte
	switch g.Intn(3) {
	case 0:
		data = make([]byte, dl)
	case 1:
		data = bytes.Repeat([]byte{0xff}, dl)
	default:
		data = g.Bytes(dl)
	}
	return utoa(origin) + ":" + utoa(nonce) + ":" + hex.EncodeToString(rid) + ":" + hx(data)
}

func c02RandProps(g *G, max int) string {
	n := g.Intn(max + 1)
	xs := []string{}
	for i := 0; i < n; i++ {
		xs = append(xs, c02RandProp(g))
	}
	return joinOr(xs, ";")
}

func c02Minimal(g *G, n int) []byte {
	if n == 0 {
		return []byte{}
	}
	b := g.Bytes(n)
	if b[0] == 0 {
		b[0] = 1
	}
	return b
}

func genC02(g *G) {
	// 1. Keccak: every length 0..300 (straddles the 136-byte rate twice), then random longer inputs
	for n := 0; n <= 300; n++ {
		g.Emit("keccak", hx(g.Bytes(n)))
	}
	for _, n := range []int{0, 1, 135, 136, 137, 271, 272, 273} {
		g.Emit("keccak", hx(make([]byte, n)))
		g.Emit("keccak", hx(bytes.Repeat([]byte{0xff}, n)))
	}
	for i := 0; i < g.Count(40, 2000); i++ {
		g.Emit("keccak", hx(g.Bytes(300+g.Intn(1500))))
	}

	// 2. chains.ProposalsHash — small exhaustive scope: field alphabets × batch length ≤ 2, order matters
	addr := "6cde2cd82a4f8b74693ff5e194c19ca08c2d1c68"
	z32, f32 := strings.Repeat("00", 32), strings.Repeat("ff", 32)
	alpha := []string{}
	for _, o := range []string{"0", "255"} {
		for _, n := range []string{"0", "18446744073709551615"} {
			for _, r := range []string{z32, f32} {
				for _, d := range []string{"-", "00", strings.Repeat("ab", 33)} {
					alpha = append(alpha, o+":"+n+":"+r+":"+d)
				}
			}
		}
	}
	g.Emit("hash", "1", "0x"+addr, "3.1.0", "-")
	for _, x := range alpha {
		g.Emit("hash", "1", "0x"+addr, "3.1.0", x)
		for _, y := range alpha {
			g.Emit("hash", "1", "0x"+addr, "3.1.0", x+";"+y)
		}
	}
	// chain ids × contract strings × versions on a fixed batch
	chainIDs := []string{"0", "1", "5", "2147483648", "9223372036854775807", "-1", "-9223372036854775808"}
	contracts := []string{"0x" + addr, addr, "0X" + addr, strings.ToUpper(addr), "0x6CdE2Cd82a4F8B74693Ff5e194c19CA08c2d1c68",
		"0x" + strings.Repeat("00", 20), "0x" + strings.Repeat("ff", 20), "-", "0x", "0x" + addr[1:], "0x" + addr + "0", "0x" + addr[:39] + "g", addr + "00", "x" + addr}
	versions := []string{"3.1.0", "3.1.1", "3.1", "-", "v3.1.0", "3.1.00", "1"}
	for _, c := range chainIDs {
		for _, k := range contracts {
			for _, v := range versions {
				g.Emit("hash", c, k, v, alpha[5]+";"+alpha[7])
			}
		}
	}
	// random batches 0..6
	for i := 0; i < g.Count(700, 40000); i++ {
		c := g.Pick(chainIDs)
		if g.Intn(3) == 0 {
			c = utoa(g.U64() >> 1)
		}
		k := "0x" + hex.EncodeToString(g.Bytes(20))
		if g.Intn(10) == 0 {
			k = g.Pick(contracts)
		}
		v := "3.1.0"
		if g.Intn(10) == 0 {
			v = g.Pick(versions)
		}
		g.Emit("hash", c, k, v, c02RandProps(g, 6))
	}
	// neighbours: one batch, then the same with one thing changed (both must match the contract-side digest)
	for i := 0; i < g.Count(60, 3000); i++ {
		a, b := c02RandProp(g), c02RandProp(g)
		g.Emit("hash", "5", "0x"+addr, "3.1.0", a+";"+b)
		g.Emit("hash", "5", "0x"+addr, "3.1.0", b+";"+a)
		g.Emit("hash", "6", "0x"+addr, "3.1.0", a+";"+b)
		g.Emit("hash", "5", "0x"+addr[:38]+"69", "3.1.0", a+";"+b)
	}

	// 3. BridgeContract.ProposalsHash / Pallet.ProposalsHash — real constants, chain id through big.Int.Int64()
	bigIDs := []string{"0", "1", "11155111", "9223372036854775807", "9223372036854775808", "18446744073709551615", "18446744073709551616",
		"18446744073709551621", "115792089237316195423570985008687907853269984665640564039457584007913129639935"}
	for _, c := range bigIDs {
		g.Emit("evmhash", c, addr, alpha[5])
		g.Emit("subhash", c, alpha[5])
	}
	g.Emit("evmhash", "x", addr, alpha[5])
	for i := 0; i < g.Count(300, 15000); i++ {
		c := utoa(g.U64() >> 1)
		switch g.Intn(8) {
		case 0:
			c = g.Pick(bigIDs)
		case 1:
			c = new(big.Int).SetBytes(g.Bytes(1 + g.Intn(32))).String()
		case 2:
			c = utoa(uint64(g.Intn(100000)))
		}
		if g.Bool() {
			g.Emit("evmhash", c, hex.EncodeToString(g.Bytes(20)), c02RandProps(g, 5))
		} else {
			g.Emit("subhash", c, c02RandProps(g, 5))
		}
	}

	// 4. signature assembly: r, s with 0..32 significant bytes (minimal big-endian, as big.Int.Bytes() gives),
	//    also zero-padded forms (what threshlib hands over), recovery ids 0..3; malformed: longer r/s, empty or long recovery
	for _, op := range []string{"evmsig", "subsig"} {
		for rl := 0; rl <= 32; rl++ {
			for _, sl := range []int{0, 1, 31, 32, rl} {
				g.Emit(op, hx(c02Minimal(g, rl)), hx(c02Minimal(g, sl)), []string{"00", "01"}[g.Intn(2)])
			}
		}
		for i := 0; i < g.Count(300, 20000); i++ {
			r, s := c02Minimal(g, g.Intn(33)), c02Minimal(g, g.Intn(33))
			if g.Intn(4) == 0 { // zero-padded to 32 as threshlib does
				r = ethCommon.LeftPadBytes(r, 32)
				s = ethCommon.LeftPadBytes(s, 32)
			}
			if g.Intn(6) == 0 {
				r = bytes.Repeat([]byte{0xff}, 32)
			}
			rec := []string{"00", "01", "00", "01", "02", "03", "e5", "ff"}[g.Intn(8)]
			g.Emit(op, hx(r), hx(s), rec)
		}
		// outside the statement's quantifier (the model still has to agree): over-long r/s, recovery not one byte
		for i := 0; i < g.Count(40, 1000); i++ {
			rec := []string{"-", "0001", "0100", "000000"}[g.Intn(4)]
			g.Emit(op, hx(g.Bytes(g.Intn(40))), hx(g.Bytes(g.Intn(40))), rec)
		}
	}

	// 4b. the calldata of executeProposals carries exactly the batch and the signature
	g.Emit("evmcall", "-", hx(g.Bytes(65)))
	for i := 0; i < g.Count(120, 6000); i++ {
		g.Emit("evmcall", c02RandProps(g, 5), hx(g.Bytes([]int{65, 65, 65, 64, 0, 66}[g.Intn(6)])))
	}

	// 5. TEST (labelled): go-ethereum keys sign the real digest; the real assembly's bytes must recover the signer
	for i := 0; i < g.Count(24, 400); i++ {
		want := "0"
		if i%3 == 1 {
			want = "1" // r with a leading zero byte (≈256 signing attempts)
		}
		g.Emit("recover", []string{"evm", "sub"}[i%2], hx(g.Bytes(8)), want, utoa(uint64(g.Intn(1000))), hex.EncodeToString(g.Bytes(20)), c02RandProp(g)+";"+c02RandProp(g))
	}
	genC02Seq(g)
}
