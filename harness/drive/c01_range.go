package main

// C01 — several deposits in ONE polled range / ONE retried transaction.
//   range <dep|retry1> <dstKind> <src> <steps>      steps `;`-separated, each  kind,dst,nonce,rid,calldata,resp  (last byte of rid
//                                                   selects the handler, as in e2e); all logs are returned by ONE FetchEventLogs
//                                                   call (dep) or sit in ONE receipt (retry1)
//   => out1|out2|…   the proposals of all messages produced, ordered by (deposit nonce, destination); `-` when none
// Every deposit must come out with ITS OWN identity and payload, and nothing else may come out.

import (
	"context"
	"errors"
	"math/big"
	"sort"
	"strings"

	"github.com/ChainSafe/sygma-relayer/chains/evm/calls/events"
	"github.com/ChainSafe/sygma-relayer/chains/evm/listener/eventHandlers"
	"github.com/ChainSafe/sygma-relayer/relayer/transfer"
	"github.com/ethereum/go-ethereum/common"
	ethTypes "github.com/ethereum/go-ethereum/core/types"
	"github.com/rs/zerolog"
	"github.com/sygmaprotocol/sygma-core/relayer/message"
)

// multiClient answers with freshly allocated logs for all deposits of the range at once.
type multiClient struct {
	datas [][]byte
	tx    common.Hash
}

func (c *multiClient) logs() []ethTypes.Log {
	out := []ethTypes.Log{}
	for _, d := range c.datas {
		out = append(out, ethTypes.Log{Address: c06Bridge, Topics: []common.Hash{events.DepositSig.GetTopic(), common.HexToHash("0xaa")}, Data: exact(d)})
	}
	return out
}
func (c *multiClient) FetchEventLogs(ctx context.Context, a common.Address, event string, s, e *big.Int) ([]ethTypes.Log, error) {
	switch event {
	case string(events.DepositSig):
		return c.logs(), nil
	case string(events.RetryV1Sig):
		data, err := c06ABI.Events["Retry"].Inputs.Pack(c.tx.Hex())
		if err != nil {
			panic(err)
		}
		return []ethTypes.Log{{Address: c06Bridge, Data: data}}, nil
	}
	return nil, nil
}
func (c *multiClient) WaitAndReturnTxReceipt(h common.Hash) (*ethTypes.Receipt, error) {
	if h != c.tx {
		return nil, errors.New("no receipt")
	}
	r := &ethTypes.Receipt{BlockNumber: big.NewInt(10)}
	ls := c.logs()
	for i := range ls {
		r.Logs = append(r.Logs, &ls[i])
	}
	return r, nil
}
func (c *multiClient) LatestBlock() (*big.Int, error) { return big.NewInt(1000), nil }
func (c *multiClient) BlockByNumber(ctx context.Context, n *big.Int) (*ethTypes.Block, error) {
	return nil, errors.New("no block in harness")
}

func init() {
	ops["C01.range"] = func(a []string) string {
		mode, dk, src := a[0], a[1], uint8(u64(a[2]))
		cl := &multiClient{tx: common.BigToHash(big.NewInt(78))}
		for _, st := range items(a[3], ";") {
			f := strings.Split(st, ",")
			data, err := c06ABI.Events["Deposit"].Inputs.NonIndexed().Pack(uint8(u64(f[1])), rid32(f[3]), u64(f[2]), unhx(f[4]), unhx(f[5]))
			if err != nil {
				panic(err)
			}
			cl.datas = append(cl.datas, data)
		}
		l := events.NewListener(cl)
		msgs := []*message.Message{}
		switch mode {
		case "dep":
			eh := eventHandlers.NewDepositEventHandler(l, c06EthHandler(), c06Bridge, src, make(chan []*message.Message, 4))
			out, err := eh.ProcessDeposits(big.NewInt(1), big.NewInt(2))
			if err != nil {
				return "err"
			}
			msgs = flat(out)
		case "retry1":
			ch := make(chan []*message.Message, 300)
			eh := eventHandlers.NewRetryV1EventHandler(zerolog.Nop().With(), l, c06EthHandler(), &c06Store{map[uint64]string{}}, c06Bridge, src, big.NewInt(5), ch)
			if err := eh.HandleEvents(big.NewInt(1), big.NewInt(2)); err != nil {
				return "err"
			}
		drain:
			for {
				select {
				case ms := <-ch:
					msgs = append(msgs, ms...)
				default:
					break drain
				}
			}
		default:
			panic("bad range mode")
		}
		sort.SliceStable(msgs, func(i, j int) bool {
			ni, nj := msgs[i].Data.(transfer.TransferMessageData).DepositNonce, msgs[j].Data.(transfer.TransferMessageData).DepositNonce
			if ni != nj {
				return ni < nj
			}
			return msgs[i].Destination < msgs[j].Destination
		})
		// convert all, render afterwards
		rs := []seqRes{}
		for _, m := range msgs {
			rs = append(rs, toProposal(dk, []*message.Message{m}))
		}
		out := []string{}
		for _, r := range rs {
			out = append(out, r.String())
		}
		return joinOr(out, "|")
	}
}

func genC01Range(g *G) {
	code := map[string]byte{"erc20": 1, "erc721": 2, "erc1155": 3, "generic": 4}
	kinds := []string{"erc20", "erc20", "erc721", "erc1155", "generic"}
	n := g.Count(80, 5000)
	for i := 0; i < n; i++ {
		k := 2 + g.Intn(4)
		base := g.U64() % (1 << 40)
		steps := []string{}
		for j := 0; j < k; j++ {
			kd := kinds[g.Intn(len(kinds))]
			var cd []byte
			switch kd {
			case "erc20":
				cd = g.fungibleCD(g.Intn(3) == 0)
			case "erc721":
				cd = g.erc721CD()
			case "erc1155":
				cd = g.erc1155CD()
			default:
				cd = g.genericCD()
			}
			rid := g.Bytes(32)
			rid[31] = code[kd]
			dst := itoa(1 + g.Intn(3))
			// nonces distinct but not in log order
			nonce := utoa(base + uint64((j*7+3)%k) + uint64(j)*uint64(k))
			steps = append(steps, strings.Join([]string{kd, dst, nonce, hx(rid), hx(cd), hx([][]byte{nil, nil, w32(g.big256())}[g.Intn(3)])}, ","))
		}
		g.Emit("range", []string{"dep", "dep", "retry1"}[g.Intn(3)], "evm", itoa(g.Intn(256)), strings.Join(steps, ";"))
	}
}
