package main

// C03 — the periodic "already executed?" check of the EVM / Substrate watch loops. A session whose proposals are all
// reported executed is closed as successful and its signing is cancelled; closing it while a member is still pending
// (or while the lookup fails) drops that member: it is never signed or submitted by this delivery.
//   tick  : the REAL areProposalsExecuted (hook) on one vector of answers
//   watch : the REAL watchExecution loop (hook) with executionCheckPeriod shortened through a verif accessor, no
//           signature arriving; the fake destination answers per SWEEP (a lookup for a member index not larger than
//           the previous one starts the next tick), so the outcome does not depend on timing.

import (
	"context"
	"errors"
	"strings"
	"sync"
	"time"

	evmExecutor "github.com/ChainSafe/sygma-relayer/chains/evm/executor"
	subExecutor "github.com/ChainSafe/sygma-relayer/chains/substrate/executor"
	"github.com/ChainSafe/sygma-relayer/relayer/transfer"
	tssCommon "github.com/binance-chain/tss-lib/common"
	"github.com/centrifuge/go-substrate-rpc-client/v4/rpc/author"
	"github.com/centrifuge/go-substrate-rpc-client/v4/types"
	ethCommon "github.com/ethereum/go-ethereum/common"
	"github.com/libp2p/go-libp2p/p2p/host/peerstore/pstoremem"
	"github.com/sygmaprotocol/sygma-core/chains/evm/transactor"
)

// c3TickChain answers IsProposalExecuted from per-tick vectors (member index = deposit nonce).
type c3TickChain struct {
	mu      sync.Mutex
	script  []string // one string over p/e/x per tick
	tick    int
	last    int // member index of the previous lookup, -1 before the first
	sweeps  [][]string
	cancel  context.CancelFunc
	onSpent func() // if set, called ONCE when the script is exhausted (instead of cancel)
	spent   bool   // the script is exhausted: the loop is being told to stop
	foreign bool // a lookup for something that is not a member
	byPos   map[uint64]int // optional: member position by deposit nonce (default: nonce = position)
}

func (c *c3TickChain) isExecuted(p *transfer.TransferProposal) (bool, error) {
	c.mu.Lock()
	defer c.mu.Unlock()
	idx := int(p.Data.DepositNonce)
	if c.byPos != nil {
		pos, ok := c.byPos[p.Data.DepositNonce]
		if !ok {
			c.foreign = true
			return false, nil
		}
		idx = pos
	}
	if c.last >= 0 && idx <= c.last {
		c.tick++
	}
	c.last = idx
	if c.tick >= len(c.script) {
		first := !c.spent
		c.spent = true
		if c.onSpent != nil {
			if first {
				c.onSpent()
			}
		} else if c.cancel != nil {
			c.cancel()
		}
		return false, nil
	}
	v := c.script[c.tick]
	if idx >= len(v) {
		c.foreign = true
		return false, nil
	}
	for len(c.sweeps) <= c.tick {
		c.sweeps = append(c.sweeps, nil)
	}
	c.sweeps[c.tick] = append(c.sweeps[c.tick], itoa(idx))
	switch v[idx] {
	case 'e':
		return true, nil
	case 'x':
		return false, errors.New("lookup failed")
	}
	return false, nil
}

func (c *c3TickChain) log() string {
	xs := []string{}
	for _, s := range c.sweeps {
		xs = append(xs, joinOr(s, ","))
	}
	return joinOr(xs, "/")
}

type c3TickBridge struct{ c *c3TickChain }

func (b c3TickBridge) IsProposalExecuted(p *transfer.TransferProposal) (bool, error) { return b.c.isExecuted(p) }
func (b c3TickBridge) ProposalsHash(ps []*transfer.TransferProposal) ([]byte, error) {
	return nil, errors.New("not reached")
}
func (b c3TickBridge) ExecuteProposals(ps []*transfer.TransferProposal, sig []byte, opts transactor.TransactOptions) (*ethCommon.Hash, error) {
	return nil, errors.New("not reached")
}

type c3TickPallet struct{ c *c3TickChain }

func (b c3TickPallet) IsProposalExecuted(p *transfer.TransferProposal) (bool, error) { return b.c.isExecuted(p) }
func (b c3TickPallet) ProposalsHash(ps []*transfer.TransferProposal) ([]byte, error) {
	return nil, errors.New("not reached")
}
func (b c3TickPallet) ExecuteProposals(ps []*transfer.TransferProposal, sig []byte) (types.Hash, *author.ExtrinsicStatusSubscription, error) {
	return types.Hash{}, nil, errors.New("not reached")
}
func (b c3TickPallet) TrackExtrinsic(h types.Hash, sub *author.ExtrinsicStatusSubscription) error {
	return errors.New("not reached")
}

func init() {
	// tick <evm|sub> <answers>   one sweep over a batch of len(answers) members
	//   =>  <true|false>|<member indices asked>
	ops["C03.tick"] = func(a []string) string {
		v := c3Script(a[1])
		ch := &c3TickChain{script: []string{v}, last: -1}
		ps := c3TProps(c3Range(len(v)))
		var r bool
		if a[0] == "evm" {
			r = evmExecutor.NewExecutor(nil, nil, nil, c3TickBridge{ch}, nil, &sync.RWMutex{}, 1000, 60).VerifC03AreProposalsExecuted(ps)
		} else {
			r = subExecutor.NewExecutor(nil, nil, nil, c3TickPallet{ch}, nil, nil, &sync.RWMutex{}).VerifC03AreProposalsExecuted(ps)
		}
		if ch.foreign || ch.tick > 0 {
			return "resweep"
		}
		out := "false"
		if r {
			out = "true"
		}
		return out + "|" + ch.log()
	}
	// watch <evm|sub> <n> <tick vectors, '/'-separated, each of length n>    no signature ever arrives
	//   =>  closed@<tick>|<sweeps>   the loop returned nil at that tick ("successfully executed")
	//       waiting|<sweeps>         still waiting when the script ran out (the harness then cancels the watch context)
	ops["C03.watch"] = func(a []string) string {
		n := int(u64(a[1]))
		script := items(a[2], "/")
		ctx, cancel := context.WithTimeout(context.Background(), 15*time.Second)
		defer cancel()
		ch := &c3TickChain{script: script, last: -1, cancel: cancel}
		ps := c3TProps(c3Range(n))
		pst, _ := pstoremem.NewPeerstore()
		h, cm := &c17Host{ps: pst}, &c17Comm{}
		sigChn := make(chan interface{})
		cancelled := false
		var err error
		if a[0] == "evm" {
			old := evmExecutor.VerifC03SetCheckPeriod(time.Millisecond)
			e := evmExecutor.NewExecutor(h, cm, nil, c3TickBridge{ch}, nil, &sync.RWMutex{}, 1000, 60)
			err = e.VerifC03WatchExecution(ctx, func() { cancelled = true }, ps, 120, sigChn, "m-0", "m")
			evmExecutor.VerifC03SetCheckPeriod(old)
		} else {
			old := subExecutor.VerifC03SetCheckPeriod(time.Millisecond)
			e := subExecutor.NewExecutor(h, cm, nil, c3TickPallet{ch}, nil, nil, &sync.RWMutex{})
			err = e.VerifC03WatchExecution(ctx, func() { cancelled = true }, ps, sigChn, "m")
			subExecutor.VerifC03SetCheckPeriod(old)
		}
		ch.mu.Lock()
		defer ch.mu.Unlock()
		switch {
		case err != nil:
			return "err|" + ch.log()
		case ch.foreign:
			return "foreign|" + ch.log()
		case ch.spent:
			return "waiting|" + ch.log()
		case ctx.Err() != nil:
			return "timeout|" + ch.log()
		case !cancelled:
			return "not-cancelled|" + ch.log()
		case ch.last < 0:
			return "closed@-|" + ch.log() // closed without asking the destination at all
		}
		return "closed@" + itoa(ch.tick) + "|" + ch.log()
	}
}

// ---- ticks BEFORE the signature arrives, then the submission

type c3SigBridge struct {
	c *c3TickChain
	r *c3SubmitRec
}

func (b c3SigBridge) IsProposalExecuted(p *transfer.TransferProposal) (bool, error) { return b.c.isExecuted(p) }
func (b c3SigBridge) ProposalsHash(ps []*transfer.TransferProposal) ([]byte, error) {
	return nil, errors.New("not reached")
}
func (b c3SigBridge) ExecuteProposals(ps []*transfer.TransferProposal, sig []byte, opts transactor.TransactOptions) (*ethCommon.Hash, error) {
	return c3SubmitBridge{b.r}.ExecuteProposals(ps, sig, opts)
}

type c3SigPallet struct {
	c *c3TickChain
	r *c3SubmitRec
}

func (b c3SigPallet) IsProposalExecuted(p *transfer.TransferProposal) (bool, error) { return b.c.isExecuted(p) }
func (b c3SigPallet) ProposalsHash(ps []*transfer.TransferProposal) ([]byte, error) {
	return nil, errors.New("not reached")
}
func (b c3SigPallet) ExecuteProposals(ps []*transfer.TransferProposal, sig []byte) (types.Hash, *author.ExtrinsicStatusSubscription, error) {
	return c3SubmitPallet{b.r}.ExecuteProposals(ps, sig)
}
func (b c3SigPallet) TrackExtrinsic(h types.Hash, sub *author.ExtrinsicStatusSubscription) error {
	return c3SubmitPallet{b.r}.TrackExtrinsic(h, sub)
}

func init() {
	// sigwatch <evm|sub> <gas> <nonces of the signed batch> <tick vectors '/'-separated | ->
	//   the REAL watchExecution: the scripted ticks happen first (answers per member position, as in `watch`), and only
	//   when the script is exhausted does the signature arrive; what is then handed to ExecuteProposals is recorded.
	//   =>  closed@<t>|-|<inputs>|<sweeps>              the session was closed as executed during the script, nothing submitted
	//       submitted|<nonces>/<gas>;…|<inputs>|<sweeps>  inputs = ok iff the caller's proposal slice is unchanged afterwards
	//       sweeps = the member positions asked about at each scripted tick
	ops["C03.sigwatch"] = func(a []string) string {
		nonces := c3Nonces(a[2])
		n := len(nonces)
		script := items(a[3], "/")
		ctx, cancel := context.WithTimeout(context.Background(), 15*time.Second)
		defer cancel()
		sigChn := make(chan interface{}, 1)
		sig := &tssCommon.SignatureData{R: []byte{1}, S: []byte{2}, SignatureRecovery: []byte{0}}
		ch := &c3TickChain{script: script, last: -1, byPos: map[uint64]int{}}
		for i, x := range nonces {
			if _, dup := ch.byPos[x]; !dup {
				ch.byPos[x] = i
			}
		}
		ch.onSpent = func() { sigChn <- sig }
		if len(script) == 0 {
			sigChn <- sig // no tick before the signature
			ch.onSpent = func() {}
		}
		rec := &c3SubmitRec{cancel: cancel}
		ps := c3TProps(nonces)
		before := append([]*transfer.TransferProposal{}, ps...)
		pst, _ := pstoremem.NewPeerstore()
		h, cm := &c17Host{ps: pst}, &c17Comm{}
		var err error
		if a[0] == "evm" {
			old := evmExecutor.VerifC03SetCheckPeriod(time.Millisecond)
			e := evmExecutor.NewExecutor(h, cm, nil, c3SigBridge{ch, rec}, nil, &sync.RWMutex{}, 1000, 60)
			err = e.VerifC03WatchExecution(ctx, func() {}, ps, u64(a[1]), sigChn, "m-0", "m")
			evmExecutor.VerifC03SetCheckPeriod(old)
		} else {
			old := subExecutor.VerifC03SetCheckPeriod(time.Millisecond)
			e := subExecutor.NewExecutor(h, cm, nil, c3SigPallet{ch, rec}, nil, nil, &sync.RWMutex{})
			err = e.VerifC03WatchExecution(ctx, func() {}, ps, sigChn, "m")
			subExecutor.VerifC03SetCheckPeriod(old)
		}
		inputs := "ok"
		if len(ps) != n {
			inputs = "changed"
		} else {
			for i := range ps {
				if ps[i] != before[i] {
					inputs = "changed"
				}
			}
		}
		ch.mu.Lock()
		defer ch.mu.Unlock()
		rec.mu.Lock()
		defer rec.mu.Unlock()
		inputs += "|" + ch.log()
		switch {
		case err != nil:
			return "err|" + joinOr(rec.submitted, ";") + "|" + inputs
		case ch.foreign:
			return "foreign|" + joinOr(rec.submitted, ";") + "|" + inputs
		case len(rec.submitted) > 0:
			return "submitted|" + joinOr(rec.submitted, ";") + "|" + inputs
		case ch.spent || len(script) == 0:
			return "nosubmit|-|" + inputs
		}
		return "closed@" + itoa(ch.tick) + "|-|" + inputs
	}
}

// c3Monotone makes a tick script realistic: a member the destination has once reported executed is never reported
// pending again (lookup errors may still come and go).
func c3Monotone(ticks []string) []string {
	out := make([]string, len(ticks))
	var seen []bool
	for t, v := range ticks {
		b := []byte(v)
		if seen == nil {
			seen = make([]bool, len(b))
		}
		for j := range b {
			if j < len(seen) {
				if seen[j] && b[j] == 'p' {
					b[j] = 'e'
				}
				if b[j] == 'e' {
					seen[j] = true
				}
			}
		}
		out[t] = string(b)
	}
	return out
}

func genC03SigWatch(g *G) {
	// batches of 1..3 (quick) / 1..4 members: every single-tick vector before the signature, both executors; then
	// random multi-tick scripts with non-consecutive nonces
	L := g.Count(3, 4)
	var vecs func(n int) []string
	vecs = func(n int) []string {
		if n == 0 {
			return []string{""}
		}
		out := []string{}
		for _, v := range vecs(n - 1) {
			for _, c := range "pex" {
				out = append(out, v+string(c))
			}
		}
		return out
	}
	for n := 1; n <= L; n++ {
		ns := []string{}
		for i := 0; i < n; i++ {
			ns = append(ns, itoa(10+i))
		}
		for _, kind := range []string{"evm", "sub"} {
			gas := "-"
			if kind == "evm" {
				gas = itoa(60 * n)
			} else {
				gas = "0"
			}
			g.Emit("sigwatch", kind, gas, strings.Join(ns, ","), "-")
			for _, v := range vecs(n) {
				g.Emit("sigwatch", kind, gas, strings.Join(ns, ","), v)
			}
		}
	}
	for i := 0; i < g.Count(150, 4000); i++ {
		n := 1 + g.Intn(5)
		ns := []string{}
		base := g.Intn(40)
		for j := 0; j < n; j++ {
			base += 1 + g.Intn(3)
			ns = append(ns, itoa(base))
		}
		k := g.Intn(4)
		ticks := []string{}
		for t := 0; t < k; t++ {
			var sb strings.Builder
			for j := 0; j < n; j++ {
				sb.WriteByte("ppeex"[g.Intn(5)])
			}
			ticks = append(ticks, sb.String())
		}
		kind := g.Pick([]string{"evm", "sub"})
		gas := "0"
		if kind == "evm" {
			gas = utoa([]uint64{60, 180, 1 << 40, 1<<64 - 1}[g.Intn(4)])
		}
		g.Emit("sigwatch", kind, gas, strings.Join(ns, ","), joinOr(c3Monotone(ticks), "/"))
	}
}

func genC03Watch(g *G) {
	genC03SigWatch(g)
	// every answer vector for batches of 1..L members
	L := g.Count(4, 6)
	var rec func(prefix string)
	rec = func(prefix string) {
		if prefix != "" {
			g.Emit("tick", "evm", prefix)
			g.Emit("tick", "sub", prefix)
		}
		if len(prefix) == L {
			return
		}
		for _, c := range "pex" {
			rec(prefix + string(c))
		}
	}
	rec("")
	// the real loop: every script of 1..2 ticks for batches of 1..2, then random scripts for batches of 1..4
	// (answers change between ticks; a script ending in an all-executed vector closes, any other keeps waiting)
	var vecs func(n int) []string
	vecs = func(n int) []string {
		if n == 0 {
			return []string{""}
		}
		out := []string{}
		for _, v := range vecs(n - 1) {
			for _, c := range "pex" {
				out = append(out, v+string(c))
			}
		}
		return out
	}
	for n := 1; n <= 2; n++ {
		for _, v1 := range vecs(n) {
			for _, kind := range []string{"evm", "sub"} {
				g.Emit("watch", kind, itoa(n), v1)
				if kind == "sub" || n == 1 {
					for _, v2 := range vecs(n) {
						if m := c3Monotone([]string{v1, v2}); m[1] == v2 {
							g.Emit("watch", kind, itoa(n), v1+"/"+v2)
						}
					}
				}
			}
		}
	}
	for i := 0; i < g.Count(120, 4000); i++ {
		n := 1 + g.Intn(4)
		k := 1 + g.Intn(4)
		ticks := []string{}
		for t := 0; t < k; t++ {
			var sb strings.Builder
			for j := 0; j < n; j++ {
				// executions land over time: later ticks are more often executed
				switch {
				case g.Intn(4+2*t) >= 3:
					sb.WriteByte('e')
				case g.Intn(6) == 0:
					sb.WriteByte('x')
				default:
					sb.WriteByte('p')
				}
			}
			ticks = append(ticks, sb.String())
		}
		g.Emit("watch", g.Pick([]string{"evm", "sub"}), itoa(n), strings.Join(c3Monotone(ticks), "/"))
	}
}
