package main

// Fakes shared by C03 and C17: an in-memory key/value database with scripted faults underneath the REAL
// store.PropStore, a scripted "destination chain" answering IsProposalExecuted, recorders for what reaches
// hashing / uploading (= what would be signed).

import (
	"errors"
	"fmt"
	"sort"
	"strings"
	"sync"

	"github.com/ChainSafe/sygma-relayer/relayer/transfer"
	"github.com/ChainSafe/sygma-relayer/store"
	"github.com/syndtr/goleveldb/leveldb"
)

// c3DB: in-memory KeyValueReaderWriter. The i-th call (reads and writes share one counter) fails iff
// faults[i] == '1'. Every successful write is logged (`<nonce>:<status letter>`).
type c3DB struct {
	mu     sync.Mutex
	m      map[string]string
	faults string
	calls  int
	writes []string
}

func newC3DB(faults string) *c3DB {
	if faults == "-" {
		faults = ""
	}
	return &c3DB{m: map[string]string{}, faults: faults}
}

func (d *c3DB) fail() bool {
	i := d.calls
	d.calls++
	return i < len(d.faults) && d.faults[i] == '1'
}

func (d *c3DB) GetByKey(key []byte) ([]byte, error) {
	d.mu.Lock()
	defer d.mu.Unlock()
	if d.fail() {
		return nil, errors.New("db read failed")
	}
	v, ok := d.m[string(key)]
	if !ok {
		return nil, leveldb.ErrNotFound
	}
	return []byte(v), nil
}

func (d *c3DB) SetByKey(key []byte, value []byte) error {
	d.mu.Lock()
	defer d.mu.Unlock()
	if d.fail() {
		return errors.New("db write failed")
	}
	d.m[string(key)] = string(value)
	// key = source:%d:destination:%d:depositNonce:%d
	f := strings.Split(string(key), ":")
	d.writes = append(d.writes, f[len(f)-1]+":"+c3Letter(store.PropStatus(value)))
	return nil
}

// set a status directly (test set-up; not counted, never fails)
func (d *c3DB) preset(src, dst uint8, nonce uint64, letter string) {
	st := c3Status(letter)
	if st == store.MissingProp {
		delete(d.m, fmt.Sprintf(store.KEY, src, dst, nonce))
		return
	}
	d.m[fmt.Sprintf(store.KEY, src, dst, nonce)] = string(st)
}

func (d *c3DB) letter(src, dst uint8, nonce uint64) string {
	d.mu.Lock()
	defer d.mu.Unlock()
	v, ok := d.m[fmt.Sprintf(store.KEY, src, dst, nonce)]
	if !ok {
		return "m"
	}
	return c3Letter(store.PropStatus(v))
}

func (d *c3DB) setFaults(f string) {
	d.mu.Lock()
	defer d.mu.Unlock()
	if f == "-" {
		f = ""
	}
	d.faults = f
	d.calls = 0
}

func (d *c3DB) takeWrites() string {
	d.mu.Lock()
	defer d.mu.Unlock()
	w := d.writes
	d.writes = nil
	return joinOr(w, ",")
}

func c3Status(letter string) store.PropStatus {
	switch letter {
	case "p":
		return store.PendingProp
	case "f":
		return store.FailedProp
	case "e":
		return store.ExecutedProp
	case "m":
		return store.MissingProp
	}
	panic("bad status letter " + letter)
}

func c3Letter(s store.PropStatus) string {
	switch s {
	case store.PendingProp:
		return "p"
	case store.FailedProp:
		return "f"
	case store.ExecutedProp:
		return "e"
	case store.MissingProp:
		return "m"
	}
	return "?"
}

// c3Chain: the destination chain as the EVM bridge contract / Substrate pallet fakes see it.
// Scripted mode: the k-th IsProposalExecuted call answers script[k] (p = not executed, e = executed, x = error).
// Set mode (script == ""): a proposal is executed iff its nonce is in `executed`; lookups number failAt.. fail.
type c3Chain struct {
	mu       sync.Mutex
	script   string
	k        int
	executed map[uint64]bool
	failAt   int // -1: never
	sessions []string
	asked    []string
}

func (c *c3Chain) isExecuted(p *transfer.TransferProposal) (bool, error) {
	c.mu.Lock()
	defer c.mu.Unlock()
	k := c.k
	c.k++
	c.asked = append(c.asked, utoa(p.Data.DepositNonce))
	if c.script != "" {
		if k >= len(c.script) {
			return false, nil
		}
		switch c.script[k] {
		case 'e':
			return true, nil
		case 'x':
			return false, errors.New("lookup failed")
		}
		return false, nil
	}
	if c.failAt >= 0 && k == c.failAt {
		return false, errors.New("lookup failed")
	}
	return c.executed[p.Data.DepositNonce], nil
}

// hash records the proposals handed to hashing (= the set a signing session would be started for) and fails,
// so that no signing starts in the harness.
func (c *c3Chain) hash(ps []*transfer.TransferProposal) ([]byte, error) {
	c.mu.Lock()
	defer c.mu.Unlock()
	xs := []string{}
	for _, p := range ps {
		xs = append(xs, utoa(p.Data.DepositNonce))
	}
	c.sessions = append(c.sessions, joinOr(xs, ","))
	return nil, errors.New("hashing refused by harness")
}

func (c *c3Chain) takeSessions() string {
	c.mu.Lock()
	defer c.mu.Unlock()
	s := c.sessions
	c.sessions = nil
	return c3Sessions(s)
}

// sessions in lexicographic order of their nonce lists (total, so goroutine scheduling cannot show); "-" if none
func c3Sessions(s []string) string {
	s = append([]string{}, s...)
	key := func(x string) []uint64 {
		ks := []uint64{}
		for _, it := range items(x, ",") {
			ks = append(ks, u64(it))
		}
		return ks
	}
	sort.SliceStable(s, func(i, j int) bool {
		a, b := key(s[i]), key(s[j])
		for k := 0; k < len(a) && k < len(b); k++ {
			if a[k] != b[k] {
				return a[k] < b[k]
			}
		}
		return len(a) < len(b)
	})
	return joinOr(s, ";")
}

func c3Ret(err error) string {
	if err != nil {
		return "err"
	}
	return "nil"
}
