// Correspondence driver: runs the REAL sygma-relayer code in-process and prints one canonical
// line per case:  <Prop> <op> <args…> => <impl output>
// Built into the repository module through a build overlay (see ../build.sh); nothing is written to /repo.
package main

import (
	"bufio"
	"flag"
	"fmt"
	"os"
	"sort"
	"strings"
	"time"
)

// Op runs the real code on wire-format args and returns the canonical output (no spaces).
type Op func(args []string) string

// Gen emits cases for one property.
type Gen func(g *G)

var ops = map[string]Op{}   // key "C14.batches"
var gens = map[string]Gen{} // key "C14"

// G is handed to generators: PRNG (SplitMix64), tier, and the emit function.
type G struct {
	state uint64
	Tier  string
	Prop  string
	out   *bufio.Writer
	N     int
}

func (g *G) U64() uint64 {
	g.state += 0x9E3779B97F4A7C15
	z := g.state
	z = (z ^ (z >> 30)) * 0xBF58476D1CE4E5B9
	z = (z ^ (z >> 27)) * 0x94D049BB133111EB
	return z ^ (z >> 31)
}
func (g *G) Intn(n int) int {
	if n <= 0 {
		return 0
	}
	return int(g.U64() % uint64(n))
}
func (g *G) Bool() bool          { return g.U64()&1 == 1 }
func (g *G) Thorough() bool      { return g.Tier == "thorough" }
func (g *G) Pick(xs []string) string { return xs[g.Intn(len(xs))] }
func (g *G) Bytes(n int) []byte {
	b := make([]byte, n)
	for i := range b {
		b[i] = byte(g.U64())
	}
	return b
}

// Count returns q on the quick tier and t on the thorough tier.
func (g *G) Count(q, t int) int {
	if g.Thorough() {
		return t
	}
	return q
}

// Emit runs op on args and prints the line.
// After too many hanging ops the generator stops emitting: a change that makes the code under test block would otherwise
// cost (cases × op timeout). What was emitted so far is still compared; the hangs themselves are reported.
var hangCount int
var maxHangs = 8

func (g *G) Emit(op string, args ...string) {
	if hangCount >= maxHangs {
		return
	}
	line := runLine(g.Prop, op, args)
	if strings.HasSuffix(line, " => hang") || strings.Contains(line, " => hang;") {
		hangCount++
	}
	g.out.WriteString(line)
	g.out.WriteByte('\n')
	g.N++
}

func runLine(prop, op string, args []string) string {
	f, ok := ops[prop+"."+op]
	var res string
	if !ok {
		res = "NOOP"
	} else {
		res = safeRun(f, args)
	}
	for i, a := range args {
		if a == "" {
			args[i] = "-"
		}
	}
	if res == "" {
		res = "-"
	}
	return prop + " " + op + " " + strings.Join(args, " ") + " => " + res
}

// safeRun: panics and hangs become outputs instead of killing the harness.
func safeRun(f Op, args []string) (res string) {
	done := make(chan string, 1)
	go func() {
		defer func() {
			if r := recover(); r != nil {
				done <- "panic"
			}
		}()
		done <- f(args)
	}()
	select {
	case r := <-done:
		return r
	case <-time.After(opTimeout):
		return "hang"
	}
}

var opTimeout = 20 * time.Second

func verifRoot() string {
	if v := os.Getenv("VERIF_ROOT"); v != "" {
		return v
	}
	return "/verif"
}

func repoRoot() string {
	if v := os.Getenv("REPO_ROOT"); v != "" {
		return v
	}
	return "/repo"
}

func main() {
	prop := flag.String("prop", "", "property id")
	tier := flag.String("tier", "quick", "quick|thorough")
	seed := flag.Uint64("seed", 1, "PRNG seed")
	exec := flag.Bool("exec", false, "read `<Prop> <op> <args…>` lines from stdin (anything after ' => ' is ignored) and run them")
	list := flag.Bool("list", false, "list ops")
	flag.Parse()
	out := bufio.NewWriterSize(os.Stdout, 1<<16)
	defer out.Flush()
	quietLogs()
	if *list {
		ks := []string{}
		for k := range ops {
			ks = append(ks, k)
		}
		sort.Strings(ks)
		fmt.Fprintln(out, strings.Join(ks, "\n"))
		return
	}
	if *exec {
		sc := bufio.NewScanner(os.Stdin)
		sc.Buffer(make([]byte, 1<<20), 1<<26)
		for sc.Scan() {
			l := sc.Text()
			if i := strings.Index(l, " => "); i >= 0 {
				l = l[:i]
			}
			f := strings.Fields(l)
			if len(f) < 2 {
				continue
			}
			out.WriteString(runLine(f[0], f[1], f[2:]))
			out.WriteByte('\n')
		}
		return
	}
	gen, ok := gens[*prop]
	if !ok {
		fmt.Fprintln(os.Stderr, "no generator for", *prop)
		os.Exit(2)
	}
	g := &G{state: *seed*0x2545F4914F6CDD1D + 0x1234567, Tier: *tier, Prop: *prop, out: out}
	// corpus first (minimised past disagreements / witnesses)
	if fh, err := os.Open(verifRoot() + "/corpus/" + *prop + ".lines"); err == nil {
		sc := bufio.NewScanner(fh)
		sc.Buffer(make([]byte, 1<<20), 1<<26)
		for sc.Scan() {
			l := strings.TrimSpace(sc.Text())
			if l == "" || strings.HasPrefix(l, "#") {
				continue
			}
			if i := strings.Index(l, " => "); i >= 0 {
				l = l[:i]
			}
			f := strings.Fields(l)
			if len(f) >= 2 && f[0] == *prop {
				g.Emit(f[1], f[2:]...)
			}
		}
		fh.Close()
	}
	gen(g)
}
