package main

// Fakes shared by C07 and C11: a scripted comm.Communication, a host that only knows its identity and its
// peer list, and a recording TssProcess. The code under test (tss.Coordinator, the electors, the two Signing
// types, tss/util) is the repository's.

import (
	"context"
	"crypto/ed25519"
	"crypto/sha256"
	"errors"
	"fmt"
	"strconv"
	"sync"
	"sync/atomic"
	"time"

	"github.com/ChainSafe/sygma-relayer/comm"
	"github.com/ChainSafe/sygma-relayer/keyshare"
	"github.com/libp2p/go-libp2p/core/crypto"
	"github.com/libp2p/go-libp2p/core/host"
	"github.com/libp2p/go-libp2p/core/peer"
	"github.com/libp2p/go-libp2p/core/peerstore"
	"github.com/rs/zerolog"
)

// ---------------------------------------------------------------- peers

// c07Peers is a fixed universe of valid libp2p peer ids (ed25519 identities derived from fixed seeds).
// On the wire a peer is its index in this table; the Lean driver holds the same table of base58 strings
// (op `peertab` compares the two), or a full base58 id.
var c07Peers []peer.ID

func init() {
	for i := 0; i < 10; i++ {
		seed := sha256.Sum256([]byte("sygma-verif-peer-" + strconv.Itoa(i)))
		priv := ed25519.NewKeyFromSeed(seed[:])
		pk, err := crypto.UnmarshalEd25519PublicKey(priv.Public().(ed25519.PublicKey))
		if err != nil {
			panic(err)
		}
		id, err := peer.IDFromPublicKey(pk)
		if err != nil {
			panic(err)
		}
		c07Peers = append(c07Peers, id)
	}
}

func c07Peer(tok string) peer.ID {
	if len(tok) <= 2 {
		i, err := strconv.Atoi(tok)
		if err != nil || i < 0 || i >= len(c07Peers) {
			panic("bad peer token " + tok)
		}
		return c07Peers[i]
	}
	id, err := peer.Decode(tok)
	if err != nil {
		panic("bad peer id " + tok)
	}
	return id
}

func c07PeerList(s string) []peer.ID {
	out := []peer.ID{}
	for _, t := range items(s, ",") {
		out = append(out, c07Peer(t))
	}
	return out
}

// c07Tok renders a peer back into its wire token (table index, else base58; "" for the empty id).
func c07Tok(p peer.ID) string {
	if p == "" {
		return "none"
	}
	for i, q := range c07Peers {
		if p == q {
			return strconv.Itoa(i)
		}
	}
	return p.Pretty()
}

func c07Toks(ps []peer.ID) string {
	xs := []string{}
	for _, p := range ps {
		xs = append(xs, c07Tok(p))
	}
	return joinOr(xs, ",")
}

// ---------------------------------------------------------------- host

type c07PS struct {
	peerstore.Peerstore
	peers peer.IDSlice
}

func (p *c07PS) Peers() peer.IDSlice { return p.peers }

type c07Host struct {
	host.Host
	id peer.ID
	ps *c07PS
}

func (h *c07Host) ID() peer.ID                    { return h.id }
func (h *c07Host) Peerstore() peerstore.Peerstore { return h.ps }

func c07NewHost(self peer.ID, all []peer.ID) *c07Host {
	return &c07Host{id: self, ps: &c07PS{peers: append(peer.IDSlice{}, all...)}}
}

// ---------------------------------------------------------------- scripted communication

type c07Sub struct {
	id      int
	session string
	typ     comm.MessageType
	ch      chan *comm.WrappedMessage
}

type c07Cast struct {
	typ     comm.MessageType
	session string
	peers   []peer.ID
	payload []byte
}

// c07Event is what the hooks of the scripted communication see: kind "sub" | "unsub" | "cast".
type c07Event struct {
	kind    string
	id      int // subscription id (sub / unsub)
	session string
	typ     comm.MessageType
}

// c07Comm records Subscribe/UnSubscribe/Broadcast/CloseSession and lets the scenario hand messages to the
// current subscribers one at a time (unbuffered hand-over: a completed delivery means the receiving loop took it).
// Scenarios are sequenced on what happens HERE (a subscription registered, a broadcast made): `waitUntil` sleeps on a
// notification channel that every state change renews, and `hook` runs synchronously inside the calling goroutine of the
// code under test, so that "when the coordinator subscribes to X, do Y first" needs no clock at all.
type c07Comm struct {
	mu      sync.Mutex
	notify  chan struct{} // closed and replaced on every state change
	hook    func(ev c07Event)
	next    int
	subs    []*c07Sub
	hist    []c07Event // every subscription ever made (conditions on it are monotone: they cannot be missed by a late observer)
	casts   []c07Cast
	closed  []string
	nSub    int
	nUnsub  int
	castErr func(b c07Cast) error // scripted result of Broadcast (nil: success)
	mark    int                   // subscriptions with id ≤ mark belong to an earlier attempt and are not delivered to
	// markFirst: the first subscription to this message type sets the mark to its own id, atomically with being recorded
	markFirst *comm.MessageType
}

func c07NewComm() *c07Comm {
	return &c07Comm{notify: make(chan struct{})}
}

// changed must be called with mu held.
func (c *c07Comm) changed() {
	close(c.notify)
	c.notify = make(chan struct{})
}

func (c *c07Comm) CloseSession(sessionID string) {
	c.mu.Lock()
	c.closed = append(c.closed, sessionID)
	c.mu.Unlock()
}

func (c *c07Comm) Broadcast(peers peer.IDSlice, msg []byte, msgType comm.MessageType, sessionID string) error {
	c.mu.Lock()
	b := c07Cast{msgType, sessionID, append([]peer.ID{}, peers...), append([]byte{}, msg...)}
	c.casts = append(c.casts, b)
	c.changed()
	h := c.hook
	ce := c.castErr
	c.mu.Unlock()
	if h != nil {
		h(c07Event{"cast", 0, sessionID, msgType})
	}
	if ce != nil {
		return ce(b)
	}
	return nil
}

func (c *c07Comm) Subscribe(sessionID string, msgType comm.MessageType, channel chan *comm.WrappedMessage) comm.SubscriptionID {
	c.mu.Lock()
	c.next++
	id := c.next
	c.nSub++
	c.subs = append(c.subs, &c07Sub{id, sessionID, msgType, channel})
	c.hist = append(c.hist, c07Event{"sub", id, sessionID, msgType})
	if c.markFirst != nil && *c.markFirst == msgType {
		c.mark = id
		c.markFirst = nil
	}
	c.changed()
	h := c.hook
	c.mu.Unlock()
	if h != nil {
		h(c07Event{"sub", id, sessionID, msgType})
	}
	return comm.SubscriptionID(fmt.Sprintf("verif-%d", id))
}

func (c *c07Comm) UnSubscribe(subID comm.SubscriptionID) {
	c.mu.Lock()
	c.nUnsub++
	var ev *c07Event
	for i, s := range c.subs {
		if fmt.Sprintf("verif-%d", s.id) == string(subID) {
			ev = &c07Event{"unsub", s.id, s.session, s.typ}
			c.subs = append(c.subs[:i], c.subs[i+1:]...)
			break
		}
	}
	c.changed()
	h := c.hook
	c.mu.Unlock()
	if h != nil && ev != nil {
		h(*ev)
	}
}

// waitUntil sleeps until pred (evaluated under the lock after every state change of the communication) holds ("ok"),
// the scenario's main call returned ("done"), or the bound d elapsed ("timeout", recorded as an anomaly: the op is then
// re-run with a longer bound, see c07Escalating).
func (c *c07Comm) waitUntil(d time.Duration, done <-chan struct{}, pred func() bool) string {
	timer := time.NewTimer(d)
	defer timer.Stop()
	for {
		c.mu.Lock()
		ok := pred()
		ch := c.notify
		c.mu.Unlock()
		if ok {
			return "ok"
		}
		select {
		case <-ch:
		case <-done:
			return "done"
		case <-timer.C:
			c07Anomaly()
			return "timeout"
		}
	}
}

// everSub: has a subscription to (session, type) been made since the mark (whether or not it still exists)? mu held.
func (c *c07Comm) everSub(session string, typ comm.MessageType) bool {
	for _, h := range c.hist {
		if h.id > c.mark && h.session == session && h.typ == typ {
			return true
		}
	}
	return false
}

func (c *c07Comm) subscriber(session string, typ comm.MessageType) *c07Sub {
	for _, s := range c.subs {
		if s.id > c.mark && s.session == session && s.typ == typ {
			return s
		}
	}
	return nil
}

// ---------------------------------------------------------------- bounds and escalation
//
// No scenario step is paced by the clock: every step waits for an observable event. The waits are nevertheless bounded,
// because a broken tree may never produce the event. A bound that is exhausted ("anomaly") says "not within d", never
// "never": the whole case is then run again from scratch with a 5× and then a 25× longer bound, and only an anomaly that
// persists at the longest bound is printed (prefixed `hang;`, which also counts towards the driver's cap on hanging ops).
// The same applies to the one premise that involves a real timer inside the code under test (the bully election must
// still be running when the claimant's announcement has been processed): it is CHECKED from time stamps after the
// fact, and a run in which it did not hold is discarded and repeated with a 5× / 25× longer election.

var c07Levels = []time.Duration{400 * time.Millisecond, 2 * time.Second, 10 * time.Second}

var (
	c07Level     int32 // index into c07Levels of the attempt in progress
	c07Anomalies int32 // bounds exhausted / premises missed during the attempt in progress
)

func c07Patience() time.Duration {
	if atomic.LoadInt32(&c07Anomalies) > 0 {
		return time.Millisecond // the attempt is discarded anyway: finish it quickly
	}
	return c07Levels[atomic.LoadInt32(&c07Level)]
}
func c07Anomaly() { atomic.AddInt32(&c07Anomalies, 1) }

// c07Scale is the factor by which real timers inside the code under test are stretched on the current attempt.
func c07Scale() time.Duration {
	return []time.Duration{1, 5, 25}[atomic.LoadInt32(&c07Level)]
}

// c07Escalating wraps an op: run, and if any bound was exhausted run again with the next level.
func c07Escalating(f Op) Op {
	return func(a []string) string {
		// the code under test logs at its default level (into io.Discard): what it formats for its log lines is executed
		zerolog.SetGlobalLevel(zerolog.DebugLevel)
		defer zerolog.SetGlobalLevel(zerolog.Disabled)
		res := ""
		for lvl := range c07Levels {
			atomic.StoreInt32(&c07Level, int32(lvl))
			atomic.StoreInt32(&c07Anomalies, 0)
			res = f(append([]string{}, a...))
			if atomic.LoadInt32(&c07Anomalies) == 0 {
				return res
			}
		}
		atomic.StoreInt32(&c07Level, 0)
		return "hang;" + res
	}
}

// deliver hands one message to the (first) current subscriber of (session, type). Result:
// "ok" taken by the receiving loop, "nosub" nobody subscribed within the bound, "stuck" subscribed but not
// taken, "done" the scenario's main call returned first (or `done` was closed for another reason).
func (c *c07Comm) deliver(session string, typ comm.MessageType, from peer.ID, payload []byte, done <-chan struct{}) string {
	return c.deliverMsg(&comm.WrappedMessage{MessageType: typ, SessionID: session, Payload: payload, From: from}, done, false)
}

// deliverMsg hands a prepared message over (anyAttempt: also to subscriptions older than the mark).
func (c *c07Comm) deliverMsg(msg *comm.WrappedMessage, done <-chan struct{}, anyAttempt bool) string {
	session, typ := msg.SessionID, msg.MessageType
	var sub *c07Sub
	switch c.waitUntil(c07Patience(), done, func() bool {
		if anyAttempt {
			m := c.mark
			c.mark = 0
			sub = c.subscriber(session, typ)
			c.mark = m
		} else {
			sub = c.subscriber(session, typ)
		}
		return sub != nil
	}) {
	case "done":
		return "done"
	case "timeout":
		return "nosub"
	}
	timer := time.NewTimer(c07Patience())
	defer timer.Stop()
	select {
	case sub.ch <- msg:
		return "ok"
	case <-done:
		return "done"
	case <-timer.C:
		c07Anomaly()
		return "stuck"
	}
}

func (c *c07Comm) castsOf(typ comm.MessageType) []c07Cast {
	c.mu.Lock()
	defer c.mu.Unlock()
	out := []c07Cast{}
	for _, b := range c.casts {
		if b.typ == typ {
			out = append(out, b)
		}
	}
	return out
}

// ---------------------------------------------------------------- key-share stores, panics, logging

var c07FixECDSA = map[int]keyshare.ECDSAKeyshare{}
var c07FixFrost = map[int]keyshare.FrostKeyshare{}
var c07FixMu sync.Mutex

// c07FixtureECDSA / c07FixtureFrost: the repository's own test key shares (tss/test/keyshares), loaded once.
func c07FixtureECDSA(i int) keyshare.ECDSAKeyshare {
	c07FixMu.Lock()
	defer c07FixMu.Unlock()
	if ks, ok := c07FixECDSA[i]; ok {
		return ks
	}
	ks, err := keyshare.NewECDSAKeyshareStore(fmt.Sprintf("%s/tss/test/keyshares/%d.keyshare", repoRoot(), i)).GetKeyshare()
	if err != nil {
		panic("fixture key share: " + err.Error())
	}
	c07FixECDSA[i] = ks
	return ks
}
func c07FixtureFrost(i int) keyshare.FrostKeyshare {
	c07FixMu.Lock()
	defer c07FixMu.Unlock()
	if ks, ok := c07FixFrost[i]; ok {
		return ks
	}
	ks, err := keyshare.NewFrostKeyshareStore(fmt.Sprintf("%s/tss/test/keyshares/%d-frost.keyshare", repoRoot(), i)).GetKeyshare()
	if err != nil {
		panic("fixture key share: " + err.Error())
	}
	c07FixFrost[i] = ks
	return ks
}

// c07ECDSAFetcher / c07FrostFetcher serve fixture key share 0 with the committee and threshold of the scenario.
type c07ECDSAFetcher struct {
	peers []peer.ID
	t     int
}

func (f *c07ECDSAFetcher) GetKeyshare() (keyshare.ECDSAKeyshare, error) {
	ks := c07FixtureECDSA(0)
	ks.Peers, ks.Threshold = append([]peer.ID{}, f.peers...), f.t
	return ks, nil
}
func (f *c07ECDSAFetcher) StoreKeyshare(keyshare.ECDSAKeyshare) error { return nil }
func (f *c07ECDSAFetcher) LockKeyshare()                              {}
func (f *c07ECDSAFetcher) UnlockKeyshare()                            {}

type c07FrostFetcher struct {
	peers []peer.ID
	t     int
}

func (f *c07FrostFetcher) GetKeyshare() (keyshare.FrostKeyshare, error) {
	ks := c07FixtureFrost(0)
	ks.Peers, ks.Threshold = append([]peer.ID{}, f.peers...), f.t
	return ks, nil
}
func (f *c07FrostFetcher) StoreKeyshare(keyshare.FrostKeyshare) error { return nil }
func (f *c07FrostFetcher) LockKeyshare()                              {}
func (f *c07FrostFetcher) UnlockKeyshare()                            {}

var errC07Panic = errors.New("panic in the code under test")

// c07Guard runs a call into the code under test in the scenario's own goroutine; a panic there (conc pools re-raise
// the panics of their tasks in Wait) becomes the outcome `panic` instead of killing the driver.
func c07Guard(f func() error) (err error) {
	defer func() {
		if r := recover(); r != nil {
			err = errC07Panic
		}
	}()
	return f()
}

// ---------------------------------------------------------------- recording process

type c07Run struct {
	coordinator bool
	params      []byte
}

// c07Decider is the part of a real Signing the recording process delegates to.
type c07Decider interface {
	Ready(readyPeers []peer.ID, excludedPeers []peer.ID) (bool, error)
	StartParams(readyPeers []peer.ID) []byte
	ValidCoordinators() []peer.ID
	SessionID() string
}

// c07Proc implements tss.TssProcess: Ready/StartParams/ValidCoordinators/SessionID come from the real Signing
// (when one is given), Run/Stop are recorded; what Run returns is scripted per invocation.
type c07Proc struct {
	real      c07Decider
	sid       string
	valid     []peer.ID
	retryable bool
	outcomes  []func(ctx context.Context) error // per Run invocation; beyond the list: block until cancelled
	mu        sync.Mutex
	runs      []c07Run
	stops     int
	started   chan struct{} // receives one token per Run entered
	onEnter   func(i int)   // called when the i-th Run is entered, before `started` is signalled
	// runReal / stopReal: the process is the REAL one (one object kept alive across the attempts); Run and Stop are
	// recorded and then performed by it
	runReal  func(ctx context.Context, coordinator bool, resultChn chan interface{}, params []byte) error
	stopReal func()
}

func (p *c07Proc) Run(ctx context.Context, coordinator bool, resultChn chan interface{}, params []byte) error {
	p.mu.Lock()
	i := len(p.runs)
	p.runs = append(p.runs, c07Run{coordinator, append([]byte{}, params...)})
	p.mu.Unlock()
	if p.onEnter != nil {
		p.onEnter(i)
	}
	if p.started != nil {
		p.started <- struct{}{}
	}
	if p.runReal != nil {
		return p.runReal(ctx, coordinator, resultChn, params)
	}
	if i < len(p.outcomes) && p.outcomes[i] != nil {
		return p.outcomes[i](ctx)
	}
	<-ctx.Done()
	return nil
}
func (p *c07Proc) Stop() {
	p.mu.Lock()
	p.stops++
	p.mu.Unlock()
	if p.stopReal != nil {
		p.stopReal()
	}
}
func (p *c07Proc) Ready(r []peer.ID, e []peer.ID) (bool, error) {
	if p.real != nil {
		return p.real.Ready(r, e)
	}
	return false, nil
}
func (p *c07Proc) Retryable() bool { return p.retryable }
func (p *c07Proc) StartParams(r []peer.ID) []byte {
	if p.real != nil {
		return p.real.StartParams(r)
	}
	return nil
}
func (p *c07Proc) SessionID() string {
	if p.real != nil {
		return p.real.SessionID()
	}
	return p.sid
}
func (p *c07Proc) ValidCoordinators() []peer.ID {
	if p.real != nil {
		return p.real.ValidCoordinators()
	}
	return p.valid
}
func (p *c07Proc) runList() []c07Run {
	p.mu.Lock()
	defer p.mu.Unlock()
	return append([]c07Run{}, p.runs...)
}
