package main

// C04 — confirmation guards: the three scan loops (real listeners over a scripted chain, see fakes_scan.go)
// and the five retry paths (real handlers with fake chain clients).

import (
	"context"
	"errors"
	"math/big"
	"strings"

	"github.com/ChainSafe/sygma-relayer/chains/evm/calls/consts"
	"github.com/ChainSafe/sygma-relayer/chains/evm/calls/events"
	btcExecutor "github.com/ChainSafe/sygma-relayer/chains/btc/executor"
	evmExecutor "github.com/ChainSafe/sygma-relayer/chains/evm/executor"
	subExecutor "github.com/ChainSafe/sygma-relayer/chains/substrate/executor"
	subListenerR "github.com/ChainSafe/sygma-relayer/chains/substrate/listener"
	"github.com/ChainSafe/sygma-relayer/relayer/retry"
	"github.com/ChainSafe/sygma-relayer/store"
	"github.com/btcsuite/btcd/btcjson"
	"github.com/btcsuite/btcd/chaincfg/chainhash"
	"github.com/centrifuge/go-substrate-rpc-client/v4/registry"
	"github.com/centrifuge/go-substrate-rpc-client/v4/registry/parser"
	"github.com/centrifuge/go-substrate-rpc-client/v4/types"
	"github.com/ethereum/go-ethereum/accounts/abi"
	"github.com/ethereum/go-ethereum/common"
	ethTypes "github.com/ethereum/go-ethereum/core/types"
	"github.com/rs/zerolog"
	"github.com/sygmaprotocol/sygma-core/relayer/message"
)

var errRPC = errors.New("rpc down")

func bigArg(s string) *big.Int {
	v, ok := new(big.Int).SetString(s, 10)
	if !ok {
		panic("bad int arg " + s)
	}
	return v
}

// ---- EVM retry by transaction hash
type c04EvmClient struct {
	latest, receipt string
	bridge          common.Address
	data            []byte
}

func (c *c04EvmClient) FetchEventLogs(ctx context.Context, a common.Address, ev string, s, e *big.Int) ([]ethTypes.Log, error) {
	return nil, nil
}
func (c *c04EvmClient) WaitAndReturnTxReceipt(h common.Hash) (*ethTypes.Receipt, error) {
	if c.receipt == "E" {
		return nil, errRPC
	}
	lg := &ethTypes.Log{Address: c.bridge, Topics: []common.Hash{{1}, {2}}, Data: c.data, BlockNumber: bigArg(c.receipt).Uint64()}
	other := &ethTypes.Log{Address: common.Address{9}, Topics: []common.Hash{{1}, {2}}, Data: c.data}
	return &ethTypes.Receipt{BlockNumber: bigArg(c.receipt), Logs: []*ethTypes.Log{lg, other, lg}}, nil
}
func (c *c04EvmClient) LatestBlock() (*big.Int, error) {
	if c.latest == "E" || c.latest == "F" {
		return nil, errRPC
	}
	return bigArg(c.latest), nil
}
func (c *c04EvmClient) BlockByNumber(ctx context.Context, n *big.Int) (*ethTypes.Block, error) {
	return nil, errRPC
}

// ---- retry-by-height message handlers
type c04Processor struct{ calls []string }

func (p *c04Processor) ProcessDeposits(s, e *big.Int) (map[uint8][]*message.Message, error) {
	p.calls = append(p.calls, s.String()+"."+e.String())
	return map[uint8][]*message.Message{}, nil
}

type c04BtcProcessor struct{ calls []string }

func (p *c04BtcProcessor) ProcessDeposits(b *big.Int) (map[uint8][]*message.Message, error) {
	p.calls = append(p.calls, b.String()+"."+b.String())
	return map[uint8][]*message.Message{}, nil
}

type c04Latest struct{ latest string }

func (c c04Latest) LatestBlock() (*big.Int, error) {
	if c.latest == "E" || c.latest == "F" {
		return nil, errRPC
	}
	return bigArg(c.latest), nil
}

type c04BtcFetcher struct{ head string }

func (c c04BtcFetcher) GetBestBlockHash() (*chainhash.Hash, error) {
	if c.head == "E" {
		return nil, errRPC
	}
	return &chainhash.Hash{}, nil
}
func (c c04BtcFetcher) GetBlockVerboseTx(*chainhash.Hash) (*btcjson.GetBlockVerboseTxResult, error) {
	if c.head == "F" {
		return nil, errRPC
	}
	return &btcjson.GetBlockVerboseTxResult{Height: i64(c.head)}, nil
}

type c04PropStore struct{}

func (c04PropStore) StorePropStatus(s, d uint8, n uint64, st store.PropStatus) error { return nil }
func (c04PropStore) PropStatus(s, d uint8, n uint64) (store.PropStatus, error) {
	return store.MissingProp, nil
}

// ---- Substrate connection for the retry paths
type c04SubConn struct {
	fin     string
	h       *big.Int
	fetched []string
}

func (c *c04SubConn) GetFinalizedHead() (types.Hash, error) {
	if c.fin == "E" {
		return types.Hash{}, errRPC
	}
	return types.Hash{}, nil
}
func (c *c04SubConn) GetBlock(types.Hash) (*types.SignedBlock, error) {
	if c.fin == "F" {
		return nil, errRPC
	}
	return &types.SignedBlock{Block: types.Block{Header: types.Header{Number: types.BlockNumber(u64(c.fin))}}}, nil
}
func (c *c04SubConn) GetBlockHash(n uint64) (types.Hash, error) {
	c.fetched = append(c.fetched, utoa(n))
	return types.Hash{}, nil
}
func (c *c04SubConn) GetBlockEvents(types.Hash) ([]*parser.Event, error) { return nil, nil }
func (c *c04SubConn) UpdateMetatdata() error                              { return nil }
func (c *c04SubConn) FetchEvents(s, e *big.Int) ([]*parser.Event, error) {
	return []*parser.Event{{Name: "SygmaBridge.Retry", Fields: registry.DecodedFields{
		&registry.DecodedField{Name: "deposit_on_block_height", Value: types.NewU128(*c.h)},
		&registry.DecodedField{Name: "dest_domain_id", Value: types.NewU8(2)},
	}}}, nil
}

func retryMsg(h string) *message.Message {
	return message.NewMessage(2, 1, retry.RetryMessageData{SourceDomainID: 1, DestinationDomainID: 2,
		BlockHeight: bigArg(h), ResourceID: [32]byte{1}}, "retry-1-2", retry.RetryMessageType, timeZero())
}

func procOut(err error, calls []string) string {
	if err != nil {
		return "err"
	}
	return "proc:" + joinOr(calls, ",")
}

func init() {
	// scan <kind> <conf> <k> <nh> <start|nil> <rounds>  =>  head/calls/store;…
	ops["C04.scan"] = func(a []string) string {
		e := newScanEnv(a[0], i64(a[1]), i64(a[2]), int(u64(a[3])), parseRounds(a[5]), newMemKV())
		e.runDirect(startArg(a[4]))
		return e.render()
	}
	// evmretrytx <latest|E> <receipt|E> <conf>  =>  ok:<deposits> | err
	ops["C04.evmretrytx"] = func(a []string) string {
		ab, _ := abi.JSON(strings.NewReader(consts.BridgeABI))
		data, err := ab.Events["Deposit"].Inputs.NonIndexed().Pack(uint8(2), [32]byte{1}, uint64(7), []byte{1, 2, 3}, []byte{})
		if err != nil {
			panic(err)
		}
		bridge := common.Address{7}
		cl := &c04EvmClient{latest: a[0], receipt: a[1], bridge: bridge, data: data}
		l := events.NewListener(cl)
		ds, err := l.FetchRetryDepositEvents(events.RetryV1Event{TxHash: "0x01"}, bridge, bigArg(a[2]))
		if err != nil {
			return "err"
		}
		return "ok:" + itoa(len(ds))
	}
	// evmretrymsg <latest|E> <h> <conf>  =>  proc:<s>.<e> | err
	ops["C04.evmretrymsg"] = func(a []string) string {
		p := &c04Processor{}
		h := evmExecutor.NewRetryMessageHandler(p, c04Latest{a[0]}, c04PropStore{}, bigArg(a[2]), make(chan []*message.Message, 4))
		_, err := h.HandleMessage(retryMsg(a[1]))
		return procOut(err, p.calls)
	}
	// btcretrymsg <head|E|F> <h> <conf>
	ops["C04.btcretrymsg"] = func(a []string) string {
		p := &c04BtcProcessor{}
		h := btcExecutor.NewRetryMessageHandler(p, c04BtcFetcher{a[0]}, bigArg(a[2]), c04PropStore{}, make(chan []*message.Message, 4))
		_, err := h.HandleMessage(retryMsg(a[1]))
		return procOut(err, p.calls)
	}
	// subretrymsg <fin|E|F> <h>
	ops["C04.subretrymsg"] = func(a []string) string {
		p := &c04Processor{}
		h := subExecutor.NewRetryMessageHandler(p, &c04SubConn{fin: a[0]}, c04PropStore{}, make(chan []*message.Message, 4))
		_, err := h.HandleMessage(retryMsg(a[1]))
		return procOut(err, p.calls)
	}
	// subretryevent <fin|E|F> <h>  =>  fetched:<h> | skip | err
	ops["C04.subretryevent"] = func(a []string) string {
		c := &c04SubConn{fin: a[0], h: bigArg(a[1])}
		rh := subListenerR.NewRetryEventHandler(zerolog.Context{}, c, nil, 1, make(chan []*message.Message, 4))
		err := rh.HandleEvents(big.NewInt(0), big.NewInt(4))
		if err != nil {
			return "err"
		}
		if len(c.fetched) == 0 {
			return "skip"
		}
		return "fetched:" + strings.Join(c.fetched, ",")
	}
	gens["C04"] = genC04
}

func genC04(g *G) {
	kinds := []string{"btc", "evm", "sub"}
	// exhaustive guard grid: single round, start b, head h
	for _, kind := range kinds {
		for conf := int64(1); conf <= 4; conf++ {
			if kind == "sub" && conf > 1 {
				continue
			}
			for k := int64(1); k <= 3; k++ {
				if kind == "btc" && k > 1 {
					continue
				}
				for b := int64(0); b <= 12; b += 1 {
					for h := int64(0); h <= 12; h++ {
						if !g.Thorough() && (b%3 == 1) {
							continue
						}
						g.Emit("scan", kind, itoa(int(conf)), itoa(int(k)), "1", itoa(int(b)), itoa(int(h))+":n:s")
					}
				}
			}
		}
	}
	// retry guards: exhaustive grid
	for conf := int64(0); conf <= 4; conf++ {
		for h := int64(0); h <= 9; h++ {
			for latest := int64(0); latest <= 14; latest++ {
				L, H, C := itoa(int(latest)), itoa(int(h)), itoa(int(conf))
				g.Emit("evmretrytx", L, H, C)
				g.Emit("evmretrymsg", L, H, C)
				g.Emit("btcretrymsg", L, H, C)
				if conf == 0 {
					g.Emit("subretrymsg", L, H)
					g.Emit("subretryevent", L, H)
				}
			}
		}
	}
	for _, e := range []string{"E", "F"} {
		g.Emit("evmretrytx", e, "5", "2")
		g.Emit("evmretrytx", "9", "E", "2")
		g.Emit("evmretrymsg", e, "5", "2")
		g.Emit("btcretrymsg", e, "5", "2")
		g.Emit("subretrymsg", e, "5")
		g.Emit("subretryevent", e, "5")
	}
	// large values around 2^31 / 2^62 (boundary ±1)
	for i := 0; i < g.Count(150, 3000); i++ {
		base := []int64{1 << 31, 1 << 40, 1 << 62, 1000000}[g.Intn(4)]
		conf := int64(1 + g.Intn(30))
		h := base + int64(g.Intn(1000))
		latest := h + conf + int64(g.Intn(5)) - 2
		L, H, C := itoa64(latest), itoa64(h), itoa64(conf)
		g.Emit("evmretrytx", L, H, C)
		g.Emit("evmretrymsg", L, H, C)
		g.Emit("btcretrymsg", L, H, C)
		if base < 1<<32-2000 {
			g.Emit("subretrymsg", itoa64(h+int64(g.Intn(4))-1), H)
			g.Emit("subretryevent", itoa64(h+int64(g.Intn(4))-2), H)
		}
	}
	// head histories: length ≤ 8 (thorough 12), monotone and non-monotone, with RPC errors, handler failures, store failures
	for i := 0; i < g.Count(1500, 40000); i++ {
		kind := kinds[g.Intn(3)]
		conf := int64(1 + g.Intn(4))
		k := int64(1 + g.Intn(3))
		nh := 1 + g.Intn(3)
		start := int64(g.Intn(8))
		startS := itoa64(start)
		if g.Intn(8) == 0 {
			startS = "nil"
		}
		n := 1 + g.Intn(g.Count(8, 12))
		head := start + int64(g.Intn(4))
		rs := []string{}
		for j := 0; j < n; j++ {
			switch g.Intn(10) {
			case 0:
				head -= int64(g.Intn(3)) // re-org like
				if head < 0 {
					head = 0
				}
			case 1, 2, 3:
			default:
				head += int64(g.Intn(int(k) + 2))
			}
			hs := itoa64(head)
			if g.Intn(12) == 0 {
				hs = g.Pick([]string{"E", "F"})
			}
			fail := "n"
			if g.Intn(6) == 0 {
				fail = itoa(g.Intn(nh + 1))
			}
			st := "s"
			if g.Intn(8) == 0 {
				st = "x"
			}
			rs = append(rs, hs+":"+fail+":"+st)
		}
		g.Emit("scan", kind, itoa64(conf), itoa64(k), itoa(nh), startS, strings.Join(rs, ";"))
	}
	// large heights for the scans
	for i := 0; i < g.Count(100, 2000); i++ {
		kind := kinds[g.Intn(3)]
		base := []int64{1 << 31, 1 << 40, 1 << 62}[g.Intn(3)]
		if kind == "sub" {
			base = 1<<32 - 5000
		}
		conf := int64(1 + g.Intn(20))
		k := int64(1 + g.Intn(10))
		start := base + int64(g.Intn(100))
		rs := []string{}
		for j := 0; j < 3; j++ {
			rs = append(rs, itoa64(start+k+conf+int64(j)-2+int64(g.Intn(2)))+":n:s")
		}
		g.Emit("scan", kind, itoa64(conf), itoa64(k), "1", itoa64(start), strings.Join(rs, ";"))
	}
}
