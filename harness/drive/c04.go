package main

// C04 — confirmation guards: the three scan loops (real listeners over a scripted chain, see fakes_scan.go)
// and the five retry paths (real handlers with fake chain clients).

import (
	"context"
	"errors"
	"math/big"
	"sort"
	"strings"
	"sync"
	"time"

	"github.com/ChainSafe/sygma-relayer/chains/evm/calls/consts"
	"github.com/ChainSafe/sygma-relayer/chains/evm/calls/events"
	"github.com/ChainSafe/sygma-relayer/chains/evm/listener/eventHandlers"
	btcExecutor "github.com/ChainSafe/sygma-relayer/chains/btc/executor"
	evmExecutor "github.com/ChainSafe/sygma-relayer/chains/evm/executor"
	subExecutor "github.com/ChainSafe/sygma-relayer/chains/substrate/executor"
	subListenerR "github.com/ChainSafe/sygma-relayer/chains/substrate/listener"
	"github.com/ChainSafe/sygma-relayer/relayer/retry"
	"github.com/ChainSafe/sygma-relayer/store"
	"github.com/btcsuite/btcd/btcjson"
	"github.com/btcsuite/btcd/chaincfg/chainhash"
	"github.com/centrifuge/go-substrate-rpc-client/v4/registry"
	"github.com/centrifuge/go-substrate-rpc-client/v4/registry/parser"
	"github.com/centrifuge/go-substrate-rpc-client/v4/types"
	"github.com/ethereum/go-ethereum/accounts/abi"
	"github.com/ethereum/go-ethereum/common"
	ethTypes "github.com/ethereum/go-ethereum/core/types"
	"github.com/rs/zerolog"
	"github.com/sygmaprotocol/sygma-core/relayer/message"
)

var errRPC = errors.New("rpc down")

func bigArg(s string) *big.Int {
	v, ok := new(big.Int).SetString(s, 10)
	if !ok {
		panic("bad int arg " + s)
	}
	return v
}

// ---- EVM retry by transaction hash
type c04EvmClient struct {
	latest, receipt string
	bridge          common.Address
	data            []byte
}

func (c *c04EvmClient) FetchEventLogs(ctx context.Context, a common.Address, ev string, s, e *big.Int) ([]ethTypes.Log, error) {
	return nil, nil
}
func (c *c04EvmClient) WaitAndReturnTxReceipt(h common.Hash) (*ethTypes.Receipt, error) {
	if c.receipt == "E" {
		return nil, errRPC
	}
	if c.receipt == "N" { // a receipt without a block number that still carries a Deposit log of the bridge
		lg := &ethTypes.Log{Address: c.bridge, Topics: []common.Hash{{1}, {2}}, Data: c.data}
		return &ethTypes.Receipt{BlockNumber: nil, Logs: []*ethTypes.Log{lg, lg}}, nil
	}
	lg := &ethTypes.Log{Address: c.bridge, Topics: []common.Hash{{1}, {2}}, Data: c.data, BlockNumber: bigArg(c.receipt).Uint64()}
	other := &ethTypes.Log{Address: common.Address{9}, Topics: []common.Hash{{1}, {2}}, Data: c.data}
	return &ethTypes.Receipt{BlockNumber: bigArg(c.receipt), Logs: []*ethTypes.Log{lg, other, lg}}, nil
}
func (c *c04EvmClient) LatestBlock() (*big.Int, error) {
	if c.latest == "E" || c.latest == "F" {
		return nil, errRPC
	}
	return bigArg(c.latest), nil
}
func (c *c04EvmClient) BlockByNumber(ctx context.Context, n *big.Int) (*ethTypes.Block, error) {
	return nil, errRPC
}

// ---- retry-by-height message handlers
type c04Processor struct{ calls []string }

func (p *c04Processor) ProcessDeposits(s, e *big.Int) (map[uint8][]*message.Message, error) {
	p.calls = append(p.calls, s.String()+"."+e.String())
	return map[uint8][]*message.Message{}, nil
}

type c04BtcProcessor struct{ calls []string }

func (p *c04BtcProcessor) ProcessDeposits(b *big.Int) (map[uint8][]*message.Message, error) {
	p.calls = append(p.calls, b.String()+"."+b.String())
	return map[uint8][]*message.Message{}, nil
}

type c04Latest struct{ latest string }

func (c c04Latest) LatestBlock() (*big.Int, error) {
	if c.latest == "E" || c.latest == "F" {
		return nil, errRPC
	}
	return bigArg(c.latest), nil
}

type c04BtcFetcher struct{ head string }

func (c c04BtcFetcher) GetBestBlockHash() (*chainhash.Hash, error) {
	if c.head == "E" {
		return nil, errRPC
	}
	return &chainhash.Hash{}, nil
}
func (c c04BtcFetcher) GetBlockVerboseTx(*chainhash.Hash) (*btcjson.GetBlockVerboseTxResult, error) {
	if c.head == "F" {
		return nil, errRPC
	}
	return &btcjson.GetBlockVerboseTxResult{Height: i64(c.head)}, nil
}

type c04PropStore struct{}

func (c04PropStore) StorePropStatus(s, d uint8, n uint64, st store.PropStatus) error { return nil }
func (c04PropStore) PropStatus(s, d uint8, n uint64) (store.PropStatus, error) {
	return store.MissingProp, nil
}

// ---- Substrate connection for the retry paths
type c04SubConn struct {
	hs      []*big.Int // retried heights of the range's Retry events (several events in one range); nil: just h
	fin     string     // <finalized> | E[~<best>] (GetFinalizedHead fails) | F[~<best>] (GetBlock fails); best = unfinalized head
	h       *big.Int
	fetched []string
}

func (c *c04SubConn) finKind() string { return strings.SplitN(c.fin, "~", 2)[0] }

// GetBlockLatest: the best (NOT finalized) block; never needed by code that respects finality.
func (c *c04SubConn) GetBlockLatest() (*types.SignedBlock, error) {
	f := strings.SplitN(c.fin, "~", 2)
	best := "4000000000"
	if len(f) == 2 {
		best = f[1]
	}
	return &types.SignedBlock{Block: types.Block{Header: types.Header{Number: types.BlockNumber(u64(best))}}}, nil
}
func (c *c04SubConn) GetHeaderLatest() (*types.Header, error) {
	b, _ := c.GetBlockLatest()
	return &b.Block.Header, nil
}

func (c *c04SubConn) GetFinalizedHead() (types.Hash, error) {
	if c.finKind() == "E" {
		return types.Hash{}, errRPC
	}
	return types.Hash{}, nil
}
func (c *c04SubConn) GetBlock(types.Hash) (*types.SignedBlock, error) {
	if c.finKind() == "F" {
		return nil, errRPC
	}
	return &types.SignedBlock{Block: types.Block{Header: types.Header{Number: types.BlockNumber(u64(c.fin))}}}, nil
}
func (c *c04SubConn) GetBlockHash(n uint64) (types.Hash, error) {
	c.fetched = append(c.fetched, utoa(n))
	return types.Hash{}, nil
}
func (c *c04SubConn) GetBlockEvents(types.Hash) ([]*parser.Event, error) { return nil, nil }
func (c *c04SubConn) UpdateMetatdata() error                              { return nil }
func (c *c04SubConn) FetchEvents(s, e *big.Int) ([]*parser.Event, error) {
	hs := c.hs
	if hs == nil {
		hs = []*big.Int{c.h}
	}
	out := []*parser.Event{}
	for _, h := range hs {
		out = append(out, &parser.Event{Name: "SygmaBridge.Retry", Fields: registry.DecodedFields{
			&registry.DecodedField{Name: "deposit_on_block_height", Value: types.NewU128(*h)},
			&registry.DecodedField{Name: "dest_domain_id", Value: types.NewU8(2)},
		}})
	}
	return out, nil
}

// mutable variants for the sequence op: one handler instance, the chain head changes between steps
type c04LatestVar struct{ latest *string }

func (c c04LatestVar) LatestBlock() (*big.Int, error) { return c04Latest{*c.latest}.LatestBlock() }

type c04BtcFetcherVar struct{ head *string }

func (c c04BtcFetcherVar) GetBestBlockHash() (*chainhash.Hash, error) {
	return c04BtcFetcher{*c.head}.GetBestBlockHash()
}
func (c c04BtcFetcherVar) GetBlockVerboseTx(h *chainhash.Hash) (*btcjson.GetBlockVerboseTxResult, error) {
	return c04BtcFetcher{*c.head}.GetBlockVerboseTx(h)
}

// c04V2Listener serves one RetryV2 event; everything else is empty.
type c04V2Listener struct{ ev events.RetryV2Event }

func (l c04V2Listener) FetchKeygenEvents(ctx context.Context, a common.Address, s, e *big.Int) ([]ethTypes.Log, error) {
	return nil, nil
}
func (l c04V2Listener) FetchFrostKeygenEvents(ctx context.Context, a common.Address, s, e *big.Int) ([]ethTypes.Log, error) {
	return nil, nil
}
func (l c04V2Listener) FetchRefreshEvents(ctx context.Context, a common.Address, s, e *big.Int) ([]*events.Refresh, error) {
	return nil, nil
}
func (l c04V2Listener) FetchDeposits(ctx context.Context, a common.Address, s, e *big.Int) ([]*events.Deposit, error) {
	return nil, nil
}
func (l c04V2Listener) FetchRetryV1Events(ctx context.Context, a common.Address, s, e *big.Int) ([]events.RetryV1Event, error) {
	return nil, nil
}
func (l c04V2Listener) FetchRetryV2Events(ctx context.Context, a common.Address, s, e *big.Int) ([]events.RetryV2Event, error) {
	return []events.RetryV2Event{l.ev}, nil
}
func (l c04V2Listener) FetchRetryDepositEvents(ev events.RetryV1Event, a common.Address, c *big.Int) ([]events.Deposit, error) {
	return nil, nil
}

// c04LogNode: an EVM node that answers log queries; the first len(faults) queries fail with the scripted error kinds.
type c04LogNode struct {
	faults []string
	reads  []string
}

func (n *c04LogNode) FetchEventLogs(ctx context.Context, a common.Address, ev string, s, e *big.Int) ([]ethTypes.Log, error) {
	to := "nil"
	if e != nil {
		to = e.String()
	}
	n.reads = append(n.reads, s.String()+"."+to)
	if len(n.reads) <= len(n.faults) {
		return nil, scriptedErr(n.faults[len(n.reads)-1][0])
	}
	return nil, nil
}
func (n *c04LogNode) WaitAndReturnTxReceipt(common.Hash) (*ethTypes.Receipt, error) { return nil, errRPC }
func (n *c04LogNode) LatestBlock() (*big.Int, error)                               { return nil, errRPC }
func (n *c04LogNode) BlockByNumber(context.Context, *big.Int) (*ethTypes.Block, error) {
	return nil, errRPC
}

type c04DepositHandler struct{}

func (c04DepositHandler) HandleDeposit(sourceID, destID uint8, nonce uint64, resourceID [32]byte, calldata, handlerResponse []byte, messageID string, timestamp time.Time) (*message.Message, error) {
	return message.NewMessage(sourceID, destID, nil, messageID, "t", timestamp), nil
}

// c04Gate: the head query of the retry message handlers blocks until released; the first caller is A, the second B.
type c04Gate struct {
	mu      sync.Mutex
	n       int
	heads   [2]string
	entered chan int
	release [2]chan struct{}
}

func newC04Gate(a, b string) *c04Gate {
	return &c04Gate{heads: [2]string{a, b}, entered: make(chan int, 2), release: [2]chan struct{}{make(chan struct{}), make(chan struct{})}}
}
func (g *c04Gate) enter() int {
	g.mu.Lock()
	i := g.n
	g.n++
	g.mu.Unlock()
	if i > 1 {
		i = 1
	}
	g.entered <- i
	<-g.release[i]
	return i
}

type c04GateEvm struct{ g *c04Gate }

func (c c04GateEvm) LatestBlock() (*big.Int, error) { return c04Latest{c.g.heads[c.g.enter()]}.LatestBlock() }

type c04GateBtc struct{ g *c04Gate }

func (c c04GateBtc) GetBestBlockHash() (*chainhash.Hash, error) {
	i := c.g.enter()
	if c.g.heads[i] == "E" {
		return nil, errRPC
	}
	return &chainhash.Hash{byte(i + 1)}, nil
}
func (c c04GateBtc) GetBlockVerboseTx(h *chainhash.Hash) (*btcjson.GetBlockVerboseTxResult, error) {
	return c04BtcFetcher{c.g.heads[int(h[0])-1]}.GetBlockVerboseTx(h)
}

type c04GateSub struct{ g *c04Gate }

func (c c04GateSub) GetFinalizedHead() (types.Hash, error) {
	i := c.g.enter()
	if c.g.heads[i] == "E" {
		return types.Hash{}, errRPC
	}
	return types.Hash{byte(i + 1)}, nil
}
func (c c04GateSub) GetBlock(h types.Hash) (*types.SignedBlock, error) {
	return (&c04SubConn{fin: c.g.heads[int(h[0])-1]}).GetBlock(h)
}
func (c c04GateSub) GetBlockLatest() (*types.SignedBlock, error) { return c.GetBlock(types.Hash{1}) }

// c04SyncProcessor records which heights were processed (used from two goroutines)
type c04SyncProcessor struct {
	mu    sync.Mutex
	calls []string
}

func (p *c04SyncProcessor) ProcessDeposits(s, e *big.Int) (map[uint8][]*message.Message, error) {
	p.mu.Lock()
	p.calls = append(p.calls, s.String()+"."+e.String())
	p.mu.Unlock()
	return map[uint8][]*message.Message{}, nil
}

type c04SyncBtcProcessor struct{ p *c04SyncProcessor }

func (p c04SyncBtcProcessor) ProcessDeposits(b *big.Int) (map[uint8][]*message.Message, error) {
	return p.p.ProcessDeposits(b, b)
}

func retryMsg(h string) *message.Message {
	return message.NewMessage(2, 1, retry.RetryMessageData{SourceDomainID: 1, DestinationDomainID: 2,
		BlockHeight: bigArg(h), ResourceID: [32]byte{1}}, "retry-1-2", retry.RetryMessageType, timeZero())
}

func procOut(err error, calls []string) string {
	if err != nil {
		return "err"
	}
	return "proc:" + joinOr(calls, ",")
}

func init() {
	// scan <kind> <conf> <k> <nh> <start|nil> <rounds>  =>  head/calls/store;…
	ops["C04.scan"] = func(a []string) string {
		e := newScanEnv(a[0], i64(a[1]), i64(a[2]), int(u64(a[3])), parseRounds(a[5]), newMemKV())
		e.runDirect(startArg(a[4]))
		return e.render()
	}
	// evmretrytx <latest|E> <receipt|E> <conf>  =>  ok:<deposits> | err
	ops["C04.evmretrytx"] = func(a []string) string {
		ab, _ := abi.JSON(strings.NewReader(consts.BridgeABI))
		data, err := ab.Events["Deposit"].Inputs.NonIndexed().Pack(uint8(2), [32]byte{1}, uint64(7), []byte{1, 2, 3}, []byte{})
		if err != nil {
			panic(err)
		}
		bridge := common.Address{7}
		cl := &c04EvmClient{latest: a[0], receipt: a[1], bridge: bridge, data: data}
		l := events.NewListener(cl)
		ds, err := l.FetchRetryDepositEvents(events.RetryV1Event{TxHash: "0x01"}, bridge, bigArg(a[2]))
		if err != nil {
			return "err"
		}
		return "ok:" + itoa(len(ds))
	}
	// evmretrymsg <latest|E> <h> <conf>  =>  proc:<s>.<e> | err
	ops["C04.evmretrymsg"] = func(a []string) string {
		p := &c04Processor{}
		h := evmExecutor.NewRetryMessageHandler(p, c04Latest{a[0]}, c04PropStore{}, bigArg(a[2]), make(chan []*message.Message, 4))
		_, err := h.HandleMessage(retryMsg(a[1]))
		return procOut(err, p.calls)
	}
	// btcretrymsg <head|E|F> <h> <conf>
	ops["C04.btcretrymsg"] = func(a []string) string {
		p := &c04BtcProcessor{}
		h := btcExecutor.NewRetryMessageHandler(p, c04BtcFetcher{a[0]}, bigArg(a[2]), c04PropStore{}, make(chan []*message.Message, 4))
		_, err := h.HandleMessage(retryMsg(a[1]))
		return procOut(err, p.calls)
	}
	// subretrymsg <fin|E|F> <h>
	ops["C04.subretrymsg"] = func(a []string) string {
		p := &c04Processor{}
		h := subExecutor.NewRetryMessageHandler(p, &c04SubConn{fin: a[0]}, c04PropStore{}, make(chan []*message.Message, 4))
		_, err := h.HandleMessage(retryMsg(a[1]))
		return procOut(err, p.calls)
	}
	// subretryevent <fin|E|F> <h>  =>  fetched:<h> | skip | err
	ops["C04.subretryevent"] = func(a []string) string {
		c := &c04SubConn{fin: a[0], h: bigArg(a[1])}
		rh := subListenerR.NewRetryEventHandler(zerolog.Context{}, c, nil, 1, make(chan []*message.Message, 4))
		err := rh.HandleEvents(big.NewInt(0), big.NewInt(4))
		if err != nil {
			return "err"
		}
		if len(c.fetched) == 0 {
			return "skip"
		}
		return "fetched:" + strings.Join(c.fetched, ",")
	}
	// subretryevents <fin|E|F> <h1,h2,…>  =>  fetched:<heights in order> | skip | err
	//   SEVERAL Retry events in one scanned range, each judged against the finalized head on its own
	ops["C04.subretryevents"] = func(a []string) string {
		c := &c04SubConn{fin: a[0]}
		for _, h := range items(a[1], ",") {
			c.hs = append(c.hs, bigArg(h))
		}
		rh := subListenerR.NewRetryEventHandler(zerolog.Context{}, c, nil, 1, make(chan []*message.Message, 4))
		if err := rh.HandleEvents(big.NewInt(0), big.NewInt(4)); err != nil {
			return "err"
		}
		if len(c.fetched) == 0 {
			return "skip"
		}
		return "fetched:" + strings.Join(c.fetched, ",")
	}
	// retryv2 <kind> <latest|E|F> <h> <conf>  =>  proc:<s>.<e> | err
	//   the whole retry-by-height path: a Retry(uint8,uint8,uint256,bytes32) event with height h is turned into a retry
	//   message by the REAL RetryV2EventHandler, and that message is handled by the real retry message handler of the
	//   source chain type (evm | btc | sub) in front of a recording deposit processor.
	ops["C04.retryv2"] = func(a []string) string {
		ch := make(chan []*message.Message, 4)
		ev := events.RetryV2Event{SourceDomainID: 1, DestinationDomainID: 2, BlockHeight: bigArg(a[2]), ResourceID: [32]byte{1}}
		h := eventHandlers.NewRetryV2EventHandler(zerolog.Context{}, c04V2Listener{ev}, common.Address{}, 3, ch)
		if err := h.HandleEvents(big.NewInt(10), big.NewInt(14)); err != nil {
			return "err"
		}
		var msg *message.Message
		select {
		case ms := <-ch:
			msg = ms[0]
		case <-time.After(10 * time.Second):
			return "nomsg"
		}
		if ev.BlockHeight.String() != a[2] {
			return "mutated-event"
		}
		switch a[0] {
		case "evm":
			p := &c04Processor{}
			_, err := evmExecutor.NewRetryMessageHandler(p, c04Latest{a[1]}, c04PropStore{}, bigArg(a[3]), make(chan []*message.Message, 4)).HandleMessage(msg)
			return procOut(err, p.calls)
		case "btc":
			p := &c04BtcProcessor{}
			_, err := btcExecutor.NewRetryMessageHandler(p, c04BtcFetcher{a[1]}, bigArg(a[3]), c04PropStore{}, make(chan []*message.Message, 4)).HandleMessage(msg)
			return procOut(err, p.calls)
		case "sub":
			p := &c04Processor{}
			_, err := subExecutor.NewRetryMessageHandler(p, &c04SubConn{fin: a[1]}, c04PropStore{}, make(chan []*message.Message, 4)).HandleMessage(msg)
			return procOut(err, p.calls)
		}
		return "NOOP"
	}
	// evmretryreal <latest> <h> <conf> <faults>  =>  reads=<from.to,…>;<proc:<n msgs>|err>
	//   retry by height over the REAL stack: RetryMessageHandler -> DepositEventHandler -> events.Listener -> node fake.
	//   faults: ','-separated error kinds (g t w u n c, see scriptedErr) for the first node reads, '-' = none. The node
	//   holds a deposit in every block; `reads` are the log queries the node received (to = nil is "up to the head").
	ops["C04.evmretryreal"] = func(a []string) string {
		node := &c04LogNode{faults: items(a[3], ",")}
		el := events.NewListener(node)
		ch := make(chan []*message.Message, 16)
		dh := eventHandlers.NewDepositEventHandler(el, c04DepositHandler{}, common.Address{7}, 1, ch)
		rh := evmExecutor.NewRetryMessageHandler(dh, c04Latest{a[0]}, c04PropStore{}, bigArg(a[2]), ch)
		_, err := rh.HandleMessage(retryMsg(a[1]))
		res := "err"
		if err == nil {
			n := 0
			select {
			case ms := <-ch:
				n = len(ms)
			default:
			}
			res = "proc:" + itoa(n)
		}
		return "reads=" + joinOr(node.reads, ",") + ";" + res
	}
	// retrypair <kind> <latestA> <hA> <latestB> <hB> <conf> <order AB|BA>  =>  A:<ok|err>#B:<ok|err>#proc:<s.e,…>
	//   TWO retry requests handled concurrently by the ONE retry message handler of the chain (it is shared by all
	//   deliveries). Sequencing is deterministic: A runs up to its head query and blocks there, then B does, then they
	//   are released in <order>, each running to completion before the other is released.
	ops["C04.retrypair"] = func(a []string) string {
		g := newC04Gate(a[1], a[3])
		sp := &c04SyncProcessor{}
		ch := make(chan []*message.Message, 8)
		var handle func(*message.Message) error
		switch a[0] {
		case "evm":
			h := evmExecutor.NewRetryMessageHandler(sp, c04GateEvm{g}, c04PropStore{}, bigArg(a[5]), ch)
			handle = func(m *message.Message) error { _, err := h.HandleMessage(m); return err }
		case "btc":
			h := btcExecutor.NewRetryMessageHandler(c04SyncBtcProcessor{sp}, c04GateBtc{g}, bigArg(a[5]), c04PropStore{}, ch)
			handle = func(m *message.Message) error { _, err := h.HandleMessage(m); return err }
		case "sub":
			h := subExecutor.NewRetryMessageHandler(sp, c04GateSub{g}, c04PropStore{}, ch)
			handle = func(m *message.Message) error { _, err := h.HandleMessage(m); return err }
		}
		res := [2]string{"?", "?"}
		done := make(chan int, 2)
		start := func(i int, h string) {
			go func() {
				if handle(retryMsg(h)) != nil {
					res[i] = "err"
				} else {
					res[i] = "ok"
				}
				done <- i
			}()
			<-g.entered // it is now blocked inside its head query
		}
		start(0, a[2])
		start(1, a[4])
		for _, c := range a[6] {
			close(g.release[int(c-'A')])
			<-done
		}
		sort.Strings(sp.calls)
		return "A:" + res[0] + "#B:" + res[1] + "#proc:" + joinOr(sp.calls, ",")
	}
	// seq <kind> <conf> <k> <steps>  =>  outputs of the steps, '|'-separated.
	// All steps run against ONE set of objects wired like app.Run wires them: the chain config's BlockConfirmations
	// *big.Int is shared by the listener, the retry message handler and (EVM) the retry-by-tx path; the retry handler is
	// one instance for the whole sequence.   steps (';'): r,<latest>,<h> retry by height | t,<latest>,<receipt> retry by
	// tx hash (evm) | s,<head>,<start> one iteration of the scan loop (a listener built from the same config)
	ops["C04.seq"] = func(a []string) string {
		kind, k := a[0], i64(a[2])
		cp := bigArg(a[1]) // the shared confirmations value
		head := ""
		pb, pe := &c04BtcProcessor{}, &c04Processor{}
		btcH := btcExecutor.NewRetryMessageHandler(pb, c04BtcFetcherVar{&head}, cp, c04PropStore{}, make(chan []*message.Message, 4))
		evmH := evmExecutor.NewRetryMessageHandler(pe, c04LatestVar{&head}, c04PropStore{}, cp, make(chan []*message.Message, 4))
		ab, _ := abi.JSON(strings.NewReader(consts.BridgeABI))
		data, err := ab.Events["Deposit"].Inputs.NonIndexed().Pack(uint8(2), [32]byte{1}, uint64(7), []byte{1, 2, 3}, []byte{})
		if err != nil {
			panic(err)
		}
		// ONE events.Listener serves every retry-by-tx step of the sequence (like the listener object shared by the
		// handlers in app.Run); the chain it reads changes between the steps
		txBridge := common.Address{7}
		txClient := &c04EvmClient{bridge: txBridge, data: data}
		txListener := events.NewListener(txClient)
		out := []string{}
		for _, st := range items(a[3], ";") {
			f := strings.Split(st, ",")
			switch f[0] {
			case "r":
				head = f[1]
				if kind == "btc" {
					pb.calls = nil
					_, err := btcH.HandleMessage(retryMsg(f[2]))
					out = append(out, procOut(err, pb.calls))
				} else {
					pe.calls = nil
					_, err := evmH.HandleMessage(retryMsg(f[2]))
					out = append(out, procOut(err, pe.calls))
				}
			case "t":
				txClient.latest, txClient.receipt = f[1], f[2]
				ds, err := txListener.FetchRetryDepositEvents(events.RetryV1Event{TxHash: "0x01"}, txBridge, cp)
				if err != nil {
					out = append(out, "err")
				} else {
					out = append(out, "ok:"+itoa(len(ds)))
				}
			case "s":
				e := newScanEnv(kind, 0, k, 1, parseRounds(f[1]+":n:s"), newMemKV())
				e.confPtr = cp
				e.runDirect(startArg(f[2]))
				out = append(out, e.render())
			}
		}
		return strings.Join(out, "|")
	}
	gens["C04"] = genC04
}

func c04pow2(n uint) *big.Int { return new(big.Int).Lsh(big.NewInt(1), n) }
func bigAdd(a *big.Int, d int64) string {
	return new(big.Int).Add(a, big.NewInt(d)).String()
}

func genC04(g *G) {
	kinds := []string{"btc", "evm", "sub"}
	// exhaustive guard grid: single round, start b, head h
	for _, kind := range kinds {
		for conf := int64(1); conf <= 4; conf++ {
			if kind == "sub" && conf > 1 {
				continue
			}
			for k := int64(1); k <= 3; k++ {
				if kind == "btc" && k > 1 {
					continue
				}
				for b := int64(0); b <= 12; b += 1 {
					for h := int64(0); h <= 12; h++ {
						if !g.Thorough() && (b%3 == 1) {
							continue
						}
						g.Emit("scan", kind, itoa(int(conf)), itoa(int(k)), "1", itoa(int(b)), itoa(int(h))+":n:s")
					}
				}
			}
		}
	}
	// BTC: the node reports 0..3 confirmations for the best block it hands out (the tip moved on between
	// GetBestBlockHash and GetBlockVerboseTx); heights around the boundary head - block == conf
	for conf := int64(1); conf <= 3; conf++ {
		for c := 0; c <= 3; c++ {
			for d := int64(-2); d <= 2; d++ {
				b := int64(5)
				g.Emit("scan", "btc", itoa64(conf), "1", "1", itoa64(b), itoa64(b+conf+d)+"~"+itoa(c)+":n:s;"+itoa64(b+conf+d+1)+"~"+itoa(c)+":n:s")
			}
		}
	}
	// BTC scan with the REAL deposit handler reading a chain whose unconfirmed blocks are re-organised between two scan
	// steps: the block handed on at a height must be the one on the active chain when that height is confirmed
	for _, sw := range []string{"0,0,1,1,1", "0,1,1,1,1", "0,1,2,2,2", "0,1,0,1,1", "0,0,0,1,1"} {
		for conf := int64(1); conf <= 3; conf++ {
			b := strings.Split(sw, ",")
			rs := []string{}
			for i, br := range b {
				rs = append(rs, itoa64(5+conf+int64(i))+"~1~"+br+":n:s")
			}
			g.Emit("scan", "btc+", itoa64(conf), "1", "1", "5", strings.Join(rs, ";"))
		}
	}
	for i := 0; i < g.Count(150, 3000); i++ {
		conf := int64(1 + g.Intn(3))
		start := int64(g.Intn(6))
		head := start + conf - 1 + int64(g.Intn(2))
		br := 0
		rs := []string{}
		for j := 0; j < 2+g.Intn(6); j++ {
			head += int64(g.Intn(3))
			if g.Intn(3) == 0 {
				br = (br + 1) % 3
			}
			f := "n"
			if g.Intn(6) == 0 {
				f = "0" + g.Pick([]string{"a", "b"}) + g.Pick([]string{"g", "t", "w", "u", "n", "c"})
			}
			rs = append(rs, itoa64(head)+"~"+itoa(g.Intn(3))+"~"+itoa(br)+":"+f+":s")
		}
		g.Emit("scan", "btc+", itoa64(conf), "1", "1", itoa64(start), strings.Join(rs, ";"))
	}
	// retry guards: exhaustive grid
	for conf := int64(0); conf <= 4; conf++ {
		for h := int64(0); h <= 9; h++ {
			for latest := int64(0); latest <= 14; latest++ {
				L, H, C := itoa(int(latest)), itoa(int(h)), itoa(int(conf))
				g.Emit("evmretrytx", L, H, C)
				g.Emit("evmretrymsg", L, H, C)
				g.Emit("btcretrymsg", L, H, C)
				if conf == 0 {
					g.Emit("subretrymsg", L, H)
					g.Emit("subretryevent", L, H)
				}
			}
		}
	}
	// receipts without a block number; finalized-head RPC errors while the best (unfinalized) head is above the height
	for _, L := range []string{"0", "5", "100", "E"} {
		for _, C := range []string{"0", "2"} {
			g.Emit("evmretrytx", L, "N", C)
		}
	}
	for _, e := range []string{"E", "F"} {
		for _, best := range []string{"3", "5", "6", "7", "100"} {
			g.Emit("subretrymsg", e+"~"+best, "5")
			g.Emit("subretryevent", e+"~"+best, "5")
		}
	}
	for _, e := range []string{"E", "F"} {
		g.Emit("evmretrytx", e, "5", "2")
		g.Emit("evmretrytx", "9", "E", "2")
		g.Emit("evmretrymsg", e, "5", "2")
		g.Emit("btcretrymsg", e, "5", "2")
		g.Emit("subretrymsg", e, "5")
		g.Emit("subretryevent", e, "5")
	}
	// large values around 2^31 / 2^62 (boundary ±1)
	for i := 0; i < g.Count(150, 3000); i++ {
		base := []int64{1 << 31, 1 << 40, 1 << 62, 1000000}[g.Intn(4)]
		conf := int64(1 + g.Intn(30))
		h := base + int64(g.Intn(1000))
		latest := h + conf + int64(g.Intn(5)) - 2
		L, H, C := itoa64(latest), itoa64(h), itoa64(conf)
		g.Emit("evmretrytx", L, H, C)
		g.Emit("evmretrymsg", L, H, C)
		g.Emit("btcretrymsg", L, H, C)
		if base < 1<<32-2000 {
			g.Emit("subretrymsg", itoa64(h+int64(g.Intn(4))-1), H)
			g.Emit("subretryevent", itoa64(h+int64(g.Intn(4))-2), H)
		}
	}
	// heights and heads that do not fit machine integers: 2^63-1, 2^63, 2^64-1, 2^64, 2^64+k, 2^65+k, 2^127+k.
	// Every operand that is a *big.Int in the source takes them (BTC heads are int64, Substrate heads uint32 by type).
	bases := []*big.Int{new(big.Int).Sub(c04pow2(63), big.NewInt(1)), c04pow2(63), new(big.Int).Sub(c04pow2(64), big.NewInt(1)), c04pow2(64), c04pow2(65), c04pow2(127)}
	for _, b := range bases {
		for _, conf := range []int64{0, 2, 5} {
			C := itoa64(conf)
			for d := int64(0); d <= 100; d += 19 {
				H := bigAdd(b, d)
				// small head against a huge height (low bits of the height at or below the head): must be refused
				for _, L := range []string{"100", "101", itoa64(95 + conf), "4294967295"} {
					g.Emit("evmretrytx", L, H, C)
					g.Emit("evmretrymsg", L, H, C)
					g.Emit("btcretrymsg", L, H, C)
					g.Emit("retryv2", "evm", L, H, C)
					g.Emit("retryv2", "btc", L, H, C)
					if conf == 0 {
						g.Emit("retryv2", "sub", L, H, C)
						g.Emit("subretrymsg", L, H)
						g.Emit("subretryevent", L, H)
					}
				}
				// huge head around the boundary of a huge height (EVM: both are big.Int), and huge head vs small height
				for dl := int64(-1); dl <= 2; dl++ {
					L := bigAdd(b, d+conf+dl)
					g.Emit("evmretrytx", L, H, C)
					g.Emit("evmretrymsg", L, H, C)
				}
				g.Emit("evmretrytx", H, itoa64(d), C)
				g.Emit("evmretrymsg", H, itoa64(d), C)
				if conf > 0 {
					// scans: EVM head and start are big.Int; BTC start is big.Int
					g.Emit("scan", "evm", C, "3", "1", H, bigAdd(b, d+3+conf-1)+":n:s;"+bigAdd(b, d+3+conf)+":n:s")
					g.Emit("scan", "evm", C, "3", "1", itoa64(d), H+":n:s;"+H+":n:s")
					g.Emit("scan", "btc", C, "1", "1", H, "9223372036854775807:n:s")
					g.Emit("scan", "evm", C, "3", "1", H, "100:n:s")
				}
			}
		}
	}
	// heights whose low 64 bits read as a NEGATIVE int64 (2^64-1 … 2^64-4, 2^63 …): through the whole retry-by-height path
	for _, conf := range []int64{0, 2} {
		for _, H := range []string{"18446744073709551615", "18446744073709551614", "18446744073709551613", "18446744073709551612",
			"9223372036854775808", "9223372036854775807", "36893488147419103230", "340282366920938463463374607431768211454"} {
			for _, L := range []string{"100", "0", "9223372036854775807"} {
				for _, kind := range []string{"evm", "btc", "sub"} {
					if kind == "sub" && (conf != 0 || L != "100") {
						continue
					}
					g.Emit("retryv2", kind, L, H, itoa64(conf))
				}
			}
		}
	}
	for conf := int64(0); conf <= 3; conf++ {
		for h := int64(0); h <= 6; h++ {
			for latest := int64(0); latest <= 10; latest++ {
				g.Emit("retryv2", "evm", itoa64(latest), itoa64(h), itoa64(conf))
				g.Emit("retryv2", "btc", itoa64(latest), itoa64(h), itoa64(conf))
				if conf == 0 {
					g.Emit("retryv2", "sub", itoa64(latest), itoa64(h), "0")
				}
			}
		}
	}
	// retry by height over the real EVM stack with every error kind on the first one or two node reads
	for _, fl := range []string{"-", "g", "t", "w", "u", "n", "c", "u,u", "n,g", "t,t,t", "u,n,u"} {
		for _, lh := range [][2]string{{"13", "10"}, {"12", "10"}, {"200", "150"}, {"150", "150"}, {"18446744073709551716", "18446744073709551711"}} {
			g.Emit("evmretryreal", lh[0], lh[1], "2", fl)
		}
	}
	// retry-by-tx requests one after the other on ONE events.Listener: an accepted one at block N, then one at N+d with a
	// head around ITS boundary, all small d (inside and outside (N, N+conf])
	for conf := int64(1); conf <= 3; conf++ {
		for d := int64(-2); d <= conf+2; d++ {
			for dl := int64(-1); dl <= 1; dl++ {
				n := int64(20)
				first := "t," + itoa64(n+conf+1) + "," + itoa64(n)
				second := "t," + itoa64(n+d+conf+dl) + "," + itoa64(n+d)
				g.Emit("seq", "evm", itoa64(conf), "2", first+";"+second)
				g.Emit("seq", "evm", itoa64(conf), "2", first+";"+second+";"+second+";r,"+itoa64(n+d+conf+dl)+","+itoa64(n+d))
			}
		}
	}
	// several Substrate retry events in one range: every combination of heights around the finalized head, any order
	for _, fin := range []int64{5, 100} {
		hs := []int64{fin - 5, fin - 1, fin, fin + 1, fin + 6}
		for _, x := range hs {
			for _, y := range hs {
				g.Emit("subretryevents", itoa64(fin), itoa64(x)+","+itoa64(y))
				for _, z := range []int64{fin - 2, fin + 1} {
					g.Emit("subretryevents", itoa64(fin), itoa64(x)+","+itoa64(y)+","+itoa64(z))
				}
			}
		}
	}
	g.Emit("subretryevents", "100", "18446744073709551711,95")
	g.Emit("subretryevents", "100", "95,18446744073709551711")
	g.Emit("subretryevents", "E", "5,6")
	// two retries in flight on the one shared handler: all boundary combinations, both release orders
	for _, kind := range []string{"evm", "btc", "sub"} {
		for _, order := range []string{"AB", "BA"} {
			for _, hA := range []int64{5, 20} {
				for _, hB := range []int64{5, 20, 40} {
					for dA := int64(-1); dA <= 1; dA++ {
						for dB := int64(-1); dB <= 1; dB++ {
							conf := int64(2)
							if kind == "sub" {
								conf = 0
							}
							g.Emit("retrypair", kind, itoa64(hA+conf+dA), itoa64(hA), itoa64(hB+conf+dB), itoa64(hB), itoa64(conf), order)
						}
					}
				}
			}
		}
	}
	// sequences on shared objects (the confirmations *big.Int is shared like in app.Run): retries of various heights,
	// accepted and refused, interleaved with scan iterations and retries by tx hash
	for i := 0; i < g.Count(400, 8000); i++ {
		kind := []string{"btc", "evm"}[g.Intn(2)]
		conf := int64(1 + g.Intn(4))
		k := int64(1 + g.Intn(3))
		n := 2 + g.Intn(5)
		steps := []string{}
		for j := 0; j < n; j++ {
			h := int64(g.Intn(40))
			switch c := g.Intn(5); {
			case c <= 1:
				steps = append(steps, "r,"+itoa64(h+conf+int64(g.Intn(5))-1)+","+itoa64(h))
			case c == 2 && kind == "evm":
				steps = append(steps, "t,"+itoa64(h+conf+int64(g.Intn(5))-1)+","+itoa64(h))
			default:
				span := k
				if kind == "btc" {
					span = 1
				}
				steps = append(steps, "s,"+itoa64(h+span-1+conf+int64(g.Intn(4))-1)+","+itoa64(h))
			}
		}
		g.Emit("seq", kind, itoa64(conf), itoa64(k), strings.Join(steps, ";"))
	}
	// head histories: length ≤ 8 (thorough 12), monotone and non-monotone, with RPC errors, handler failures, store failures
	for i := 0; i < g.Count(1500, 40000); i++ {
		kind := kinds[g.Intn(3)]
		conf := int64(1 + g.Intn(4))
		k := int64(1 + g.Intn(3))
		nh := 1 + g.Intn(3)
		start := int64(g.Intn(8))
		startS := itoa64(start)
		if g.Intn(8) == 0 {
			startS = "nil"
		}
		n := 1 + g.Intn(g.Count(8, 12))
		head := start + int64(g.Intn(4))
		rs := []string{}
		for j := 0; j < n; j++ {
			switch g.Intn(10) {
			case 0:
				head -= int64(g.Intn(3)) // re-org like
				if head < 0 {
					head = 0
				}
			case 1, 2, 3:
			default:
				head += int64(g.Intn(int(k) + 2))
			}
			hs := itoa64(head)
			if kind == "btc" && g.Intn(3) == 0 {
				hs += "~" + itoa(g.Intn(4))
			}
			if g.Intn(12) == 0 {
				hs = g.Pick([]string{"E", "F"})
			}
			fail := "n"
			if g.Intn(6) == 0 {
				fail = itoa(g.Intn(nh + 1))
			}
			st := "s"
			if g.Intn(8) == 0 {
				st = "x"
			}
			rs = append(rs, hs+":"+fail+":"+st)
		}
		g.Emit("scan", kind, itoa64(conf), itoa64(k), itoa(nh), startS, strings.Join(rs, ";"))
	}
	// large heights for the scans
	for i := 0; i < g.Count(100, 2000); i++ {
		kind := kinds[g.Intn(3)]
		base := []int64{1 << 31, 1 << 40, 1 << 62}[g.Intn(3)]
		if kind == "sub" {
			base = 1<<32 - 5000
		}
		conf := int64(1 + g.Intn(20))
		k := int64(1 + g.Intn(10))
		start := base + int64(g.Intn(100))
		rs := []string{}
		for j := 0; j < 3; j++ {
			rs = append(rs, itoa64(start+k+conf+int64(j)-2+int64(g.Intn(2)))+":n:s")
		}
		g.Emit("scan", kind, itoa64(conf), itoa64(k), "1", itoa64(start), strings.Join(rs, ";"))
	}
}
