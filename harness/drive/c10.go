package main

// C10 — key-share lock balance. REAL process objects of the six kinds (ECDSA/FROST × keygen, resharing, signing)
// are driven through the REAL tss.Coordinator.Execute over the fake in-process network of fakes_c09.go, with the
// REAL keyshare stores behind a counting wrapper (an unlock of an unlocked mutex — fatal in production — is recorded
// instead of executed).

import (
	"context"
	"encoding/hex"
	"encoding/json"
	"fmt"
	"io"
	"math/big"
	"os"
	"runtime"
	"strings"
	"sync"
	"time"

	"github.com/ChainSafe/sygma-relayer/comm"
	"github.com/ChainSafe/sygma-relayer/comm/elector"
	"github.com/ChainSafe/sygma-relayer/config/relayer"
	"github.com/ChainSafe/sygma-relayer/keyshare"
	"github.com/ChainSafe/sygma-relayer/tss"
	ekeygen "github.com/ChainSafe/sygma-relayer/tss/ecdsa/keygen"
	eresharing "github.com/ChainSafe/sygma-relayer/tss/ecdsa/resharing"
	esigning "github.com/ChainSafe/sygma-relayer/tss/ecdsa/signing"
	fkeygen "github.com/ChainSafe/sygma-relayer/tss/frost/keygen"
	fresharing "github.com/ChainSafe/sygma-relayer/tss/frost/resharing"
	fsigning "github.com/ChainSafe/sygma-relayer/tss/frost/signing"
	"github.com/ChainSafe/sygma-relayer/tss/message"
	"github.com/ChainSafe/sygma-relayer/tss/util"
	"github.com/libp2p/go-libp2p/core/peer"
)

// ---------------------------------------------------------------- counting lock

type lockCounter struct {
	mu                         sync.Mutex
	held                       int
	locks, unlocks, fatal      int
	readsLocked, readsUnlocked int
	writesLocked, writesUnl    int
	runProbe                   string // held? when the protocol run was observed: "1" | "0" | "-"
	waiting                    int    // callers inside LockKeyshare that have not got the lock yet
}

func (c *lockCounter) wait(d int) {
	c.mu.Lock()
	c.waiting += d
	c.mu.Unlock()
}
func (c *lockCounter) waitingNow() int {
	c.mu.Lock()
	defer c.mu.Unlock()
	return c.waiting
}
func (c *lockCounter) locksNow() int {
	c.mu.Lock()
	defer c.mu.Unlock()
	return c.locks
}

func (c *lockCounter) locked() {
	c.mu.Lock()
	c.held++
	c.locks++
	c.mu.Unlock()
}

// tryUnlock reports whether the real mutex may be unlocked (false = it is not locked: fatal in production).
func (c *lockCounter) tryUnlock() bool {
	c.mu.Lock()
	defer c.mu.Unlock()
	c.unlocks++
	if c.held == 0 {
		c.fatal++
		return false
	}
	c.held--
	return true
}
func (c *lockCounter) access(write bool) {
	c.mu.Lock()
	h := c.held > 0
	switch {
	case write && h:
		c.writesLocked++
	case write:
		c.writesUnl++
	case h:
		c.readsLocked++
	default:
		c.readsUnlocked++
	}
	c.mu.Unlock()
}
func (c *lockCounter) heldNow() int {
	c.mu.Lock()
	defer c.mu.Unlock()
	return c.held
}
func (c *lockCounter) String() string {
	c.mu.Lock()
	defer c.mu.Unlock()
	rp := c.runProbe
	if rp == "" {
		rp = "-"
	}
	return fmt.Sprintf("L=%d,U=%d,F=%d,H=%d,R=%s,A=%d/%d", c.locks, c.unlocks, c.fatal, c.held, rp,
		c.readsLocked+c.writesLocked, c.readsUnlocked+c.writesUnl)
}

type cntECDSA struct {
	inner *keyshare.ECDSAKeyshareStore
	c     *lockCounter
}

func (s *cntECDSA) LockKeyshare() { s.c.wait(1); s.inner.LockKeyshare(); s.c.wait(-1); s.c.locked() }
func (s *cntECDSA) UnlockKeyshare() {
	if s.c.tryUnlock() {
		s.inner.UnlockKeyshare()
	}
}
func (s *cntECDSA) GetKeyshare() (keyshare.ECDSAKeyshare, error) {
	s.c.access(false)
	return s.inner.GetKeyshare()
}
func (s *cntECDSA) StoreKeyshare(k keyshare.ECDSAKeyshare) error {
	s.c.access(true)
	return s.inner.StoreKeyshare(k)
}

type cntFrost struct {
	inner *keyshare.FrostKeyshareStore
	c     *lockCounter
}

func (s *cntFrost) LockKeyshare() { s.c.wait(1); s.inner.LockKeyshare(); s.c.wait(-1); s.c.locked() }
func (s *cntFrost) UnlockKeyshare() {
	if s.c.tryUnlock() {
		s.inner.UnlockKeyshare()
	}
}
func (s *cntFrost) GetKeyshare() (keyshare.FrostKeyshare, error) {
	s.c.access(false)
	return s.inner.GetKeyshare()
}
func (s *cntFrost) StoreKeyshare(k keyshare.FrostKeyshare) error {
	s.c.access(true)
	return s.inner.StoreKeyshare(k)
}

// ---------------------------------------------------------------- one relayer of the in-process network

type c10node struct {
	host   *fakeHost
	ledger *ledgerComm
	coord  *tss.Coordinator
	ec     *cntECDSA
	fr     *cntFrost
}

type c10world struct {
	net   *fakeNet
	ids   []peer.ID
	nodes []*c10node
	dir   string
}

// newC10World builds `n` relayers (1 = only the relayer under test; the others exist as hosts that can send).
// withShare: copy the fixture key shares into the relayer's private temp dir (otherwise the stores are empty).
func newC10World(n int, withShare bool) *c10world {
	ids := fixturePeers()
	// private scratch directory of this world (key-share files), under the framework's work/ directory
	base := verifRoot() + "/work"
	_ = os.MkdirAll(base, 0o755)
	dir, err := os.MkdirTemp(base, fmt.Sprintf("tmp-c10-%d-", os.Getpid()))
	if err != nil {
		panic(err)
	}
	w := &c10world{net: newFakeNet(), ids: ids, dir: dir}
	for i := 0; i < 3; i++ {
		h := w.net.addHost(ids[i], ids)
		nd := &c10node{host: h, ledger: newLedgerComm(h)}
		if i < n {
			ep, fp := fmt.Sprintf("%s/%d.keyshare", dir, i), fmt.Sprintf("%s/%d-frost.keyshare", dir, i)
			if withShare {
				copyFile(fmt.Sprintf("%s/tss/test/keyshares/%d.keyshare", repoRoot(), i), ep)
				copyFile(fmt.Sprintf("%s/tss/test/keyshares/%d-frost.keyshare", repoRoot(), i), fp)
			}
			nd.ec = &cntECDSA{inner: keyshare.NewECDSAKeyshareStore(ep), c: &lockCounter{}}
			nd.fr = &cntFrost{inner: keyshare.NewFrostKeyshareStore(fp), c: &lockCounter{}}
			nd.coord = tss.NewCoordinator(h, nd.ledger, elector.NewCoordinatorElectorFactory(h, relayer.BullyConfig{ElectionWaitTime: 3 * time.Millisecond, BullyWaitTime: 30 * time.Millisecond}))
			nd.coord.CoordinatorTimeout, nd.coord.TssTimeout, nd.coord.InitiatePeriod = time.Hour, time.Hour, time.Hour
		}
		w.nodes = append(w.nodes, nd)
	}
	return w
}
func (w *c10world) close() { os.RemoveAll(w.dir) }

func copyFile(a, b string) {
	in, err := os.Open(a)
	if err != nil {
		panic(err)
	}
	defer in.Close()
	out, err := os.Create(b)
	if err != nil {
		panic(err)
	}
	defer out.Close()
	if _, err := io.Copy(out, in); err != nil {
		panic(err)
	}
}

// sidWithCoordinator finds a hyphen-free session id whose static coordinator (among all three peers) is ids[want].
func (w *c10world) sidWithCoordinator(prefix string, want int) string {
	for i := 0; i < 1000; i++ {
		sid := prefix + itoa(i)
		if util.SortPeersForSession(w.ids, sid)[0].ID == w.ids[want] {
			return sid
		}
	}
	panic("no session id found")
}

const c10tweak = "c82aa6ae534bb28aaafeb3660c31d6a52e187d8f05d48bb6bdb9b733a9b42212"

// mk constructs a real process of `kind` on node `nd`; ok=false when the constructor refused.
func (w *c10world) mk(kind string, nd *c10node, sid string, threshold int) (tss.TssProcess, *lockCounter, bool) {
	switch kind {
	case "ekeygen":
		return ekeygen.NewKeygen(sid, threshold, nd.host, nd.ledger, nd.ec), nd.ec.c, true
	case "fkeygen":
		return fkeygen.NewKeygen(sid, threshold, nd.host, nd.ledger, nd.fr), nd.fr.c, true
	case "eresharing":
		return eresharing.NewResharing(sid, threshold, nd.host, nd.ledger, nd.ec), nd.ec.c, true
	case "fresharing":
		return fresharing.NewResharing(sid, threshold, nd.host, nd.ledger, nd.fr), nd.fr.c, true
	case "esigning":
		p, err := esigning.NewSigning(big.NewInt(0x4d657373), sid, sid, nd.host, nd.ledger, nd.ec)
		if err != nil {
			return nil, nd.ec.c, false
		}
		return p, nd.ec.c, true
	case "fsigning":
		msg, _ := hex.DecodeString("4d657373616765")
		p, err := fsigning.NewSigning(1, msg, c10tweak, sid, sid, nd.host, nd.ledger, nd.fr)
		if err != nil {
			return nil, nd.fr.c, false
		}
		return p, nd.fr.c, true
	}
	panic("unknown kind " + kind)
}

func c10msgType(kind string) comm.MessageType {
	switch {
	case strings.HasSuffix(kind, "keygen"):
		return comm.TssKeyGenMsg
	case strings.HasSuffix(kind, "resharing"):
		return comm.TssReshareMsg
	}
	return comm.TssKeySignMsg
}

// C10.cell <kind> <outcome>   the relayer under test is a participant of a session coordinated by relayer 1
//
//	outcomes: refused | silent | gto | cancel | rejected | failed | noshare (constructor refuses: signing without a share)
//	=> L=<locks>,U=<unlocks>,F=<unlocks of an unlocked mutex>,H=<held at exit>,R=<held while the protocol ran: 1|0|->,A=<share accesses under lock>/<without>
func c10cell(a []string) string { return c10cached("cell", c10cellRun, a) }

func c10cached(op string, f Op, a []string) string {
	key := op + " " + strings.Join(a, " ")
	c10mu.Lock()
	ch := c10pre[key]
	delete(c10pre, key)
	c10mu.Unlock()
	if ch != nil {
		return <-ch
	}
	return f(a)
}

var (
	c10mu  sync.Mutex
	c10pre = map[string]chan string{}
)

// c10prefetch starts a slow cell in the background (the FROST processes sleep 10 s before they can return);
// the generator later collects the result through the ordinary op.
func c10prefetch(op string, f Op, a ...string) {
	ch := make(chan string, 1)
	c10mu.Lock()
	c10pre[op+" "+strings.Join(a, " ")] = ch
	c10mu.Unlock()
	go func() { ch <- longRun(f, a, 4*time.Minute) }()
}

// longRun is safeRun with its own time limit (protocol runs with safe-prime generation or FROST's 10 s start-up
// pause do not fit the driver's 20 s op limit; they are started ahead by the generator and collected by the op).
func longRun(f Op, args []string, d time.Duration) string {
	done := make(chan string, 1)
	go func() {
		defer func() {
			if r := recover(); r != nil {
				done <- "panic"
			}
		}()
		done <- f(args)
	}()
	select {
	case r := <-done:
		return r
	case <-time.After(d):
		return "hang"
	}
}

func c10cellRun(a []string) string {
	w := newC10World(2, a[1] != "noshare")
	defer w.close()
	return w.cell(a[0], a[1])
}

// C10.seq <kind:outcome,…>   cells one after another on ONE relayer (one ECDSA store, one FROST store, one
//
//	coordinator, the same session id re-used) => the per-cell outputs joined by '|', counters cumulative per store
func c10seq(a []string) string {
	w := newC10World(2, true)
	defer w.close()
	outs := []string{}
	for _, it := range items(a[0], ",") {
		f := strings.Split(it, ":")
		r := w.cell(f[0], f[1])
		outs = append(outs, r)
		if strings.HasPrefix(r, "hang") {
			break
		}
	}
	return strings.Join(outs, "|")
}

// cell runs one session of a real process of `kind` with outcome `oc` on relayer 0 of this world.
func (w *c10world) cell(kind, oc string) string {
	nd := w.nodes[0]
	for _, c := range []*lockCounter{nd.ec.c, nd.fr.c} {
		c.mu.Lock()
		c.runProbe = ""
		c.mu.Unlock()
	}
	sid := w.sidWithCoordinator("s", 1)
	// (handleError's fail-watch of a retryable process that just returned releases its subscription a moment after
	// Execute has returned: let the previous cell settle before counting)
	waitUntil(2*time.Second, func() bool { return nd.ledger.inner.VerifLiveSubscriptions(sid) == 0 })
	nd.coord.CoordinatorTimeout, nd.coord.TssTimeout, nd.coord.InitiatePeriod = time.Hour, time.Hour, time.Hour
	live0 := nd.ledger.inner.VerifLiveSubscriptions(sid)
	sub0, _, _ := nd.ledger.counts(sid)
	bc0 := nd.ledger.bcasts(sid, c10msgType(kind))
	threshold := 1
	if oc == "rejected" && strings.HasSuffix(kind, "keygen") {
		threshold = 7 // more than the three parties can satisfy
	}
	// refusal: a session with this id is already pending (held by a process that uses no key share)
	var blocker *recProc
	blockRet := make(chan error, 1)
	bctx, bcancel := context.WithCancel(context.Background())
	defer bcancel()
	if oc == "refused" {
		blocker = newRecProc(sid, []peer.ID{w.ids[1]}, nd.ledger, newSidStats())
		go func() { blockRet <- nd.coord.Execute(bctx, []tss.TssProcess{blocker}, make(chan interface{}, 1)) }()
		// (pending AND standing: its three wait-loop subscriptions exist, so nothing of it is counted later)
		if !waitUntil(c9wait, func() bool {
			return nd.coord.VerifPending(sid) && nd.ledger.inner.VerifLiveSubscriptions(sid) >= live0+3
		}) {
			return "hang"
		}
	}
	if oc == "busy" {
		return w.busyCell(kind, sid)
	}
	proc, cnt, ok := w.mk(kind, nd, sid, threshold)
	if !ok {
		return "ctorerr;" + cnt.String()
	}
	switch oc {
	case "silent":
		nd.coord.CoordinatorTimeout = 25 * time.Millisecond
	case "gto":
		nd.coord.TssTimeout = 25 * time.Millisecond
	}
	ctx, cancel := context.WithCancel(context.Background())
	defer cancel()
	ret := make(chan error, 1)
	if oc == "precancel" {
		cancel() // the caller gave up between constructing the process and executing it
	}
	subX, _, _ := nd.ledger.counts(sid) // (a blocker session of the `refused` cell has its own subscriptions by now)
	go func() { ret <- nd.coord.Execute(ctx, []tss.TssProcess{proc}, make(chan interface{}, 4)) }()
	ghost := w.nodes[1].ledger
	subscribed := func() bool { return nd.ledger.inner.VerifLiveSubscriptions(sid) >= live0+3 }
	signing := strings.HasSuffix(kind, "signing")
	// running: the process has subscribed to its own message type and has handed over its first-round messages
	running := func() bool {
		ran := waitUntil(c9wait, func() bool { return len(nd.ledger.inner.GetSubscribers(sid, c10msgType(kind))) > 0 })
		if ran && !strings.HasPrefix(kind, "f") {
			// (FROST sends nothing before STARTUP_PAUSE - 10 s, not interruptible - has elapsed, and Run returns only
			// after it.) Party.Start must have handed over its first-round messages before the session is ended: a
			// cancellation racing with that hand-over is the recorded finding C10-run-stuck-on-outchn. Wait for the first
			// protocol broadcast and then for 600 ms without another one.
			mt := c10msgType(kind)
			first := c9wait
			if kind == "ekeygen" {
				first = 150 * time.Second // safe-prime generation inside Party.Start
			}
			ran = waitUntil(first, func() bool { return nd.ledger.bcasts(sid, mt) > bc0 })
			for last, since := nd.ledger.bcasts(sid, mt), time.Now(); time.Since(since) < 600*time.Millisecond; {
				time.Sleep(5 * time.Millisecond)
				if n := nd.ledger.bcasts(sid, mt); n != last {
					last, since = n, time.Now()
				}
			}
		}
		if ran {
			cnt.mu.Lock()
			cnt.runProbe = itoa(cnt.held)
			cnt.mu.Unlock()
		}
		return ran
	}
	flow := true
	switch oc {
	case "cancel":
		flow = waitUntil(c9wait, subscribed)
		cancel()
	case "rejected":
		flow = waitUntil(c9wait, subscribed)
		b, _ := message.MarshalStartMessage([]byte("{{not-params"))
		_ = ghost.inner.Broadcast(peer.IDSlice{w.ids[0]}, b, comm.TssStartMsg, sid)
	case "failed":
		flow = waitUntil(c9wait, subscribed)
		b, _ := message.MarshalStartMessage(w.startParams(kind, sid))
		_ = ghost.inner.Broadcast(peer.IDSlice{w.ids[0]}, b, comm.TssStartMsg, sid)
		flow = running() && flow
		_ = ghost.inner.Broadcast(peer.IDSlice{w.ids[0]}, []byte{}, comm.TssFailMsg, sid)
	case "silent":
		if signing {
			// retryable: the silent coordinator is excluded, a bully election (nobody else takes part) makes this relayer
			// the coordinator, it asks who is ready - and nobody is. The caller gives up.
			flow = waitUntil(c9wait, func() bool { return len(nd.ledger.inner.GetSubscribers(sid, comm.TssReadyMsg)) > 0 })
			cancel()
		}
	case "retried":
		// the coordinator starts signing with a subset that leaves this relayer out (Run returns SubsetError), the
		// relayer keeps waiting for a start message from anybody, is started again with a subset that includes it,
		// and the caller ends the session while that second run is in progress
		flow = waitUntil(c9wait, subscribed)
		out, _ := json.Marshal([]peer.ID{w.ids[1], w.ids[2]})
		b, _ := message.MarshalStartMessage(out)
		_ = ghost.inner.Broadcast(peer.IDSlice{w.ids[0]}, b, comm.TssStartMsg, sid)
		flow = flow && waitUntil(c9wait, func() bool { n, _, _ := nd.ledger.counts(sid); return n-sub0 >= 6 })
		b, _ = message.MarshalStartMessage(w.startParams(kind, sid))
		_ = ghost.inner.Broadcast(peer.IDSlice{w.ids[0]}, b, comm.TssStartMsg, sid)
		flow = running() && flow
		cancel()
	}
	r := "hang"
	select {
	case err := <-ret:
		switch {
		case err == nil:
			r = "ok"
		case refusedBy(err, func() int { n, _, _ := nd.ledger.counts(sid); return n - subX }()):
			r = "refused" // an error, and nothing was registered for the session: recognised by behaviour, not by its text
		default:
			r = "err"
		}
	case <-time.After(c9wait + 8*time.Second):
	}
	if blocker != nil {
		bcancel()
		select {
		case <-blockRet:
		case <-time.After(c9wait):
			r = "hang"
		}
	}
	if !flow || r == "hang" {
		if os.Getenv("VERIF_DUMP") != "" {
			buf := make([]byte, 1<<20)
			os.Stderr.Write(buf[:runtime.Stack(buf, true)])
		}
		if os.Getenv("VERIF_DUMP") != "" {
			fmt.Fprintf(os.Stderr, "HANGREASON kind=%s oc=%s flow=%v r=%s live=%d live0=%d\n", kind, oc, flow, r, nd.ledger.inner.VerifLiveSubscriptions(sid), live0)
		}
		return "hang;" + cnt.String()
	}
	return r + ";" + cnt.String()
}

// startParams: what a coordinator holding the fixture share would broadcast for this kind.
func (w *c10world) startParams(kind, sid string) []byte {
	// build the coordinator-side process on relayer 1 with its own (uncounted towards the cell) stores
	p, _, ok := w.mk(kind, w.nodes[1], sid, 1)
	if !ok {
		panic("coordinator-side process")
	}
	b := p.StartParams([]peer.ID{w.ids[0], w.ids[1]})
	p.Stop()
	return b
}

// C10.full <kind>   ran-and-succeeded: every needed relayer runs the real protocol to the end, in-process.
//
//	signing kinds: relayers 0 and 1 (threshold+1 of the fixture shares; the third relayer is down);
//	keygen / resharing: all three relayers.   => per relayer `ok;L=…`, joined by '|'
func c10fullRun(a []string) string {
	kind := a[0]
	n := 3
	if strings.HasSuffix(kind, "signing") {
		n = 2
	}
	w := newC10World(n, !strings.HasSuffix(kind, "keygen"))
	defer w.close()
	sid := w.sidWithCoordinator("f", 0)
	type res struct {
		i int
		r string
	}
	out := make(chan res, n)
	cnts := make([]*lockCounter, n)
	ctx, cancel := context.WithCancel(context.Background())
	defer cancel()
	for i := 0; i < n; i++ {
		nd := w.nodes[i]
		nd.coord.InitiatePeriod = 200 * time.Millisecond
		proc, cnt, ok := w.mk(kind, nd, sid, 1)
		cnts[i] = cnt
		if !ok {
			return "ctorerr"
		}
		i := i
		go func() {
			// the protocol is under way once the process has subscribed to its own message type: is the lock held then?
			if waitUntil(120*time.Second, func() bool { return len(nd.ledger.inner.GetSubscribers(sid, c10msgType(kind))) > 0 }) {
				cnt.mu.Lock()
				if cnt.runProbe == "" {
					cnt.runProbe = itoa(cnt.held)
				}
				cnt.mu.Unlock()
			}
		}()
		go func() {
			resultChn := make(chan interface{}, 4)
			err := nd.coord.Execute(ctx, []tss.TssProcess{proc}, resultChn)
			r := "ok"
			if err != nil {
				r = "err"
			}
			out <- res{i, r}
		}()
	}
	rs := make([]string, n)
	wait := 150 * time.Second
	for k := 0; k < n; k++ {
		select {
		case r := <-out:
			rs[r.i] = r.r + ";" + cnts[r.i].String()
		case <-time.After(wait):
			return "hang"
		}
	}
	return strings.Join(rs, "|")
}
func c10full(a []string) string { return c10cached("full", c10fullRun, a) }

// slowSubComm delays the process's own Subscribe until the harness lets it go (a scheduling delay made explicit).
type slowSubComm struct {
	*ledgerComm
	slow    comm.MessageType
	reached chan struct{}
	release chan struct{}
}

func (s *slowSubComm) Subscribe(sid string, t comm.MessageType, ch chan *comm.WrappedMessage) comm.SubscriptionID {
	if t == s.slow {
		s.reached <- struct{}{}
		<-s.release
	}
	return s.ledgerComm.Subscribe(sid, t, ch)
}

// C10.stuck <kind>   (ECDSA resharing | signing) the session is failed by its coordinator while Run is between its
//
//	Subscribe and Party.Start: the context is already cancelled when the party hands over its first message.
//	=> ret;L=… as for `cell`, or hang;L=… when Execute does not return within 4 s
func c10stuck(a []string) string {
	kind := a[0]
	w := newC10World(2, true)
	defer w.close()
	nd := w.nodes[0]
	sid := w.sidWithCoordinator("s", 1)
	slow := &slowSubComm{ledgerComm: nd.ledger, slow: c10msgType(kind), reached: make(chan struct{}, 1), release: make(chan struct{})}
	var proc tss.TssProcess
	var cnt *lockCounter
	switch kind {
	case "eresharing":
		proc, cnt = eresharing.NewResharing(sid, 1, nd.host, slow, nd.ec), nd.ec.c
	case "esigning":
		p, err := esigning.NewSigning(big.NewInt(0x4d657373), sid, sid, nd.host, slow, nd.ec)
		if err != nil {
			return "ctorerr"
		}
		proc, cnt = p, nd.ec.c
	default:
		return "badkind"
	}
	ctx, cancel := context.WithCancel(context.Background())
	defer cancel()
	ret := make(chan error, 1)
	go func() { ret <- nd.coord.Execute(ctx, []tss.TssProcess{proc}, make(chan interface{}, 4)) }()
	ghost := w.nodes[1].ledger
	if !waitUntil(c9wait, func() bool { return nd.ledger.inner.VerifLiveSubscriptions(sid) >= 3 }) {
		return "hang-setup"
	}
	b, _ := message.MarshalStartMessage(w.startParams(kind, sid))
	_ = ghost.inner.Broadcast(peer.IDSlice{w.ids[0]}, b, comm.TssStartMsg, sid)
	select {
	case <-slow.reached:
	case <-time.After(c9wait):
		return "hang-setup"
	}
	// Run is inside Subscribe: fail the session now and wait until the fail-watch has released its subscription
	_ = ghost.inner.Broadcast(peer.IDSlice{w.ids[0]}, []byte{}, comm.TssFailMsg, sid)
	if !waitUntil(c9wait, func() bool { return len(nd.ledger.inner.GetSubscribers(sid, comm.TssFailMsg)) == 0 }) {
		return "hang-setup"
	}
	time.Sleep(5 * time.Millisecond)
	close(slow.release)
	select {
	case err := <-ret:
		r := "err"
		if err == nil {
			r = "ok"
		}
		return r + ";" + cnt.String()
	case <-time.After(4 * time.Second):
		if os.Getenv("VERIF_DUMP") != "" {
			buf := make([]byte, 1<<20)
			os.Stderr.Write(buf[:runtime.Stack(buf, true)])
		}
		return "hang;" + cnt.String()
	}
}

// C09.rerun <kind> <n>   what the coordinator's retry does to a retryable (signing) process: Run it n times (each run
//
//	ended by cancelling its context once the party has handed over its first-round messages), then Stop it once.
//	=> sub=<subscriptions obtained>,unsub=<released>,live=<still registered for the session id>
func c9rerun(a []string) string {
	if c9RegistriesUnsafe.Load() {
		return c9skipped
	}
	return c10cached("rerun", c9rerunRun, a)
}

func c9rerunRun(a []string) string {
	kind, n := a[0], int(u64(a[1]))
	w := newC10World(2, true)
	defer w.close()
	nd := w.nodes[0]
	sid := w.sidWithCoordinator("r", 1)
	proc, _, ok := w.mk(kind, nd, sid, 1)
	if !ok {
		return "ctorerr"
	}
	params := w.startParams(kind, sid)
	mt := c10msgType(kind)
	for i := 0; i < n; i++ {
		ctx, cancel := context.WithCancel(context.Background())
		ret := make(chan error, 1)
		s0, _, _ := nd.ledger.counts(sid)
		b0 := nd.ledger.bcasts(sid, mt)
		go func() { ret <- proc.Run(ctx, false, make(chan interface{}, 4), params) }()
		okRun := waitUntil(c9wait, func() bool { s1, _, _ := nd.ledger.counts(sid); return s1 > s0 })
		if okRun && strings.HasPrefix(kind, "e") {
			okRun = waitUntil(c9wait, func() bool { return nd.ledger.bcasts(sid, mt) > b0 })
			for last, since := nd.ledger.bcasts(sid, mt), time.Now(); time.Since(since) < 600*time.Millisecond; {
				time.Sleep(5 * time.Millisecond)
				if k := nd.ledger.bcasts(sid, mt); k != last {
					last, since = k, time.Now()
				}
			}
		}
		cancel()
		select {
		case <-ret:
		case <-time.After(c9wait + 8*time.Second):
			okRun = false
		}
		if !okRun {
			return "hang"
		}
	}
	proc.Stop()
	s1, u1, _ := nd.ledger.counts(sid)
	return fmt.Sprintf("sub=%d,unsub=%d,live=%d", s1, u1, nd.ledger.inner.VerifLiveSubscriptions(sid))
}

// C10.ctor <kind> <variant>   the constructor alone, on every way it can go wrong after it took the lock:
//
//	noshare (share file missing) | badshare (file is not JSON) | emptyshare (empty file), and for FROST signing with a
//	good share a tweak that is not hex (tweakhex), is hex of the wrong length (tweaklen), or is 32 bytes that are not a
//	scalar below the group order (tweakorder). No process object exists after a failed constructor, so nothing will
//	ever Stop it: the lock must be balanced right there. A constructor that succeeds is stopped by the harness.
//	=> ctorerr;L=… | ctorok;L=… (after Stop)
func c10ctor(a []string) string {
	kind, variant := a[0], a[1]
	w := newC10World(1, strings.HasPrefix(variant, "tweak"))
	defer w.close()
	nd := w.nodes[0]
	for _, f := range []string{"0.keyshare", "0-frost.keyshare"} {
		switch variant {
		case "badshare":
			_ = os.WriteFile(w.dir+"/"+f, []byte("{\"Key\": [1,2"), 0o600)
		case "emptyshare":
			_ = os.WriteFile(w.dir+"/"+f, []byte{}, 0o600)
		}
	}
	sid := "ctor1"
	var proc tss.TssProcess
	var cnt *lockCounter
	ok := false
	if kind == "fsigning" && strings.HasPrefix(variant, "tweak") {
		tweak := map[string]string{
			"tweakhex":   "zz" + c10tweak[2:],
			"tweaklen":   c10tweak[:40],
			"tweakorder": "fffffffffffffffffffffffffffffffebaaedce6af48a03bbfd25e8cd0364141",
		}[variant]
		msg, _ := hex.DecodeString("4d657373616765")
		p, err := fsigning.NewSigning(1, msg, tweak, sid, sid, nd.host, nd.ledger, nd.fr)
		proc, cnt, ok = p, nd.fr.c, err == nil
	} else {
		proc, cnt, ok = w.mk(kind, nd, sid, 1)
	}
	if !ok {
		return "ctorerr;" + cnt.String()
	}
	proc.Stop()
	return "ctorok;" + cnt.String()
}

func init() {
	ops["C10.ctor"] = c10ctor
	ops["C09.rerun"] = c9rerun
	ops["C10.full"] = c10full
	ops["C10.stuck"] = c10stuck
	ops["C10.cell"] = c10cell
	ops["C10.seq"] = c10seq
	gens["C10"] = genC10
}

var c10kinds = []string{"ekeygen", "fkeygen", "eresharing", "fresharing", "esigning", "fsigning"}

func genC10(g *G) {
	// protocol runs with safe-prime generation or FROST's start-up pause can exceed the driver's default 20 s op limit
	opTimeout = 5 * time.Minute
	fulls := []string{"esigning", "fsigning", "fkeygen", "eresharing", "fresharing"}
	if g.Thorough() {
		fulls = c10kinds
		c10prefetch("cell", c10cellRun, "ekeygen", "failed")
	}
	for _, k := range fulls {
		c10prefetch("full", c10fullRun, k)
	}
	for _, k := range []string{"fkeygen", "fresharing", "fsigning"} {
		c10prefetch("cell", c10cellRun, k, "failed")
	}
	c10prefetch("cell", c10cellRun, "fsigning", "retried")
	for _, k := range c10kinds {
		for _, oc := range []string{"refused", "silent", "gto", "cancel", "precancel", "busy", "rejected", "failed", "retried", "noshare"} {
			if oc == "failed" && k == "ekeygen" {
				continue // safe-prime generation inside Party.Start (tens of seconds): thorough tier only, emitted last
			}
			if oc == "retried" && !strings.HasSuffix(k, "signing") {
				continue // only signing is retryable
			}
			if oc == "retried" && k == "fsigning" {
				continue // 10 s start-up pause: started ahead, emitted with the other slow cells
			}
			if oc == "noshare" && !strings.HasSuffix(k, "signing") {
				continue // only the signing constructors need an existing share
			}
			g.Emit("cell", k, oc)
		}
	}
	// the production entry points: the three event handlers of chains/evm/listener/eventHandlers/tss.go
	for _, h := range []string{"keygen", "fkeygen", "refresh"} {
		for _, oc := range []string{"noevents", "fetcherr", "silent", "gto", "refused"} {
			g.Emit("handler", h, oc)
		}
		if h != "refresh" { // the event reaches a relayer that already has its share
			for _, oc := range []string{"noevents", "silent", "gto", "refused"} {
				g.Emit("handler", h, oc+"+key")
			}
		}
		if h == "refresh" {
			for _, oc := range []string{"emptyhash", "topoerr", "storefail"} {
				g.Emit("handler", h, oc)
			}
		}
	}
	// ONE session made of several processes, each on its own store: every process is stopped exactly once
	g.Emit("multi", "fkeygen+eresharing", "silent")
	g.Emit("multi", "fresharing+fkeygen+eresharing", "refused")
	g.Emit("multi", "esigning+fsigning+esigning", "gto")
	for i := 0; i < g.Count(6, 60); i++ {
		n := 2 + g.Intn(3)
		ks := []string{}
		for j := 0; j < n; j++ {
			ks = append(ks, g.Pick(c10kinds))
		}
		g.Emit("multi", strings.Join(ks, "+"), g.Pick([]string{"refused", "silent", "gto", "cancel", "precancel"}))
	}
	// constructor-only cells: every kind x every way the share can be unusable, and the bad tweaks of FROST signing
	for _, k := range c10kinds {
		for _, v := range []string{"noshare", "badshare", "emptyshare"} {
			g.Emit("ctor", k, v)
		}
	}
	for _, v := range []string{"tweakhex", "tweaklen", "tweakorder"} {
		g.Emit("ctor", "fsigning", v)
	}
	// sequences of sessions sharing the stores (kinds on the ECDSA store and on the FROST store interleaved)
	seqKinds := []string{"ekeygen", "fkeygen", "eresharing", "fresharing", "esigning", "fsigning"}
	seqOuts := []string{"refused", "silent", "gto", "cancel", "precancel", "busy", "rejected"}
	g.Emit("seq", "eresharing:refused,esigning:silent,ekeygen:cancel,eresharing:rejected,fkeygen:refused,fresharing:gto,fsigning:rejected")
	for i := 0; i < g.Count(6, 60); i++ {
		n := 2 + g.Intn(6)
		xs := []string{}
		for j := 0; j < n; j++ {
			k := g.Pick(seqKinds)
			oc := g.Pick(seqOuts)
			if g.Intn(5) == 0 && strings.HasPrefix(k, "e") && k != "ekeygen" {
				oc = "failed"
			}
			if g.Intn(5) == 0 && k == "esigning" {
				oc = "retried"
			}
			xs = append(xs, k+":"+oc)
		}
		g.Emit("seq", strings.Join(xs, ","))
	}
	g.Emit("stuck", "eresharing")
	g.Emit("stuck", "esigning")
	g.Emit("cell", "fsigning", "retried")
	for _, k := range fulls {
		g.Emit("full", k)
	}
	if g.Thorough() {
		g.Emit("cell", "ekeygen", "failed")
	}
	// LAST (the session it starts is never ended: see the op): the lock while an ECDSA keygen is in its rounds
	g.Emit("midrun", "ekeygen")
}
