package main

// C17/C03 — how the BTC executor records the outcome of an execution: the REAL watchExecution is run with a
// pre-filled signature channel against a loopback fake bitcoind (JSON-RPC over HTTP, OS-assigned port) that accepts
// or rejects `sendrawtransaction`; observed: the durable statuses afterwards, the TssFail broadcast, the mutex.

import (
	"context"
	"encoding/json"
	"io"
	"net/http"
	"net/http/httptest"
	"strings"
	"sync"
	"time"

	btcConfig "github.com/ChainSafe/sygma-relayer/chains/btc/config"
	"github.com/ChainSafe/sygma-relayer/chains/btc/connection"
	btcExecutor "github.com/ChainSafe/sygma-relayer/chains/btc/executor"
	"github.com/ChainSafe/sygma-relayer/comm"
	"github.com/ChainSafe/sygma-relayer/store"
	"github.com/ChainSafe/sygma-relayer/tss/frost/signing"
	"github.com/btcsuite/btcd/chaincfg"
	"github.com/btcsuite/btcd/chaincfg/chainhash"
	"github.com/btcsuite/btcd/rpcclient"
	"github.com/btcsuite/btcd/wire"
	"github.com/libp2p/go-libp2p/core/host"
	"github.com/libp2p/go-libp2p/core/peer"
	"github.com/libp2p/go-libp2p/core/peerstore"
	"github.com/libp2p/go-libp2p/p2p/host/peerstore/pstoremem"
	"github.com/taurusgroup/multi-party-sig/pkg/taproot"
)

type c17Host struct {
	host.Host
	ps peerstore.Peerstore
}

func (h *c17Host) Peerstore() peerstore.Peerstore { return h.ps }

type c17Comm struct {
	mu         sync.Mutex
	broadcasts []string
}

func (c *c17Comm) CloseSession(string) {}
func (c *c17Comm) Broadcast(peers peer.IDSlice, msg []byte, t comm.MessageType, sessionID string) error {
	c.mu.Lock()
	defer c.mu.Unlock()
	c.broadcasts = append(c.broadcasts, t.String())
	return nil
}
func (c *c17Comm) Subscribe(string, comm.MessageType, chan *comm.WrappedMessage) comm.SubscriptionID {
	return comm.SubscriptionID("")
}
func (c *c17Comm) UnSubscribe(comm.SubscriptionID) {}

// fake bitcoind: getnetworkinfo (so that rpcclient can pick its request format) and sendrawtransaction
func c17Bitcoind(accept bool, sent *int) *httptest.Server {
	return httptest.NewServer(http.HandlerFunc(func(w http.ResponseWriter, r *http.Request) {
		body, _ := io.ReadAll(r.Body)
		var req struct {
			ID     interface{}   `json:"id"`
			Method string        `json:"method"`
			Params []interface{} `json:"params"`
		}
		_ = json.Unmarshal(body, &req)
		resp := map[string]interface{}{"id": req.ID, "error": nil, "result": nil}
		switch req.Method {
		case "getnetworkinfo":
			resp["result"] = map[string]interface{}{"version": 250000, "subversion": "/Satoshi:25.0.0/"}
		case "sendrawtransaction":
			*sent++
			if accept {
				resp["result"] = strings.Repeat("ab", 32)
			} else {
				resp["error"] = map[string]interface{}{"code": -26, "message": "rejected by harness"}
			}
		default:
			resp["error"] = map[string]interface{}{"code": -32601, "message": "method not found"}
		}
		w.Header().Set("Content-Type", "application/json")
		_ = json.NewEncoder(w).Encode(resp)
	}))
}

func init() {
	// outcome <accept|reject> <initial statuses> <nonces> <faults>
	//   the execution of `nonces` (statuses preset, normally pending) gets all its signatures; bitcoind accepts or
	//   rejects the transaction  =>  <nil|err>|<statuses>|<sent count>|<TssFail broadcasts>|<free|held>
	ops["C17.outcome"] = func(a []string) string {
		init := c3Script(a[1])
		db := newC3DB("-")
		for i := range init {
			db.preset(c3Src, c3Dst, uint64(i), init[i:i+1])
		}
		sent := 0
		srv := c17Bitcoind(a[0] == "accept", &sent)
		defer srv.Close()
		cl, err := rpcclient.New(&rpcclient.ConnConfig{HTTPPostMode: true, Host: strings.TrimPrefix(srv.URL, "http://"),
			User: "u", Pass: "p", DisableTLS: true}, nil)
		if err != nil {
			return "rpcclient:" + err.Error()
		}
		defer cl.Shutdown()
		ps, _ := pstoremem.NewPeerstore()
		cm := &c17Comm{}
		exe := btcExecutor.NewExecutor(store.NewPropStore(db), &c17Host{ps: ps}, cm, nil, nil, &connection.Connection{Client: cl},
			c3Mempool{}, map[[32]byte]btcConfig.Resource{}, chaincfg.TestNet3Params, &sync.RWMutex{}, &c3Uploader{})
		props := []*btcExecutor.BtcTransferProposal{}
		for _, n := range c3Nonces(a[2]) {
			props = append(props, &btcExecutor.BtcTransferProposal{Source: c3Src, Destination: c3Dst,
				Data: btcExecutor.BtcTransferProposalData{DepositNonce: n, Amount: 1000}})
		}
		tx := wire.NewMsgTx(wire.TxVersion)
		tx.AddTxIn(wire.NewTxIn(wire.NewOutPoint(&chainhash.Hash{1}, 0), nil, nil))
		tx.AddTxOut(wire.NewTxOut(1000, []byte{0x51}))
		sigChn := make(chan interface{}, 1)
		sig := make([]byte, 64)
		sig[0] = 1
		sigChn <- signing.Signature{Id: 0, Signature: taproot.Signature(sig)}
		ctx, cancel := context.WithTimeout(context.Background(), 15*time.Second)
		defer cancel()
		db.setFaults(a[3])
		err = exe.VerifC17WatchExecution(ctx, func() {}, tx, props, sigChn, "sess", "m")
		mx := "free"
		if !exe.VerifC17MutexFree() {
			mx = "held"
		}
		var sb strings.Builder
		for i := range init {
			sb.WriteString(db.letter(c3Src, c3Dst, uint64(i)))
		}
		cm.mu.Lock()
		defer cm.mu.Unlock()
		return c3Ret(err) + "|" + joinOr1(sb.String()) + "|" + itoa(sent) + "|" + joinOr(cm.broadcasts, ",") + "|" + mx
	}
}

func genC17Outcome(g *G) {
	for i := 0; i < g.Count(120, 3000); i++ {
		n := 1 + g.Intn(4)
		var st strings.Builder
		for j := 0; j < n; j++ {
			st.WriteByte("ppppmfe"[g.Intn(7)])
		}
		ns := []int{}
		for j := 0; j < n; j++ {
			if g.Intn(3) != 0 {
				ns = append(ns, j)
			}
		}
		fl := "-"
		if g.Intn(4) == 0 {
			fl = c17Faults(g, n, 3)
		}
		g.Emit("outcome", g.Pick([]string{"accept", "reject"}), st.String(), joinOr1(c17Ints(ns)), fl)
	}
}

// c17Timeout runs the REAL watchExecution of a session that never receives a signature until its signing time-out
// fires (package variable signingTimeout shortened through a verif accessor; nothing else can end the loop, so the
// outcome does not depend on timing). Returns "t" (timed out), or what else happened.
func c17Timeout(exe *btcExecutor.Executor, props []*btcExecutor.BtcTransferProposal) string {
	old := btcExecutor.VerifC17SetSigningTimeout(time.Millisecond)
	defer btcExecutor.VerifC17SetSigningTimeout(old)
	tx := wire.NewMsgTx(wire.TxVersion)
	tx.AddTxIn(wire.NewTxIn(wire.NewOutPoint(&chainhash.Hash{1}, 0), nil, nil))
	done := make(chan error, 1)
	go func() {
		defer func() {
			if r := recover(); r != nil {
				done <- nil
			}
		}()
		done <- exe.VerifC17WatchExecution(context.Background(), func() {}, tx, props, make(chan interface{}), "sess", "m")
	}()
	select {
	case err := <-done:
		if err != nil {
			return "t"
		}
		return "returned-nil"
	case <-time.After(10 * time.Second):
		return "hang"
	}
}
