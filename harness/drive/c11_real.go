package main

// C11 `real`: ONE real ECDSA Signing object (the repository's constructor over the repository's fixture key share and
// the fixture's own three key holders) lives through both attempts of a real Execute: its real Run is entered in the
// first attempt, fails for a real reason (a Broadcast of the scripted communication fails with a CommunicationError,
// with or without a peer; a malformed protocol message makes the tss library blame its sender; the announced subset
// does not contain this relayer), and the SAME object answers Ready / StartParams / Run in the replacement attempt.

import (
	"context"
	"encoding/json"
	"errors"
	"fmt"
	"math/big"
	"os"
	"strings"

	"github.com/ChainSafe/sygma-relayer/comm"
	"github.com/ChainSafe/sygma-relayer/keyshare"
	"github.com/ChainSafe/sygma-relayer/tss"
	"github.com/ChainSafe/sygma-relayer/tss/ecdsa/common"
	ecdsaSigning "github.com/ChainSafe/sygma-relayer/tss/ecdsa/signing"
	"github.com/ChainSafe/sygma-relayer/tss/message"
	tssSigning "github.com/binance-chain/tss-lib/ecdsa/signing"
	"github.com/libp2p/go-libp2p/core/crypto"
	"github.com/libp2p/go-libp2p/core/peer"
)

// c11Owner: the relayer fixture key share i belongs to (tss/test/pks/i.pk).
func c11Owner(i int) peer.ID {
	b, err := os.ReadFile(fmt.Sprintf("%s/tss/test/pks/%d.pk", repoRoot(), i))
	if err != nil {
		panic(err)
	}
	k, err := crypto.UnmarshalPrivateKey(b)
	if err != nil {
		panic(err)
	}
	id, err := peer.IDFromPrivateKey(k)
	if err != nil {
		panic(err)
	}
	return id
}

func c11Subset(ps ...peer.ID) []byte {
	b, _ := json.Marshal(ps)
	return b
}

func init() {
	// realholders <i> => owner;holders of fixture key share i (input of the generator and of the model)
	ops["C11.realholders"] = func(a []string) string {
		i := int(u64(a[0]))
		return c07Tok(c11Owner(i)) + ";" + c07Toks(c07FixtureECDSA(i).Peers)
	}
	// real <i> <self> <t> <sid> <holders> <first> <partner> <claimant|-> <ready2>   (self, t, holders: facts of fixture i)
	//   first attempt: subset {self, partner} when this relayer is the static coordinator (partner reports ready),
	//   otherwise the static coordinator c starts {c, self} — or, first = s, {c, partner} (this relayer is left out).
	//   first: m | mp the first protocol broadcast fails with a CommunicationError without / with a peer;
	//          t  a malformed protocol message from the other subset member (the tss library names it as culprit);
	//          s  left out of the subset (the real Run returns SubsetError).
	//   => run1=<c|w>:<subset>;sel=…;r=…;start=…;run=<c|w>:<subset>;res=…
	ops["C11.real"] = c07Escalating(func(a []string) string {
		i := int(u64(a[0]))
		fix := c07FixtureECDSA(i)
		self := c11Owner(i)
		if c07Tok(self) != a[1] || itoa(fix.Threshold) != a[2] || c07Toks(fix.Peers) != a[4] {
			return "badfixture"
		}
		a = a[2:] // below: a[1] sid, a[2] holders, a[3] first, a[4] partner, a[5] claimant, a[6] ready2
		sid := c07Sid(a[1])
		holders := fix.Peers
		first, partner := a[3], c07Peer(a[4])
		e := c11NewEnv(self, fix.Threshold, sid, holders, true, a[5] != "-")
		cm := e.cm
		h := c07NewHost(self, holders)
		store := keyshare.NewECDSAKeyshareStore(fmt.Sprintf("%s/tss/test/keyshares/%d.keyshare", repoRoot(), i))
		s, err := ecdsaSigning.NewSigning(big.NewInt(7), "msg", sid, h, cm, store)
		if err != nil {
			return "err-new"
		}
		e.proc.real = s
		e.proc.runReal = s.Run
		e.proc.stopReal = s.Stop
		castMark := 0
		e.proc.onEnter = func(k int) {
			if k == 0 {
				cm.mu.Lock()
				cm.mark = cm.next
				castMark = len(cm.casts)
				cm.mu.Unlock()
				e.setLB()
			}
		}
		ord := c07Order(holders, sid)
		c := ord[0]
		// the scripted failure of the first protocol broadcast
		if first == "m" || first == "mp" {
			n := 0
			cm.castErr = func(b c07Cast) error {
				if b.typ != comm.TssKeySignMsg {
					return nil
				}
				n++
				if n > 1 {
					return nil
				}
				ce := &comm.CommunicationError{Err: errors.New("stream reset")}
				if first == "mp" && len(b.peers) > 0 {
					ce.Peer = b.peers[0]
				}
				return ce
			}
		}
		ctx, cancel := context.WithCancel(context.Background())
		defer cancel()
		done := make(chan struct{})
		var rerr error
		go func() {
			defer close(done)
			rerr = c07Guard(func() error { return e.co.Execute(ctx, []tss.TssProcess{e.proc}, make(chan interface{}, 4)) })
		}()
		note := ""
		stop := e.stopOn(done)
		var other peer.ID // the other member of the first subset
		if c == self {
			other = partner
			if r := cm.deliver(sid, comm.TssReadyMsg, partner, []byte{}, stop); r != "ok" {
				note += ";first-" + r
			}
		} else {
			other = c
			sub := c11Subset(c, self)
			if first == "s" {
				sub = c11Subset(c, partner)
			}
			payload, _ := message.MarshalStartMessage(sub)
			if r := cm.deliver(sid, comm.TssInitiateMsg, c, []byte{}, stop); r == "ok" {
				cm.deliver(sid, comm.TssStartMsg, c, payload, stop)
			}
		}
		c11Await(stop)
		keysigns := func() int {
			n := 0
			for _, b := range cm.casts {
				if b.typ == comm.TssKeySignMsg {
					n++
				}
			}
			return n
		}
		// number of protocol broadcasts of the first attempt (m/mp: the one that fails; t: the one that goes out before the
		// malformed message arrives; s: none, the real Run returns before the protocol starts), plus one
		e.realRuns = 2
		if first == "s" {
			e.realRuns = 1
		} else if r := cm.waitUntil(c07Patience(), done, func() bool { return keysigns() >= 1 }); r == "timeout" {
			note += ";noprotocol1"
		}
		if first == "t" {
			// a protocol message from the other subset member that the tss library rejects, blaming its sender
			bad := tssSigning.NewSignRound4Message(new(big.Int).SetBytes([]byte(sid)), common.CreatePartyID(other.String()), big.NewInt(0))
			wire, routing, _ := bad.WireBytes()
			payload, _ := message.MarshalTssMessage(wire, routing.IsBroadcast)
			// (the protocol subscription of the first Run exists: its first message has gone out)
			if r := cm.deliver(sid, comm.TssKeySignMsg, other, payload, done); r != "ok" {
				note += ";bad-" + r
			}
		}
		run1 := "none"
		if rs := e.proc.runList(); len(rs) > 0 {
			run1 = map[bool]string{true: "c:", false: "w:"}[rs[0].coordinator] + c07ParamPeers(rs[0].params)
		}
		e.startParams = c11Subset(c07PeerOrNone(a[5]), self)
		out := e.second(done, cancel, a[5], c07PeerList(a[6]), castMark, 1, &rerr)
		return "run1=" + run1 + ";" + out + note
	})
}

func c07PeerOrNone(tok string) peer.ID {
	if tok == "-" {
		return peer.ID("")
	}
	return c07Peer(strings.TrimLeft(tok, "~!"))
}

// genC11Real: the real Signing object through both attempts, on each of the three fixture relayers.
func genC11Real(g *G) {
	sids := []string{"m1", "x"}
	if g.Thorough() {
		sids = []string{"m1", "x", "", "1-2-100-104", "retry-1-2-7", "0"}
	}
	k := 0
	for i := 0; i < 3; i++ {
		self := c11Owner(i)
		fix := c07FixtureECDSA(i)
		hs := c07Toks(fix.Peers)
		for _, sid := range sids {
			ord := c07Order(fix.Peers, sid)
			c := ord[0]
			rest := []peer.ID{}
			for _, p := range ord {
				if p != self {
					rest = append(rest, p)
				}
			}
			emit := func(first string, partner peer.ID, claimant string, ready2 []peer.ID) {
				g.Emit("real", itoa(i), c07Tok(self), itoa(fix.Threshold), hx([]byte(sid)), hs, first, c07Tok(partner), claimant, c07Toks(ready2))
			}
			for _, first := range []string{"m", "mp", "t"} {
				partners := rest
				if c != self {
					partners = []peer.ID{c}
				}
				for _, partner := range partners {
					third := rest[0]
					if third == partner {
						third = rest[1]
					}
					variants := [][]peer.ID{{third}, {partner, third}, {third, partner}, {partner}}
					for vi, v := range variants {
						k++
						if !g.Thorough() && (k+vi)%3 != 0 && !(first == "m" && vi == 0) {
							continue
						}
						emit(first, partner, "-", v)
					}
				}
			}
			if c != self { // left out of the first subset; the replacement start comes from either other holder
				third := rest[0]
				if third == c {
					third = rest[1]
				}
				for _, cl := range []peer.ID{third, c} {
					k++
					if !g.Thorough() && k%2 == 0 {
						continue
					}
					emit("s", third, c07Tok(cl), nil)
				}
			}
		}
	}
}
