package main

// C09 — wave D: the registries are shared objects used by several goroutines at once. Three probes:
//   excl      every registry operation is mutually exclusive with the holder of the registry's lock
//   latesend  a send of the same session that arrives while ReleaseStreams is closing the session's streams
//   hammer    many goroutines on the shared communication at once (meaningful under the race detector)

import (
	"context"
	"fmt"
	"strings"
	"sync"
	"sync/atomic"
	"time"

	"github.com/ChainSafe/sygma-relayer/comm"
	"github.com/ChainSafe/sygma-relayer/tss"
	"github.com/libp2p/go-libp2p/core/peer"
)

// blockedWhile runs f in a goroutine while the lock is held and reports whether f could NOT finish before the lock was
// given back (1 = excluded, 0 = f went through although the lock was held). After release f has to finish.
func blockedWhile(hold func() func(), f func()) string {
	release := hold()
	done := make(chan struct{})
	go func() { f(); close(done) }()
	excluded := "1"
	select {
	case <-done:
		excluded = "0"
	case <-time.After(40 * time.Millisecond):
	}
	release()
	select {
	case <-done:
	case <-time.After(c9wait):
		return "hang"
	}
	return excluded
}

// C09.excl   => sub=…,unsub=…,get=…,stream=…,release=…,enter=…   (1 = the operation waited for the lock holder)
func c9excl(a []string) string {
	c9installHook()
	w := newC9World()
	c := w.ledger.inner
	sid := "x1"
	id := c.Subscribe(sid, comm.TssFailMsg, make(chan *comm.WrappedMessage))
	_ = c.Broadcast(peer.IDSlice{w.ids[1]}, []byte{}, comm.TssReadyMsg, sid)
	out := []string{
		"sub=" + blockedWhile(c.VerifHoldSubscriptionLock, func() { c.Subscribe(sid, comm.TssStartMsg, make(chan *comm.WrappedMessage)) }),
		"unsub=" + blockedWhile(c.VerifHoldSubscriptionLock, func() { c.UnSubscribe(id) }),
		"get=" + blockedWhile(c.VerifHoldSubscriptionLock, func() { c.GetSubscribers(sid, comm.TssStartMsg) }),
		"stream=" + blockedWhile(c.VerifHoldStreamLock, func() { _ = c.Broadcast(peer.IDSlice{w.ids[2]}, []byte{}, comm.TssReadyMsg, sid) }),
		"release=" + blockedWhile(c.VerifHoldStreamLock, func() { c.CloseSession(sid) }),
		"enter=" + blockedWhile(w.coord.VerifHoldProcessLock, func() {
			ctx, cancel := context.WithCancel(context.Background())
			cancel()
			_ = w.coord.Execute(ctx, []tss.TssProcess{w.proc("x2", "p")}, make(chan interface{}, 1))
		}),
	}
	// Registries that do not exclude their users make every concurrent use below a candidate for Go's fatal "concurrent
	// map" error, which would end the driver and lose every line still in its output buffer - this one included. From
	// here on the C09 ops that use the registries concurrently therefore answer `skipped` instead of running.
	for _, o := range out[:5] {
		if strings.HasSuffix(o, "=0") {
			c9RegistriesUnsafe.Store(true)
		}
	}
	return joinOr(out, ",")
}

var c9RegistriesUnsafe atomic.Bool

const c9skipped = "skipped:the-registry-locks-do-not-exclude-their-users,see-the-excl-line-of-this-run"

// C09.latesend   a stream of the session is being closed by ReleaseStreams (its Close() is held at a gate) when another
//
//	message of the same session id is sent to a peer that has no stream yet. Every stream this relayer opened must end
//	up registered with the stream manager or closed - never neither.
//	=> lost=<streams neither registered nor closed after the release>,open=<streams still open after one more CloseSession>
func c9latesend(a []string) string {
	if c9RegistriesUnsafe.Load() {
		return c9skipped
	}
	w := newC9World()
	c := w.ledger.inner
	sid := "late1"
	gate := &closeGate{in: make(chan struct{}, 1), out: make(chan struct{})}
	w.self.setCloseGate(map[peer.ID]*closeGate{w.ids[1]: gate})
	_ = c.Broadcast(peer.IDSlice{w.ids[1]}, []byte{}, comm.TssReadyMsg, sid) // stream 1, registered
	w.self.setCloseGate(nil)
	released := make(chan struct{})
	go func() { c.CloseSession(sid); close(released) }()
	select {
	case <-gate.in: // ReleaseStreams is inside Close() of stream 1
	case <-time.After(c9wait):
		return "hang"
	}
	sent := make(chan struct{})
	go func() { _ = c.Broadcast(peer.IDSlice{w.ids[2]}, []byte{}, comm.TssReadyMsg, sid); close(sent) }()
	select { // with the release holding the manager's lock the late send waits; give it a moment if it does not
	case <-sent:
	case <-time.After(40 * time.Millisecond):
	}
	close(gate.out)
	for _, ch := range []chan struct{}{released, sent} {
		select {
		case <-ch:
		case <-time.After(c9wait):
			return "hang"
		}
	}
	lost := w.self.openOut() - c.VerifStreamCount(sid)
	c.CloseSession(sid)
	return fmt.Sprintf("lost=%d,open=%d", lost, w.self.openOut())
}

// C09.twosends <n>   n messages of one session are sent to the SAME peer at the same time, before any stream to it is
//
//	registered: all n senders miss in the stream manager and open a stream (they leave NewStream together). One stream
//	gets registered; the others must not stay open for ever.
//	=> reg=<registered for the session>,open=<streams still open after CloseSession>
func c9twosends(a []string) string {
	if c9RegistriesUnsafe.Load() {
		return c9skipped
	}
	n := int(u64(a[0]))
	w := newC9World()
	c := w.ledger.inner
	sid := "two1"
	w.self.setMeet(n)
	var wg sync.WaitGroup
	for i := 0; i < n; i++ {
		wg.Add(1)
		go func() {
			defer wg.Done()
			_ = c.Broadcast(peer.IDSlice{w.ids[1]}, []byte{}, comm.TssReadyMsg, sid)
		}()
	}
	wg.Wait()
	reg := c.VerifStreamCount(sid)
	c.CloseSession(sid)
	return fmt.Sprintf("reg=%d,open=%d", reg, w.self.openOut())
}

// C09.hammer <goroutines>   concurrent Subscribe / GetSubscribers / UnSubscribe / Broadcast / CloseSession on one
//
//	communication object, over three session ids. => live=…,streams=…,open=… after everybody is done and every session closed
func c9hammer(a []string) string {
	if c9RegistriesUnsafe.Load() {
		return c9skipped
	}
	n := int(u64(a[0]))
	w := newC9World()
	c := w.ledger.inner
	var wg sync.WaitGroup
	for g := 0; g < n; g++ {
		g := g
		wg.Add(1)
		go func() {
			defer wg.Done()
			sid := fmt.Sprintf("h%d", g%3)
			for i := 0; i < 40; i++ {
				id := c.Subscribe(sid, comm.MessageType(i%4), make(chan *comm.WrappedMessage))
				c.GetSubscribers(sid, comm.MessageType(i%4))
				if i%5 == 0 {
					_ = c.Broadcast(peer.IDSlice{w.ids[1+g%2]}, []byte{}, comm.TssReadyMsg, sid)
				}
				if i%13 == 12 {
					c.CloseSession(sid)
				}
				c.UnSubscribe(id)
			}
		}()
	}
	wg.Wait()
	live, streams := 0, 0
	for k := 0; k < 3; k++ {
		sid := fmt.Sprintf("h%d", k)
		c.CloseSession(sid)
		live += c.VerifLiveSubscriptions(sid)
		streams += c.VerifStreamCount(sid)
	}
	return fmt.Sprintf("live=%d,streams=%d,open=%d", live, streams, w.self.openOut())
}

func init() {
	ops["C09.excl"] = c9excl
	ops["C09.latesend"] = c9latesend
	ops["C09.hammer"] = c9hammer
	ops["C09.twosends"] = c9twosends
}
