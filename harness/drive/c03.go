package main

// C03 — an executed transfer is never signed or submitted again.
// Runs the REAL Execute of the three executors (exported API) against scripted destinations:
//   EVM / Substrate: fake bridge contract / pallet answering IsProposalExecuted; ProposalsHash records its
//                    argument (= the set a signing session is about to be started for) and refuses.
//   BTC:             the real store.PropStore over an in-memory DB with scripted faults; the uploader fake records
//                    the (source, nonce) list of each per-resource transaction (= the set to be signed) and refuses.

import (
	"errors"
	"strings"
	"sync"

	btcConfig "github.com/ChainSafe/sygma-relayer/chains/btc/config"
	btcExecutor "github.com/ChainSafe/sygma-relayer/chains/btc/executor"
	"github.com/ChainSafe/sygma-relayer/chains/btc/mempool"
	evmExecutor "github.com/ChainSafe/sygma-relayer/chains/evm/executor"
	subExecutor "github.com/ChainSafe/sygma-relayer/chains/substrate/executor"
	"github.com/ChainSafe/sygma-relayer/relayer/transfer"
	"github.com/ChainSafe/sygma-relayer/store"
	"github.com/btcsuite/btcd/chaincfg"
	"github.com/centrifuge/go-substrate-rpc-client/v4/rpc/author"
	"github.com/centrifuge/go-substrate-rpc-client/v4/types"
	ethCommon "github.com/ethereum/go-ethereum/common"
	"github.com/sygmaprotocol/sygma-core/chains/evm/transactor"
	"github.com/sygmaprotocol/sygma-core/relayer/proposal"
)

const (
	c3Src = uint8(1)
	c3Dst = uint8(2)
	// a valid testnet taproot address (taken from the repository's own tests)
	c3Recipient = "tb1pffdrehs8455lgnwquggf4dzf6jduz8v7d2usflyujq4ggh4jaapqpfjj83"
)

// ---- EVM bridge fake
type c3EvmBridge struct{ c *c3Chain }

func (b *c3EvmBridge) IsProposalExecuted(p *transfer.TransferProposal) (bool, error) {
	return b.c.isExecuted(p)
}
func (b *c3EvmBridge) ExecuteProposals(ps []*transfer.TransferProposal, sig []byte, opts transactor.TransactOptions) (*ethCommon.Hash, error) {
	return nil, errors.New("not reached in harness")
}
func (b *c3EvmBridge) ProposalsHash(ps []*transfer.TransferProposal) ([]byte, error) { return b.c.hash(ps) }

// ---- Substrate pallet fake
type c3SubPallet struct{ c *c3Chain }

func (b *c3SubPallet) IsProposalExecuted(p *transfer.TransferProposal) (bool, error) {
	return b.c.isExecuted(p)
}
func (b *c3SubPallet) ExecuteProposals(ps []*transfer.TransferProposal, sig []byte) (types.Hash, *author.ExtrinsicStatusSubscription, error) {
	return types.Hash{}, nil, errors.New("not reached in harness")
}
func (b *c3SubPallet) ProposalsHash(ps []*transfer.TransferProposal) ([]byte, error) { return b.c.hash(ps) }
func (b *c3SubPallet) TrackExtrinsic(h types.Hash, sub *author.ExtrinsicStatusSubscription) error {
	return errors.New("not reached in harness")
}

func c3TransferProps(nonces []uint64, msgID string) []*proposal.Proposal {
	ps := []*proposal.Proposal{}
	for _, n := range nonces {
		ps = append(ps, proposal.NewProposal(c3Src, c3Dst, transfer.TransferProposalData{
			DepositNonce: n, Metadata: map[string]interface{}{}, Data: []byte{byte(n)},
		}, msgID, transfer.TransferProposalType))
	}
	return ps
}

func c3Range(n int) []uint64 {
	xs := make([]uint64, n)
	for i := range xs {
		xs[i] = uint64(i)
	}
	return xs
}

func c3Nonces(s string) []uint64 {
	xs := []uint64{}
	for _, it := range items(s, ",") {
		xs = append(xs, u64(it))
	}
	return xs
}

func c3Script(s string) string {
	if s == "-" {
		return ""
	}
	return s
}

// ---- BTC fakes
type c3Uploader struct {
	mu       sync.Mutex
	sessions []string
}

func (u *c3Uploader) Upload(data []map[string]interface{}) (string, error) {
	u.mu.Lock()
	defer u.mu.Unlock()
	xs := []string{}
	for _, d := range data {
		xs = append(xs, utoa(d["depositNonce"].(uint64)))
	}
	u.sessions = append(u.sessions, joinOr(xs, ","))
	return "", errors.New("upload refused by harness")
}

func (u *c3Uploader) take() string {
	u.mu.Lock()
	defer u.mu.Unlock()
	s := u.sessions
	u.sessions = nil
	return c3Sessions(s)
}

type c3Mempool struct{}

func (c3Mempool) RecommendedFee() (*mempool.Fee, error) { return nil, errors.New("not reached") }
func (c3Mempool) Utxos(a string) ([]mempool.Utxo, error) { return nil, errors.New("not reached") }

func c3Resource(letter byte) [32]byte {
	r := [32]byte{}
	r[31] = letter
	return r
}

func c3BtcProps(nonces []uint64, res string, msgID string) []*proposal.Proposal {
	ps := []*proposal.Proposal{}
	for i, n := range nonces {
		l := byte('a')
		if i < len(res) {
			l = res[i]
		}
		ps = append(ps, proposal.NewProposal(c3Src, c3Dst, btcExecutor.BtcTransferProposalData{
			Amount: 1000 + n, Recipient: c3Recipient, DepositNonce: n, ResourceId: c3Resource(l),
		}, msgID, transfer.TransferProposalType))
	}
	return ps
}

type c3Btc struct {
	db  *c3DB
	up  *c3Uploader
	exe *btcExecutor.Executor
}

func newC3Btc(faults string) *c3Btc {
	db := newC3DB(faults)
	up := &c3Uploader{}
	res := map[[32]byte]btcConfig.Resource{}
	for _, l := range []byte("abc") {
		res[c3Resource(l)] = btcConfig.Resource{ResourceID: c3Resource(l)}
	}
	exe := btcExecutor.NewExecutor(store.NewPropStore(db), nil, nil, nil, nil, nil, c3Mempool{}, res,
		chaincfg.TestNet3Params, &sync.RWMutex{}, up)
	return &c3Btc{db: db, up: up, exe: exe}
}

// one delivery through the exported Execute; a panic is an outcome of the step, not of the whole history
func (b *c3Btc) deliver(ps []*proposal.Proposal) (out string) {
	defer func() {
		if r := recover(); r != nil {
			out = "panic|" + b.up.take()
		}
	}()
	err := b.exe.Execute(ps)
	return c3Ret(err) + "|" + b.up.take()
}

func (b *c3Btc) statuses(n int) string {
	var sb strings.Builder
	for i := 0; i < n; i++ {
		sb.WriteString(b.db.letter(c3Src, c3Dst, uint64(i)))
	}
	if n == 0 {
		return "-"
	}
	return sb.String()
}

func init() {
	// evm <cap> <tg> <script>  =>  <nil|err>|<sessions>      (nonce = position in the delivery)
	ops["C03.evm"] = func(a []string) string {
		sc := c3Script(a[2])
		ch := &c3Chain{script: sc, failAt: -1, executed: map[uint64]bool{}}
		e := evmExecutor.NewExecutor(nil, nil, nil, &c3EvmBridge{ch}, nil, &sync.RWMutex{}, u64(a[0]), u64(a[1]))
		err := e.Execute(c3TransferProps(c3Range(len(sc)), "m"))
		return c3Ret(err) + "|" + ch.takeSessions()
	}
	// sub <script>  =>  <nil|err>|<sessions>
	ops["C03.sub"] = func(a []string) string {
		sc := c3Script(a[0])
		ch := &c3Chain{script: sc, failAt: -1, executed: map[uint64]bool{}}
		e := subExecutor.NewExecutor(nil, nil, nil, &c3SubPallet{ch}, nil, nil, &sync.RWMutex{})
		err := e.Execute(c3TransferProps(c3Range(len(sc)), "m"))
		return c3Ret(err) + "|" + ch.takeSessions()
	}
	// btc <resources> <initial statuses> <faults>  =>  <nil|err|panic>|<sessions>|<final statuses>
	ops["C03.btc"] = func(a []string) string {
		res, init := c3Script(a[0]), c3Script(a[1])
		b := newC3Btc(a[2])
		for i := range init {
			b.db.preset(c3Src, c3Dst, uint64(i), init[i:i+1])
		}
		out := b.deliver(c3BtcProps(c3Range(len(init)), res, "m"))
		return out + "|" + b.statuses(len(init))
	}
	// hist <evm|sub> <ops>   ops '/'-separated: D<nonces> deliver, X<nonces> destination executes them,
	//                        L<k> the k-th status lookup of the next delivery fails
	//   =>  one `<nil|err>|<sessions>` per delivery, '/'-separated
	ops["C03.hist"] = func(a []string) string {
		ch := &c3Chain{executed: map[uint64]bool{}, failAt: -1}
		var exec func(ps []*proposal.Proposal) error
		if a[0] == "evm" {
			exec = evmExecutor.NewExecutor(nil, nil, nil, &c3EvmBridge{ch}, nil, &sync.RWMutex{}, 150, 60).Execute
		} else {
			exec = subExecutor.NewExecutor(nil, nil, nil, &c3SubPallet{ch}, nil, nil, &sync.RWMutex{}).Execute
		}
		out := []string{}
		for _, op := range items(a[1], "/") {
			switch op[0] {
			case 'D':
				ch.k = 0
				err := exec(c3TransferProps(c3Nonces(c3Arg(op)), "m"))
				out = append(out, c3Ret(err)+"|"+ch.takeSessions())
				ch.failAt = -1
			case 'X':
				for _, n := range c3Nonces(c3Arg(op)) {
					ch.executed[n] = true
				}
			case 'L':
				ch.failAt = int(u64(op[1:]))
			default:
				panic("bad op")
			}
		}
		return joinOr(out, "/")
	}
	// histbtc <n> <ops>   ops '/'-separated: D<nonces>[@faults] deliver (resource = a for even, b for odd nonces),
	//                     S<nonces> execution of these succeeded, F<nonces> failed (recorded via storeProposalsStatus),
	//                     T<nonces> a stale session holding these proposals hits its signing time-out (real watchExecution)
	//   =>  per op `<ret>|<sessions>~<statuses of nonces 0..n-1 afterwards>` (`-~<statuses>` for S/F/T), '/'-separated,
	//       then `#<final statuses>`
	ops["C03.histbtc"] = func(a []string) string {
		n := int(u64(a[0]))
		b := newC3Btc("-")
		out := []string{}
		for _, op := range items(a[1], "/") {
			arg, faults := c3Arg(op), "-"
			if i := strings.Index(arg, "@"); i >= 0 {
				arg, faults = arg[:i], arg[i+1:]
				if arg == "" {
					arg = "-"
				}
			}
			ns := c3Nonces(arg)
			b.db.setFaults(faults)
			switch op[0] {
			case 'D':
				res := make([]byte, len(ns))
				for i, x := range ns {
					res[i] = "ab"[x%2]
				}
				out = append(out, b.deliver(c3BtcProps(ns, string(res), "m"))+"~"+b.statuses(n))
			case 'S', 'F':
				st := store.ExecutedProp
				if op[0] == 'F' {
					st = store.FailedProp
				}
				ps := []*btcExecutor.BtcTransferProposal{}
				for _, x := range ns {
					ps = append(ps, &btcExecutor.BtcTransferProposal{Source: c3Src, Destination: c3Dst,
						Data: btcExecutor.BtcTransferProposalData{DepositNonce: x}})
				}
				if !b.exe.VerifC17MutexFree() {
					return joinOr(out, "/") + "#locked"
				}
				b.exe.VerifC17StoreProposalsStatus(ps, st)
				out = append(out, "-~"+b.statuses(n))
			case 'T':
				// a stale watcher for these proposals (its session never signs) runs into the signing time-out
				ps := []*btcExecutor.BtcTransferProposal{}
				for _, x := range ns {
					ps = append(ps, &btcExecutor.BtcTransferProposal{Source: c3Src, Destination: c3Dst,
						Data: btcExecutor.BtcTransferProposalData{DepositNonce: x}})
				}
				if r := c17Timeout(b.exe, ps); r != "t" {
					return joinOr(out, "/") + "#" + r
				}
				out = append(out, "-~"+b.statuses(n))
			default:
				panic("bad op")
			}
			if !b.exe.VerifC17MutexFree() {
				return joinOr(out, "/") + "#locked"
			}
		}
		return joinOr(out, "/") + "#" + b.statuses(n)
	}
	gens["C03"] = genC03
}

func c3Arg(op string) string {
	if len(op) <= 1 {
		return "-"
	}
	return op[1:]
}

func genC03(g *G) {
	genC03Lookups(g)
	genC03Submit(g)
	genC03Watch(g)
	// exhaustive: every assignment of not-executed / executed / lookup-error to deliveries of 0..L proposals
	L := g.Count(6, 8)
	var rec func(prefix string)
	rec = func(prefix string) {
		g.Emit("sub", joinOr1(prefix))
		g.Emit("evm", "100", "60", joinOr1(prefix))
		if len(prefix) <= L-1 {
			g.Emit("evm", "200", "60", joinOr1(prefix))
		}
		if len(prefix) == L {
			return
		}
		for _, c := range "pex" {
			rec(prefix + string(c))
		}
	}
	rec("")
	// BTC exhaustive: statuses × resources for ≤ Lb proposals without faults; then every single fault position
	Lb := g.Count(3, 4)
	var recb func(res, st string)
	recb = func(res, st string) {
		g.Emit("btc", joinOr1(res), joinOr1(st), "-")
		for k := 0; k < 2*len(st); k++ {
			g.Emit("btc", joinOr1(res), joinOr1(st), c3SingleFault(g, k))
		}
		if len(st) == Lb {
			return
		}
		for _, r := range "ab" {
			for _, s := range "mpfe" {
				recb(res+string(r), st+string(s))
			}
		}
	}
	recb("", "")
	// random longer deliveries
	for i := 0; i < g.Count(400, 20000); i++ {
		n := g.Intn(14)
		var sb strings.Builder
		for j := 0; j < n; j++ {
			switch {
			case g.Intn(25) == 0:
				sb.WriteByte('x')
			case g.Intn(3) == 0:
				sb.WriteByte('e')
			default:
				sb.WriteByte('p')
			}
		}
		s := joinOr1(sb.String())
		g.Emit("sub", s)
		g.Emit("evm", g.Pick([]string{"1", "100", "130", "200", "1000", "18446744073709551615"}), g.Pick([]string{"0", "60", "99"}), s)
	}
	for i := 0; i < g.Count(400, 20000); i++ {
		n := g.Intn(9)
		var res, st, fl strings.Builder
		for j := 0; j < n; j++ {
			res.WriteByte("aab"[g.Intn(3)])
			st.WriteByte("mmmpfe"[g.Intn(6)])
		}
		for j := 0; j < 2*n; j++ {
			if g.Intn(12) == 0 {
				fl.WriteByte(c3FaultLetter(g))
			} else {
				fl.WriteByte('0')
			}
		}
		g.Emit("btc", joinOr1(res.String()), joinOr1(st.String()), joinOr1(fl.String()))
	}
	// histories: repeated deliveries interleaved with executions
	for i := 0; i < g.Count(300, 15000); i++ {
		k := 1 + g.Intn(9)
		opsl := []string{}
		for j := 0; j < k; j++ {
			switch g.Intn(6) {
			case 0, 1, 2:
				opsl = append(opsl, "D"+c3RandNonces(g, 5, 6))
			case 3, 4:
				opsl = append(opsl, "X"+c3RandNonces(g, 5, 3))
			default:
				opsl = append(opsl, "L"+itoa(g.Intn(4)))
			}
		}
		g.Emit("hist", g.Pick([]string{"evm", "sub"}), joinOr(opsl, "/"))
	}
	for i := 0; i < g.Count(400, 20000); i++ {
		k := 1 + g.Intn(10)
		opsl := []string{}
		for j := 0; j < k; j++ {
			f := ""
			if g.Intn(5) == 0 {
				var fl strings.Builder
				for q := 0; q < 8; q++ {
					if g.Intn(5) == 0 {
						fl.WriteByte(c3FaultLetter(g))
					} else {
						fl.WriteByte('0')
					}
				}
				f = "@" + fl.String()
			}
			switch g.Intn(7) {
			case 0, 1, 2:
				opsl = append(opsl, "D"+c3RandNonces(g, 5, 5)+f)
			case 3, 4:
				opsl = append(opsl, "S"+c3RandNonces(g, 5, 3)+f)
			case 5:
				opsl = append(opsl, "F"+c3RandNonces(g, 5, 3)+f)
			default:
				opsl = append(opsl, "T"+c3RandNonces(g, 5, 3))
			}
		}
		g.Emit("histbtc", "5", joinOr(opsl, "/"))
	}
	// a stale session (released, re-delivered, executed by the newer session) runs into its signing time-out; any
	// later delivery must still skip what is recorded executed
	for _, ns := range []string{"0", "1,2", "0,1,2", "3,0"} {
		for _, rel := range []string{"F", "T"} {
			g.Emit("histbtc", "5", "D"+ns+"/"+rel+ns+"/D"+ns+"/S"+ns+"/T"+ns+"/D"+ns+",4")
		}
	}
}

func joinOr1(s string) string {
	if s == "" {
		return "-"
	}
	return s
}

// up to maxLen nonces below n (repeats allowed, rarely), "" for the empty list
func c3RandNonces(g *G, n, maxLen int) string {
	k := g.Intn(maxLen + 1)
	xs := []string{}
	for i := 0; i < k; i++ {
		xs = append(xs, itoa(g.Intn(n)))
	}
	if len(xs) == 0 {
		return ""
	}
	return strings.Join(xs, ",")
}
