package main

// C14 — EVM executor batching; also serves C03 (EVM executed filter).

import (
	"bytes"
	"encoding/json"
	"errors"
	"fmt"
	"sort"
	"strings"
	"sync"

	"github.com/ChainSafe/sygma-relayer/chains/evm/executor"
	"github.com/ChainSafe/sygma-relayer/keyshare"
	"github.com/ChainSafe/sygma-relayer/relayer/transfer"
	tsscommon "github.com/binance-chain/tss-lib/common"
	ethCommon "github.com/ethereum/go-ethereum/common"
	"github.com/rs/zerolog"
	"github.com/rs/zerolog/log"
	"github.com/sygmaprotocol/sygma-core/chains/evm/transactor"
	"github.com/sygmaprotocol/sygma-core/relayer/proposal"
)

// fakeBridge answers IsProposalExecuted from a script indexed by deposit nonce and records calls.
type fakeBridge struct {
	mu       sync.Mutex
	status   map[[2]uint64]string // (source, nonce) -> p|e|x
	events   []string
	serial   *sync.Mutex // held from ProposalsHash until the fetcher is reached (pairs log lines with batches)
	hashErr  bool
	execArgs []string
}

func (b *fakeBridge) IsProposalExecuted(p *transfer.TransferProposal) (bool, error) {
	switch b.status[[2]uint64{uint64(p.Source), p.Data.DepositNonce}] {
	case "e":
		return true, nil
	case "x":
		return false, errors.New("lookup failed")
	}
	return false, nil
}
func (b *fakeBridge) ExecuteProposals(ps []*transfer.TransferProposal, sig []byte, opts transactor.TransactOptions) (*ethCommon.Hash, error) {
	b.mu.Lock()
	defer b.mu.Unlock()
	b.execArgs = append(b.execArgs, fmt.Sprintf("%s/%d/%s", nonces(ps), opts.GasLimit, hx(sig)))
	h := ethCommon.Hash{}
	return &h, nil
}
func (b *fakeBridge) ProposalsHash(ps []*transfer.TransferProposal) ([]byte, error) {
	if b.serial != nil {
		b.serial.Lock()
	}
	b.mu.Lock()
	b.events = append(b.events, "H:"+nonces(ps))
	b.mu.Unlock()
	if b.hashErr {
		if b.serial != nil {
			b.serial.Unlock()
		}
		return nil, errors.New("hash failed")
	}
	return make([]byte, 32), nil
}

func nonces(ps []*transfer.TransferProposal) string {
	xs := []string{}
	for _, p := range ps {
		xs = append(xs, utoa(p.Data.DepositNonce))
	}
	return joinOr(xs, ",")
}

// failFetcher makes NewSigning fail right after the session id was chosen and logged.
type failFetcher struct{ serial *sync.Mutex }

func (f *failFetcher) GetKeyshare() (keyshare.ECDSAKeyshare, error) {
	defer f.serial.Unlock()
	return keyshare.ECDSAKeyshare{}, errors.New("no share in harness")
}
func (f *failFetcher) LockKeyshare()   {}
func (f *failFetcher) UnlockKeyshare() {}

// mkProps: items `<gas|n>:<p|e|x>[:<source domain>]`; deposit nonce = index, source domain 1 unless given.
func mkProps(spec string, msgID string) ([]*proposal.Proposal, map[[2]uint64]string) {
	ps := []*proposal.Proposal{}
	st := map[[2]uint64]string{}
	for i, it := range items(spec, ";") {
		f := strings.Split(it, ":")
		md := map[string]interface{}{}
		if f[0] != "n" {
			md["gasLimit"] = u64(f[0])
		}
		src := uint64(1)
		if len(f) > 2 {
			src = u64(f[2])
		}
		st[[2]uint64{src, uint64(i)}] = f[1]
		ps = append(ps, proposal.NewProposal(uint8(src), 2, transfer.TransferProposalData{
			DepositNonce: uint64(i), Metadata: md, Data: []byte{byte(i)},
		}, msgID, transfer.TransferProposalType))
	}
	return ps, st
}

func init() {
	// batches <cap> <tg> <props>  =>  idx,idx/gas;…  | err
	ops["C14.batches"] = func(a []string) string {
		ps, st := mkProps(a[2], "m")
		br := &fakeBridge{status: st}
		e := executor.NewExecutor(nil, nil, nil, br, nil, &sync.RWMutex{}, u64(a[0]), u64(a[1]))
		bs, err := e.VerifProposalBatches(ps)
		if err != nil {
			return "err"
		}
		out := []string{}
		for _, b := range bs {
			out = append(out, nonces(b.Proposals)+"/"+utoa(b.GasLimit))
		}
		return joinOr(out, ";")
	}
	// exec <cap> <tg> <msgId> <props>  =>  sessionId=idx,idx;… sorted | err  (what Execute hands to hashing/signing)
	ops["C14.exec"] = func(a []string) string {
		ps, st := mkProps(a[3], a[2])
		serial := &sync.Mutex{}
		br := &fakeBridge{status: st, serial: serial}
		e := executor.NewExecutor(nil, nil, nil, br, &failFetcher{serial}, &sync.RWMutex{}, u64(a[0]), u64(a[1]))
		var buf bytes.Buffer
		old, oldLvl := log.Logger, zerolog.GlobalLevel()
		log.Logger = zerolog.New(&lockedWriter{w: &buf, br: br, msgID: a[2]})
		zerolog.SetGlobalLevel(zerolog.InfoLevel)
		_ = e.Execute(ps)
		log.Logger = old
		zerolog.SetGlobalLevel(oldLvl)
		// events: H:<nonces> followed by S:<session>
		out := []string{}
		for i := 0; i < len(br.events); i++ {
			if strings.HasPrefix(br.events[i], "H:") {
				sid := "?"
				if i+1 < len(br.events) && strings.HasPrefix(br.events[i+1], "S:") {
					sid = br.events[i+1][2:]
				}
				out = append(out, sid+"="+br.events[i][2:])
			}
		}
		sort.Strings(out)
		if len(br.events) == 0 && anyStatus(st, "x") {
			return "err"
		}
		return joinOr(out, ";")
	}
	// submit <cap> <tg> <props>  =>  idx,idx/gasLimit;…  : what executeBatch hands to BridgeContract.ExecuteProposals
	ops["C14.submit"] = func(a []string) string {
		ps, st := mkProps(a[2], "m")
		br := &fakeBridge{status: st}
		e := executor.NewExecutor(nil, nil, nil, br, nil, &sync.RWMutex{}, u64(a[0]), u64(a[1]))
		bs, err := e.VerifProposalBatches(ps)
		if err != nil {
			return "err"
		}
		sig := &tsscommon.SignatureData{R: []byte{1}, S: []byte{2}, SignatureRecovery: []byte{0}}
		for _, b := range bs {
			if len(b.Proposals) == 0 {
				continue
			}
			if _, err := e.VerifExecuteBatch(b.Proposals, b.GasLimit, sig); err != nil {
				return "err"
			}
		}
		out := []string{}
		for _, x := range br.execArgs {
			f := strings.Split(x, "/")
			out = append(out, f[0]+"/"+f[1])
		}
		return joinOr(out, ";")
	}
	// submitlate <cap> <tg> <props> <idx,idx,…>  =>  as submit : the listed proposals (by index) are reported executed by the
	// destination AFTER the batches were built (another relayer got there first, signing took a while). The transaction a
	// batch is submitted in is still the batch that was hashed and signed, with its own members' gas.
	ops["C14.submitlate"] = func(a []string) string {
		ps, st := mkProps(a[2], "m")
		br := &fakeBridge{status: st}
		e := executor.NewExecutor(nil, nil, nil, br, nil, &sync.RWMutex{}, u64(a[0]), u64(a[1]))
		bs, err := e.VerifProposalBatches(ps)
		if err != nil {
			return "err"
		}
		for _, ix := range items(a[3], ",") {
			i := u64(ix)
			if int(i) >= len(ps) {
				return "BADARGS"
			}
			st[[2]uint64{uint64(ps[i].Source), i}] = "e"
		}
		sig := &tsscommon.SignatureData{R: []byte{1}, S: []byte{2}, SignatureRecovery: []byte{0}}
		for _, b := range bs {
			if len(b.Proposals) == 0 {
				continue
			}
			if _, err := e.VerifExecuteBatch(b.Proposals, b.GasLimit, sig); err != nil {
				return "err"
			}
		}
		out := []string{}
		for _, x := range br.execArgs {
			f := strings.Split(x, "/")
			out = append(out, f[0]+"/"+f[1])
		}
		return joinOr(out, ";")
	}
	// batchseq <cap> <tg> <delivery>|<delivery>|…  =>  <batches>|<batches>|… : several deliveries handled by ONE Executor
	// object (the bridge's answers are those of the current delivery): batching is a function of the delivery alone
	ops["C14.batchseq"] = func(a []string) string {
		br := &fakeBridge{}
		e := executor.NewExecutor(nil, nil, nil, br, nil, &sync.RWMutex{}, u64(a[0]), u64(a[1]))
		outs := []string{}
		for _, d := range strings.Split(a[2], "|") {
			ps, st := mkProps(d, "m")
			br.status = st
			bs, err := e.VerifProposalBatches(ps)
			if err != nil {
				outs = append(outs, "err")
				continue
			}
			out := []string{}
			for _, b := range bs {
				out = append(out, nonces(b.Proposals)+"/"+utoa(b.GasLimit))
			}
			outs = append(outs, joinOr(out, ";"))
		}
		return strings.Join(outs, "|")
	}
	// sigsession: the session ids the signing processes run under (op of C19: real NewSigning + real coordinator)
	ops["C14.sigsession"] = func(a []string) string { return ops["C19.evmsigsession"](a) }
	// sigwatch: what the real watchExecution submits after executed-status ticks that precede the signature (op of C03)
	ops["C14.sigwatch"] = func(a []string) string { return ops["C03.sigwatch"](a) }
	gens["C14"] = genC14
}

func anyStatus(st map[[2]uint64]string, s string) bool {
	for _, v := range st {
		if v == s {
			return true
		}
	}
	return false
}

// lockedWriter turns the log line that announces a session (any wording, as long as it mentions the id) into an S: event
// right after the H: event of the batch it belongs to.
type lockedWriter struct {
	w     *bytes.Buffer
	br    *fakeBridge
	msgID string
}

func isDecimal(s string) bool {
	if s == "" {
		return false
	}
	for _, c := range s {
		if c < '0' || c > '9' {
			return false
		}
	}
	return true
}

func (l *lockedWriter) Write(p []byte) (int, error) {
	var m map[string]interface{}
	if json.Unmarshal(p, &m) == nil {
		// the session id is whatever token of the log message has the form <message id>-<decimal> (the wording of the
		// line is free); a line that does not mention one is not an observation
		if s, ok := m["message"].(string); ok && l.msgID != "" {
			for _, tok := range strings.FieldsFunc(s, func(r rune) bool { return r == ' ' || r == ':' || r == ',' || r == '"' || r == '\'' || r == '(' || r == ')' }) {
				if strings.HasPrefix(tok, l.msgID+"-") && isDecimal(tok[len(l.msgID)+1:]) {
					l.br.mu.Lock()
					if n := len(l.br.events); n > 0 && strings.HasPrefix(l.br.events[n-1], "H:") {
						l.br.events = append(l.br.events, "S:"+tok)
					}
					l.br.mu.Unlock()
					break
				}
			}
		}
	}
	return len(p), nil
}

func genC14(g *G) {
	// exhaustive small scope: sequences of length ≤ L over a gas alphabet relative to cap, × executed flag
	cap, tg := uint64(100), uint64(60)
	alpha := []string{"n:p", "n:e", "0:p", "39:p", "40:p", "41:p", "100:p", "20:e"}
	L := g.Count(4, 5)
	var rec func(prefix []string, depth int)
	rec = func(prefix []string, depth int) {
		g.Emit("batches", utoa(cap), utoa(tg), joinOr(prefix, ";"))
		if depth == L {
			return
		}
		for _, a := range alpha {
			rec(append(append([]string{}, prefix...), a), depth+1)
		}
	}
	rec(nil, 0)
	// random: caps / transfer gas / allowances around the cap and around 2^64
	for i := 0; i < g.Count(1500, 60000); i++ {
		c := []uint64{1, 50, 100, 1000, 1 << 32, 1<<64 - 1}[g.Intn(6)]
		t := []uint64{0, 1, c / 3, c / 2, c - 1, c, c + 1}[g.Intn(7)]
		n := g.Intn(9)
		xs := []string{}
		for j := 0; j < n; j++ {
			gs := "n"
			switch g.Intn(6) {
			case 0:
				gs = utoa(uint64(g.Intn(int(minU(c, 1<<30)) + 1)))
			case 1:
				gs = utoa(c - minU(c, t))
			case 2:
				gs = utoa(c)
			case 3:
				if g.Intn(20) == 0 {
					gs = utoa(1<<64 - 1 - uint64(g.Intn(3)))
				}
			}
			st := "p"
			if g.Intn(4) == 0 {
				st = "e"
			}
			if g.Intn(60) == 0 {
				st = "x"
			}
			xs = append(xs, gs+":"+st)
		}
		g.Emit("batches", utoa(c), utoa(t), joinOr(xs, ";"))
	}
	// submission: the gas limit of the transaction is the batch's own gas (also for single proposals above the cap)
	for i := 0; i < g.Count(300, 6000); i++ {
		n := 1 + g.Intn(5)
		xs := []string{}
		for j := 0; j < n; j++ {
			st := "p"
			if g.Intn(5) == 0 {
				st = "e"
			}
			xs = append(xs, []string{"n", "0", "39", "40", "41", "100", "250", "1000"}[g.Intn(8)]+":"+st)
		}
		g.Emit("submit", "100", []string{"60", "0", "100", "101"}[g.Intn(4)], joinOr(xs, ";"))
	}
	// the same with some members executed by somebody else between batching and submission
	for i := 0; i < g.Count(300, 6000); i++ {
		n := 2 + g.Intn(5)
		xs := []string{}
		late := []string{}
		for j := 0; j < n; j++ {
			st := "p"
			if g.Intn(6) == 0 {
				st = "e"
			} else if g.Intn(3) == 0 {
				late = append(late, utoa(uint64(j)))
			}
			xs = append(xs, []string{"n", "0", "5", "39", "40", "41", "100", "250"}[g.Intn(8)]+":"+st)
		}
		g.Emit("submitlate", []string{"100", "1000"}[g.Intn(2)], []string{"60", "0", "10", "101"}[g.Intn(4)], joinOr(xs, ";"), joinOr(late, ","))
	}
	// several deliveries on one Executor, proposals from different source domains with equal nonces, executed earlier /
	// pending later and the other way round
	for i := 0; i < g.Count(250, 5000); i++ {
		nd := 2 + g.Intn(3)
		ds := []string{}
		for k := 0; k < nd; k++ {
			n := 1 + g.Intn(4)
			xs := []string{}
			for j := 0; j < n; j++ {
				st := []string{"p", "p", "e", "e", "x"}[g.Intn(5)]
				if st == "x" && g.Intn(4) != 0 {
					st = "p"
				}
				xs = append(xs, []string{"n", "0", "40", "100"}[g.Intn(4)]+":"+st+":"+itoa(1+g.Intn(3)))
			}
			ds = append(ds, strings.Join(xs, ";"))
		}
		g.Emit("batchseq", "100", []string{"60", "0"}[g.Intn(2)], strings.Join(ds, "|"))
	}
	// Execute-level with a zero transfer gas cost: batches whose gas limit is 0 still have members and must be signed
	for i := 0; i < g.Count(80, 1500); i++ {
		n := 1 + g.Intn(5)
		xs := []string{}
		for j := 0; j < n; j++ {
			st := "p"
			if g.Intn(4) == 0 {
				st = "e"
			}
			xs = append(xs, []string{"n", "n", "0", "40", "100"}[g.Intn(5)]+":"+st)
		}
		g.Emit("exec", "100", "0", "m", joinOr(xs, ";"))
		g.Emit("submit", "100", "0", joinOr(xs, ";"))
	}
	// the ids the signing processes run under, several batches per delivery
	for _, sp := range []string{"n:p;n:p;n:p", "100:p;n:p", "n:e;n:p;41:p;n:p", "41:p"} {
		g.Emit("sigsession", "100", "60", []string{"1-2-100-104", "retry-7"}[g.Intn(2)], sp)
	}
	// submission after ticks with partly executed batches: proposals and gas limit of the hashed batch, unchanged
	for _, sc := range []string{"epp", "pep", "ppe", "epe", "epp/eep", "pep/pee", "ppp/epp/eep"} {
		g.Emit("sigwatch", "evm", "180", "6,8,9", sc)
	}
	g.Emit("sigwatch", "evm", "120", "3,7", "ep")
	g.Emit("sigwatch", "evm", "120", "3,7", "pe")
	// Execute-level: which batches are hashed/signed and under which session id
	mids := []string{"1-2-100-104", "m", "retry-1-2-7"}
	for i := 0; i < g.Count(150, 3000); i++ {
		n := g.Intn(7)
		xs := []string{}
		for j := 0; j < n; j++ {
			st := "p"
			if g.Intn(3) == 0 {
				st = "e"
			}
			if g.Intn(40) == 0 {
				st = "x"
			}
			xs = append(xs, []string{"n", "0", "40", "41", "100"}[g.Intn(5)]+":"+st)
		}
		g.Emit("exec", "100", "60", g.Pick(mids), joinOr(xs, ";"))
	}
}

func minU(a, b uint64) uint64 {
	if a < b {
		return a
	}
	return b
}
