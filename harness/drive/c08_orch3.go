package main

// C08, third group of orchestration ops: what keygen / resharing hand to the key-share store when the protocol ends, and
// what a Signing object holds and answers after it has been Run before (retries with another subset).

import (
	"context"
	"encoding/json"
	"errors"
	"fmt"
	"math/big"
	"strings"
	"sync"
	"time"

	"github.com/ChainSafe/sygma-relayer/comm"

	"github.com/ChainSafe/sygma-relayer/keyshare"
	tssErrors "github.com/ChainSafe/sygma-relayer/tss"
	ecdsaKeygen "github.com/ChainSafe/sygma-relayer/tss/ecdsa/keygen"
	ecdsaResharing "github.com/ChainSafe/sygma-relayer/tss/ecdsa/resharing"
	ecdsaSigning "github.com/ChainSafe/sygma-relayer/tss/ecdsa/signing"
	frostSigning "github.com/ChainSafe/sygma-relayer/tss/frost/signing"
	"github.com/libp2p/go-libp2p/core/peer"
)

// endstore <ekeygen|ereshare> <old key's peers|none> <old key's threshold> <peer store (the new committee)> <new threshold>
// the REAL processEndMessage with the library's end message waiting; what reaches the storer
//   =>  thr=<stored threshold>;peers=<stored committee>;pub=<1: the key material delivered>   | err | nothing
func c08OpEndStore(a []string) string {
	fx, err := c18Fixture("ecdsa", 0)
	if err != nil {
		return "nofixture"
	}
	st := &c08ECDSAStore{}
	if a[1] != "none" {
		st.has = true
		st.key = keyshare.ECDSAKeyshare{Key: fx.ecdsa.Key, Threshold: int(i64(a[2])), Peers: c08Peers(a[1])}
	}
	ps := c08Peers(a[3])
	var id peer.ID
	if len(ps) > 0 {
		id = ps[0]
	}
	host := &c08Host{id: id, peers: ps}
	nthr := int(i64(a[4]))
	switch a[0] {
	case "ekeygen":
		err = ecdsaKeygen.NewKeygen("sid", nthr, host, nil, st).VerifProcessEnd(fx.ecdsa.Key)
	case "ereshare":
		err = ecdsaResharing.NewResharing("sid", nthr, host, nil, st).VerifProcessEnd(fx.ecdsa.Key)
	default:
		return "badkind"
	}
	if err != nil {
		return "err"
	}
	if len(st.stored) != 1 {
		return "nothing"
	}
	k := st.stored[0]
	pub := 0
	if k.Key.ECDSAPub != nil && k.Key.ECDSAPub.Equals(fx.ecdsa.Key.ECDSAPub) && k.Key.Xi.Cmp(fx.ecdsa.Key.Xi) == 0 {
		pub = 1
	}
	return fmt.Sprintf("thr=%d;peers=%s;pub=%d", k.Threshold, c08ShowPeers(k.Peers), pub)
}

// rerun <ecdsa|frost> <self: fixture index> <subsets of fixture indexes, one per Run, e.g. 2,0|0,1> <ready sets to probe, e.g. 0,1,2|0,1> <the three holders' ids (for the model)>
// ONE Signing object over the fixture share of `self`, Run once per subset (as the coordinator does when it retries a
// session); a Run that gets as far as starting the protocol is then cancelled. After every Run: the party index the object
// holds for every member of the CURRENT subset (ECDSA), and what Ready / StartParams answer for each probe set.
//   =>  per Run, joined by `/`:  <started|notmember|err>;idx=<peer index:party index,…|->;ready=<0|1 per probe>;n=<subset size per probe>
func c08OpRerun(a []string) string {
	all, err := c08FixturePeers()
	if err != nil {
		return "nofixture"
	}
	self := int(u64(a[1]))
	host := &c08Host{id: all[self], peers: all}
	net := newC08Net(1, 1)
	defer close(net.done)
	cm := &c08CountComm{c08Comm: c08Comm{net: net, self: all[self]}}
	var es *ecdsaSigning.Signing
	var fs *frostSigning.Signing
	if a[0] == "ecdsa" {
		es, err = ecdsaSigning.NewSigning(big.NewInt(12345), "m", "sid-rerun", host, cm, keyshare.NewECDSAKeyshareStore(fmt.Sprintf("%s/tss/test/keyshares/%d.keyshare", repoRoot(), self)))
	} else {
		fs, err = frostSigning.NewSigning(0, make([]byte, 32), c08One, "m", "sid-rerun", host, cm, keyshare.NewFrostKeyshareStore(fmt.Sprintf("%s/tss/test/keyshares/%d-frost.keyshare", repoRoot(), self)))
	}
	if err != nil {
		return "newsigning"
	}
	probes := [][]peer.ID{}
	for _, pr := range strings.Split(a[3], "|") {
		ps := []peer.ID{}
		for _, i := range c08Subset(pr) {
			ps = append(ps, all[i])
		}
		probes = append(probes, ps)
	}
	out := []string{}
	for _, sub := range strings.Split(a[2], "|") {
		subset := []peer.ID{}
		for _, i := range c08Subset(sub) {
			subset = append(subset, all[i])
		}
		params, _ := json.Marshal(subset)
		var prevParty interface{}
		var prevHandler interface{}
		if es != nil {
			prevParty = es.Party
		} else {
			prevHandler = fs.Handler
		}
		ctx, cancel := context.WithCancel(context.Background())
		errC := make(chan error, 1)
		sent0 := cm.count()
		go func() {
			defer func() { // a panic inside Run (the library refusing an impossible party index) is an outcome, not a harness crash
				if r := recover(); r != nil {
					errC <- fmt.Errorf("panic in Run")
				}
			}()
			if es != nil {
				errC <- es.Run(ctx, true, make(chan interface{}, 4), params)
			} else {
				errC <- fs.Run(ctx, true, make(chan interface{}, 4), params)
			}
		}()
		// the run either returns at once (not a member of the subset, bad parameters) or reaches the protocol: then its party /
		// handler exists; it is cancelled there (the FROST process still sleeps out its start-up pause in the background)
		res := ""
		deadline := time.After(15 * time.Second)
		for res == "" {
			select {
			case e := <-errC:
				if e == nil {
					res = "started"
				} else if strings.Contains(e.Error(), "panic in Run") {
					res = "panic"
				} else if se := (*tssErrors.SubsetError)(nil); errors.As(e, &se) { // by TYPE, never by the error's wording
					res = "notmember"
				} else {
					res = "err"
				}
			case <-deadline:
				res = "stuck"
			case <-time.After(2 * time.Millisecond):
				// ECDSA: the party has put out its whole first round (one message per other member), so
				// Party.Start has returned and Run sits in its wait; FROST: the handler of this run exists
				if (es != nil && es.Party != nil && interface{}(es.Party) != prevParty && cm.count()-sent0 >= len(subset)-1) ||
					(fs != nil && fs.Handler != nil && interface{}(fs.Handler) != prevHandler) {
					res = "started"
				}
			}
		}
		cancel()
		if es != nil && res == "started" {
			select { // an ECDSA run returns once cancelled: wait, so that the next Run does not overlap it
			case <-errC:
			case <-time.After(15 * time.Second):
				return "stuck"
			}
			es.Stop()
		}
		if fs != nil && res == "started" {
			fs.Stop() // (its goroutines end after the start-up pause; the object's fields are left as they are)
		}
		idx := "-"
		if es != nil {
			xs := []string{}
			for _, i := range c08Subset(sub) {
				if p, ok := es.PartyStore[all[i].Pretty()]; ok && p != nil {
					xs = append(xs, fmt.Sprintf("%d:%d", i, p.Index))
				} else {
					xs = append(xs, fmt.Sprintf("%d:-", i))
				}
			}
			idx = joinOr(xs, ",")
		}
		rd, ns := []string{}, []string{}
		for _, pr := range probes {
			var ok bool
			var raw []byte
			if es != nil {
				ok, _ = es.Ready(pr, nil)
				raw = es.StartParams(pr)
			} else {
				ok, _ = fs.Ready(pr, nil)
				raw = fs.StartParams(pr)
			}
			var chosen []peer.ID
			_ = json.Unmarshal(raw, &chosen)
			if ok {
				rd = append(rd, "1")
			} else {
				rd = append(rd, "0")
			}
			ns = append(ns, itoa(len(chosen)))
		}
		out = append(out, fmt.Sprintf("%s;idx=%s;ready=%s;n=%s", res, idx, joinOr(rd, ","), joinOr(ns, ",")))
	}
	return joinOr(out, "/")
}

type c08CountComm struct {
	c08Comm
	mu sync.Mutex
	n  int
}

func (c *c08CountComm) Broadcast(peers peer.IDSlice, msg []byte, t comm.MessageType, sid string) error {
	c.mu.Lock()
	c.n++
	c.mu.Unlock()
	return nil
}
func (c *c08CountComm) count() int {
	c.mu.Lock()
	defer c.mu.Unlock()
	return c.n
}

func init() {
	ops["C08.endstore"] = c08OpEndStore
	ops["C08.rerun"] = c08OpRerun
}
