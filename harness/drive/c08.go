package main

// C08 — threshold signing orchestration (the repository's own logic around the MPC libraries):
// party mapping, resharing parameters and party order, the release rule, readiness, the FROST tweak.
// Real protocol runs (labelled tests) are in c08_runs.go.

import (
	"crypto/sha256"
	"encoding/hex"
	"encoding/json"
	"errors"
	"fmt"
	"math/big"
	"strings"

	"github.com/ChainSafe/sygma-relayer/keyshare"
	ecdsaCommon "github.com/ChainSafe/sygma-relayer/tss/ecdsa/common"
	ecdsaResharing "github.com/ChainSafe/sygma-relayer/tss/ecdsa/resharing"
	ecdsaSigning "github.com/ChainSafe/sygma-relayer/tss/ecdsa/signing"
	frostSigning "github.com/ChainSafe/sygma-relayer/tss/frost/signing"
	tssCommon "github.com/binance-chain/tss-lib/common"
	"github.com/binance-chain/tss-lib/tss"
	"github.com/btcsuite/btcd/btcec/v2"
	"github.com/libp2p/go-libp2p/core/host"
	"github.com/libp2p/go-libp2p/core/peer"
	"github.com/libp2p/go-libp2p/core/peerstore"
	"github.com/taurusgroup/multi-party-sig/pkg/math/curve"
)

// ---------------------------------------------------------------------------------------------- fakes

type c08PS struct {
	peerstore.Peerstore
	peers peer.IDSlice
}

func (p *c08PS) Peers() peer.IDSlice { return append(peer.IDSlice{}, p.peers...) }

type c08Host struct {
	host.Host
	id    peer.ID
	peers peer.IDSlice
}

func (h *c08Host) ID() peer.ID                    { return h.id }
func (h *c08Host) Peerstore() peerstore.Peerstore { return &c08PS{peers: h.peers} }

type c08ECDSAStore struct {
	key    keyshare.ECDSAKeyshare
	has    bool
	stored []keyshare.ECDSAKeyshare
}

func (s *c08ECDSAStore) GetKeyshare() (keyshare.ECDSAKeyshare, error) {
	if !s.has {
		return keyshare.ECDSAKeyshare{}, errors.New("no key share")
	}
	return s.key, nil
}
func (s *c08ECDSAStore) StoreKeyshare(k keyshare.ECDSAKeyshare) error {
	s.stored = append(s.stored, k)
	return nil
}
func (s *c08ECDSAStore) LockKeyshare()   {}
func (s *c08ECDSAStore) UnlockKeyshare() {}

type c08FrostStore struct {
	key    keyshare.FrostKeyshare
	has    bool
	stored []keyshare.FrostKeyshare
}

func (s *c08FrostStore) GetKeyshare() (keyshare.FrostKeyshare, error) {
	if !s.has {
		return keyshare.FrostKeyshare{}, errors.New("no key share")
	}
	k := s.key
	k.Key = s.key.Key.Clone()
	return k, nil
}
func (s *c08FrostStore) StoreKeyshare(k keyshare.FrostKeyshare) error {
	s.stored = append(s.stored, k)
	return nil
}
func (s *c08FrostStore) LockKeyshare()   {}
func (s *c08FrostStore) UnlockKeyshare() {}

// ---------------------------------------------------------------------------------------------- wire helpers

func c08Peers(s string) peer.IDSlice {
	out := peer.IDSlice{}
	for _, it := range items(s, ",") {
		p, err := peer.Decode(it)
		if err != nil {
			panic("bad peer arg " + it)
		}
		out = append(out, p)
	}
	return out
}

func c08ShowPeers(ps []peer.ID) string {
	xs := []string{}
	for _, p := range ps {
		xs = append(xs, p.String())
	}
	return joinOr(xs, ",")
}

func c08ShowParties(ps []*tss.PartyID) string {
	xs := []string{}
	for _, p := range ps {
		if p == nil {
			xs = append(xs, "nil")
			continue
		}
		xs = append(xs, fmt.Sprintf("%d:%s:%s", p.Index, p.Id, new(big.Int).SetBytes(p.Key).String()))
	}
	return joinOr(xs, ";")
}

// peer pool: "Qm…" (sha2-256 multihash, 46 chars) and "12D3KooW…" (identity multihash of an ed25519 key, 52 chars)
func c08PoolPeer(i int) peer.ID {
	h := sha256.Sum256([]byte(fmt.Sprintf("verif-c08-peer-%d", i)))
	if i%3 == 2 {
		return peer.ID(string(append([]byte{0x00, 0x24, 0x08, 0x01, 0x12, 0x20}, h[:]...)))
	}
	return peer.ID(string(append([]byte{0x12, 0x20}, h[:]...)))
}

func init() {
	// parties <peers>  =>  index:id:key;…   (common.PartiesFromPeers)
	ops["C08.parties"] = func(a []string) string {
		return c08ShowParties(ecdsaCommon.PartiesFromPeers(c08Peers(a[0])))
	}
	// roundtrip <peers>  =>  peers  (PeersFromParties ∘ PartiesFromPeers)
	ops["C08.roundtrip"] = func(a []string) string {
		ps, err := ecdsaCommon.PeersFromParties(ecdsaCommon.PartiesFromPeers(c08Peers(a[0])))
		if err != nil {
			return "err"
		}
		return c08ShowPeers(ps)
	}
	// sortparties <new committee> <old subset>  =>  index:id:key;… | panic   (Resharing.sortParties)
	ops["C08.sortparties"] = func(a []string) string {
		parties := ecdsaCommon.PartiesFromPeers(c08Peers(a[0]))
		old := ecdsaCommon.PartiesFromPeers(c08Peers(a[1]))
		return c08ShowParties(ecdsaResharing.VerifSortParties(parties, old))
	}
	// startparams <key peers|none> <key threshold> <peerstore>  =>  thr/peers   (Resharing.StartParams)
	ops["C08.startparams"] = func(a []string) string {
		r := c08Resharing(a[0], int(i64(a[1])), a[2])
		var sp struct {
			OldThreshold int       `json:"oldThreshold"`
			OldSubset    []peer.ID `json:"oldSubset"`
		}
		if err := json.Unmarshal(r.StartParams(nil), &sp); err != nil {
			return "err"
		}
		return fmt.Sprintf("%d/%s", sp.OldThreshold, c08ShowPeers(sp.OldSubset))
	}
	// validate <key peers|none> <peerstore> <old threshold> <old subset>  =>  ok | err   (unmarshallStartParams)
	ops["C08.validate"] = func(a []string) string {
		r := c08Resharing(a[0], 1, a[1])
		b, _ := json.Marshal(map[string]interface{}{"oldThreshold": i64(a[2]), "oldSubset": c08Peers(a[3])})
		if _, _, err := r.VerifUnmarshallStartParams(b); err != nil {
			return "err"
		}
		return "ok"
	}
	// release ecdsa <coordinator 0|1>  =>  sig | nil | nothing   (Signing.processEndMessage)
	ops["C08.release"] = func(a []string) string {
		sig := tssCommon.SignatureData{Signature: []byte{1, 2, 3}, R: []byte{4}, S: []byte{5}}
		res, delivered, err := ecdsaSigning.VerifProcessEnd(a[1] == "1", sig)
		switch {
		case err != nil:
			return "err"
		case !delivered:
			return "nothing"
		case res == nil:
			return "nil"
		}
		if p, ok := res.(*tssCommon.SignatureData); ok && p != nil && string(p.Signature) == string(sig.Signature) {
			return "sig"
		}
		return "other"
	}
	// ready <ecdsa|frost> <key peers> <threshold> <ready peers>  =>  true|false   (Signing.Ready)
	ops["C08.ready"] = func(a []string) string {
		kp, thr, ready := c08Peers(a[1]), int(i64(a[2])), c08Peers(a[3])
		given := append(peer.IDSlice{}, ready...) // the caller's list must still be what it was afterwards
		var ok bool
		if a[0] == "ecdsa" {
			s, err := ecdsaSigning.NewSigning(big.NewInt(1), "m", "sid", &c08Host{}, nil, &c08ECDSAStore{has: true, key: keyshare.ECDSAKeyshare{Threshold: thr, Peers: kp}})
			if err != nil {
				return "err"
			}
			ok, _ = s.Ready(ready, nil)
		} else {
			k, err := c08FrostFixture(0)
			if err != nil {
				return "nofixture"
			}
			k.Threshold, k.Peers = thr, kp
			s, err := frostSigning.NewSigning(0, []byte{1}, c08One, "m", "sid", &c08Host{}, nil, &c08FrostStore{has: true, key: k})
			if err != nil {
				return "err"
			}
			ok, _ = s.Ready(ready, nil)
		}
		return fmt.Sprint(ok) + ";in=" + c08Same(given, ready)
	}
	// subset <ecdsa|frost> <key peers> <threshold> <ready peers> <session id>  =>  n=<size>;in=<0|1>;dup=<0|1>   (Signing.StartParams)
	ops["C08.subset"] = func(a []string) string {
		kp, thr, ready := c08Peers(a[1]), int(i64(a[2])), c08Peers(a[3])
		given := append(peer.IDSlice{}, ready...)
		var raw []byte
		if a[0] == "ecdsa" {
			s, err := ecdsaSigning.NewSigning(big.NewInt(1), "m", a[4], &c08Host{}, nil, &c08ECDSAStore{has: true, key: keyshare.ECDSAKeyshare{Threshold: thr, Peers: kp}})
			if err != nil {
				return "err"
			}
			raw = s.StartParams(ready)
		} else {
			k, err := c08FrostFixture(0)
			if err != nil {
				return "nofixture"
			}
			k.Threshold, k.Peers = thr, kp
			s, err := frostSigning.NewSigning(0, []byte{1}, c08One, "m", a[4], &c08Host{}, nil, &c08FrostStore{has: true, key: k})
			if err != nil {
				return "err"
			}
			raw = s.StartParams(ready)
		}
		var sub []peer.ID
		if err := json.Unmarshal(raw, &sub); err != nil {
			return "err"
		}
		in, dup := 1, 0
		seen := map[peer.ID]bool{}
		for _, p := range sub {
			if !c08Has(kp, p) || !c08Has(ready, p) {
				in = 0
			}
			if seen[p] {
				dup = 1
			}
			seen[p] = true
		}
		if c08Same(given, ready) != "same" { // StartParams rewrote the caller's ready list
			return fmt.Sprintf("n=%d;in=%d;dup=%d;caller-list-changed", len(sub), in, dup)
		}
		return fmt.Sprintf("n=%d;in=%d;dup=%d", len(sub), in, dup)
	}
	// tweak <fixture 0..2> <tweak hex (32 bytes)>  =>  ok | <name of the first relation that fails>
	// NewSigning (FROST) must sign with the share of the TWEAKED key: checked against btcec's independent arithmetic.
	ops["C08.tweak"] = c08OpTweak
	gens["C08"] = genC08
}

func c08Same(a, b []peer.ID) string {
	if len(a) != len(b) {
		return "changed"
	}
	for i := range a {
		if a[i] != b[i] {
			return "changed"
		}
	}
	return "same"
}

func c08Has(ps []peer.ID, p peer.ID) bool {
	for _, q := range ps {
		if q == p {
			return true
		}
	}
	return false
}

func c08Resharing(keyPeers string, thr int, store string) *ecdsaResharing.Resharing {
	st := &c08ECDSAStore{}
	if keyPeers != "none" {
		st.has = true
		st.key = keyshare.ECDSAKeyshare{Threshold: thr, Peers: c08Peers(keyPeers)}
	}
	ps := c08Peers(store)
	var id peer.ID
	if len(ps) > 0 {
		id = ps[0]
	}
	return ecdsaResharing.NewResharing("sid", 1, &c08Host{id: id, peers: ps}, nil, st)
}

func c08FrostFixture(i int) (keyshare.FrostKeyshare, error) {
	v, err := c18Fixture("frost", i)
	if err != nil {
		return keyshare.FrostKeyshare{}, err
	}
	k := v.frost
	k.Key = v.frost.Key.Clone()
	return k, nil
}

func c08OpTweak(a []string) string {
	k, err := c08FrostFixture(int(u64(a[0])))
	if err != nil {
		return "nofixture"
	}
	orig := k.Key.Clone()
	s, err := frostSigning.NewSigning(0, []byte{1}, a[1], "m", "sid", &c08Host{}, nil, &c08FrostStore{has: true, key: k})
	if err != nil {
		return "err"
	}
	d := s.VerifKey().Key
	// independent arithmetic (btcec): Q = lift_x(P) + t·G ; the signing key must be x(Q); the share must be ±(x_i + t)
	// with the sign that makes Q's y even, and d_i·G must equal the party's verification share.
	tb, _ := hex.DecodeString(a[1])
	var t btcec.ModNScalar
	if overflow := t.SetByteSlice(tb); overflow {
		return "tweak-overflow"
	}
	P, err := btcec.ParsePubKey(append([]byte{2}, orig.PublicKey...))
	if err != nil {
		return "badpub"
	}
	var pj, tg, qj btcec.JacobianPoint
	P.AsJacobian(&pj)
	btcec.ScalarBaseMultNonConst(&t, &tg)
	btcec.AddNonConst(&pj, &tg, &qj)
	qj.ToAffine()
	Q := btcec.NewPublicKey(&qj.X, &qj.Y)
	if hex.EncodeToString(Q.SerializeCompressed()[1:]) != hex.EncodeToString(d.PublicKey) {
		return "pubkey"
	}
	ob, _ := orig.PrivateShare.MarshalBinary()
	var xi btcec.ModNScalar
	xi.SetByteSlice(ob)
	xi.Add(&t)
	if qj.Y.IsOdd() {
		xi.Negate()
	}
	db, _ := d.PrivateShare.MarshalBinary()
	xb := xi.Bytes()
	if hex.EncodeToString(db) != hex.EncodeToString(xb[:]) {
		return "share"
	}
	vs, ok := d.VerificationShares[d.ID]
	if !ok || !d.PrivateShare.ActOnBase().Equal(vs) {
		return "verification-share"
	}
	if len(d.VerificationShares) != len(orig.VerificationShares) || d.Threshold != orig.Threshold || d.ID != orig.ID {
		return "shape"
	}
	// every other party's verification share moved by the same ±(V_j + t·G)
	adj := (&curve.Secp256k1Scalar{})
	_ = adj.UnmarshalBinary(tb)
	for id, v := range orig.VerificationShares {
		w := v.Add(adj.ActOnBase())
		if qj.Y.IsOdd() {
			w = w.Negate()
		}
		if !w.Equal(d.VerificationShares[id]) {
			return "verification-shares"
		}
	}
	return "ok"
}

func genC08(g *G) {
	pool := []string{}
	if k, err := c08FrostFixture(0); err == nil {
		for _, p := range k.Peers {
			pool = append(pool, p.String())
		}
	}
	for i := 0; len(pool) < 9; i++ {
		pool = append(pool, c08PoolPeer(i).String())
	}
	sub := func(n int, from []string) []string { // random n-subset in random order
		idx := []int{}
		for i := range from {
			idx = append(idx, i)
		}
		out := []string{}
		for i := 0; i < n && len(idx) > 0; i++ {
			j := g.Intn(len(idx))
			out = append(out, from[idx[j]])
			idx = append(idx[:j], idx[j+1:]...)
		}
		return out
	}
	j := func(xs []string) string { return joinOr(xs, ",") }
	// party mapping: exhaustive over all ordered selections of ≤ 3 out of 5 peers (both id kinds), then random
	small := pool[:5]
	var rec func(pre []string)
	rec = func(pre []string) {
		g.Emit("parties", j(pre))
		g.Emit("roundtrip", j(pre))
		if len(pre) == 3 {
			return
		}
		for _, p := range small {
			dup := false
			for _, q := range pre {
				dup = dup || q == p
			}
			if !dup {
				rec(append(append([]string{}, pre...), p))
			}
		}
	}
	rec(nil)
	for i := 0; i < g.Count(150, 2500); i++ {
		ps := sub(g.Intn(len(pool)+1), pool)
		if g.Intn(8) == 0 && len(ps) > 0 { // a repeated peer
			ps = append(ps, ps[g.Intn(len(ps))])
		}
		g.Emit("parties", j(ps))
		g.Emit("roundtrip", j(ps))
	}
	// sortParties: exhaustive: every new committee that is a subset of 5 peers (one fixed order each) × every subset of the committee as old
	// subset; then random incl. old ⊄ new (the excluded point: panic / nil slots)
	n5 := pool[:5]
	for m := 0; m < 32; m++ {
		nw := []string{}
		for b := 0; b < 5; b++ {
			if m>>b&1 == 1 {
				nw = append(nw, n5[b])
			}
		}
		for o := 0; o < 1<<len(nw); o++ {
			od := []string{}
			for b := range nw {
				if o>>b&1 == 1 {
					od = append(od, nw[b])
				}
			}
			g.Emit("sortparties", j(nw), j(od))
		}
	}
	for i := 0; i < g.Count(300, 8000); i++ {
		nw := sub(g.Intn(len(pool)+1), pool)
		var od []string
		if g.Intn(4) == 0 {
			od = sub(g.Intn(4), pool) // possibly not a subset
		} else {
			od = sub(g.Intn(len(nw)+1), nw)
		}
		g.Emit("sortparties", j(nw), j(od))
	}
	// start params of resharing and their validation
	thrs := []string{"-1", "0", "1", "2", "3", "5"}
	for i := 0; i < g.Count(300, 8000); i++ {
		store := sub(1+g.Intn(len(pool)), pool)
		kp := sub(g.Intn(6), pool)
		kps := j(kp)
		if g.Intn(5) == 0 {
			kps = "none"
		}
		g.Emit("startparams", kps, g.Pick(thrs), j(store))
		// what an honest coordinator holding `kp` sends, seen by a relayer holding the same peers in another order
		inter := []string{}
		for _, p := range kp {
			for _, q := range store {
				if p == q {
					inter = append(inter, p)
				}
			}
		}
		mine := sub(len(kp), kp)
		ms := j(mine)
		switch g.Intn(6) {
		case 0:
			ms = "none" // a newcomer
		case 1:
			ms = j(sub(g.Intn(6), pool)) // a relayer with a different key
		}
		cand := inter
		switch g.Intn(5) {
		case 0:
			cand = sub(g.Intn(5), pool)
		case 1:
			cand = sub(len(inter), inter)
		}
		g.Emit("validate", ms, j(store), g.Pick(thrs), j(cand))
	}
	// release rule, readiness, subset size
	g.Emit("release", "ecdsa", "0")
	g.Emit("release", "ecdsa", "1")
	for i := 0; i < g.Count(200, 5000); i++ {
		kp := sub(g.Intn(7), pool)
		ready := sub(g.Intn(len(pool)+1), pool)
		kind := []string{"ecdsa", "frost"}[g.Intn(2)]
		thr := g.Pick([]string{"-1", "0", "1", "2", "3", "4"})
		g.Emit("ready", kind, j(kp), thr, j(ready))
		g.Emit("subset", kind, j(kp), thr, j(ready), g.Pick([]string{"sid", "1-2-3", "x"}))
	}
	// the tweak reaches the share
	for i := 0; i < g.Count(60, 2000); i++ {
		t := g.Bytes(32)
		switch g.Intn(6) {
		case 0:
			t = make([]byte, 32)
			t[31] = byte(1 + g.Intn(3))
		case 1:
			t[0] &= 0x7f
		}
		g.Emit("tweak", itoa(g.Intn(3)), hex.EncodeToString(t))
	}
	// a Signing object run again and again (retries): every role sequence up to length 4, both ways of ending a run early
	for n := 1; n <= 4; n++ {
		for m := 0; m < 1<<n; m++ {
			roles := ""
			for b := 0; b < n; b++ {
				roles += string("FT"[m>>b&1])
			}
			g.Emit("release2", "ecdsa", roles, "j")
			g.Emit("release2", "ecdsa", roles, "s")
		}
	}
	// what the ECDSA resharing tells the library: every old subset ∋ 0 of the three key holders × new committees ∋ 0 of
	// up to five peers × old / new thresholds 0..4 (raising, lowering, equal, out of range)
	olds := []string{"0,1", "0,2", "0,1,2", "2,0,1"}
	news := []string{"0,1", "0,1,2", "0,2,1,3", "0,1,2,3,4", "0,3", "0,2,3,4,5", "0,1,2,3,4,5"}
	for _, od := range olds {
		for _, nw := range news {
			for ot := 0; ot <= 3; ot++ {
				for nt := 0; nt <= 4; nt++ {
					if g.Thorough() || (ot >= 1 && ot <= 2 && nt >= 1) || g.Intn(4) == 0 {
						g.Emit("reshareparams", itoa(ot), itoa(nt), od, nw)
					}
				}
			}
		}
	}
	// Bitcoin: one signing session per input
	for i := 0; i < g.Count(8, 60); i++ {
		g.Emit("btcsessions", itoa(1+i%4), itoa(g.Intn(3)), g.Pick([]string{"m", "1-2-77", "retry-5"}), itoa(1+g.Intn(1<<20)))
	}
	// Bitcoin: the per-input signatures arrive in EVERY order (all permutations for 1..3 inputs, all 24 for 4), then with nil
	// results and repeated results interleaved, then with one input's signature missing
	var perm func(pre []string, rest []string, f func([]string))
	perm = func(pre, rest []string, f func([]string)) {
		if len(rest) == 0 {
			f(pre)
			return
		}
		for i := range rest {
			nr := append(append([]string{}, rest[:i]...), rest[i+1:]...)
			perm(append(append([]string{}, pre...), rest[i]), nr, f)
		}
	}
	for n := 1; n <= 4; n++ {
		ids := []string{}
		for i := 0; i < n; i++ {
			ids = append(ids, itoa(i))
		}
		perm(nil, ids, func(p []string) {
			g.Emit("btcwitness", itoa(n), joinOr(p, ","), itoa(1+g.Intn(1<<20)))
		})
	}
	for i := 0; i < g.Count(30, 1500); i++ {
		n := 2 + g.Intn(3)
		arr := []string{}
		for j := 0; j < n+g.Intn(4); j++ {
			if g.Intn(5) == 0 {
				arr = append(arr, "n")
			} else {
				arr = append(arr, itoa(g.Intn(n)))
			}
		}
		if g.Intn(3) > 0 { // make it complete: append the missing ids in random order
			miss := []string{}
			for j := 0; j < n; j++ {
				found := false
				for _, x := range arr {
					found = found || x == itoa(j)
				}
				if !found {
					miss = append(miss, itoa(j))
				}
			}
			for len(miss) > 0 {
				k := g.Intn(len(miss))
				arr = append(arr, miss[k])
				miss = append(miss[:k], miss[k+1:]...)
			}
		}
		g.Emit("btcwitness", itoa(n), joinOr(arr, ","), itoa(1+g.Intn(1<<20)))
	}
	// what keygen / resharing store when the protocol ends: old committee none / same / overlapping / disjoint, the new one 1..6 peers
	for i := 0; i < g.Count(60, 3000); i++ {
		store := sub(1+g.Intn(6), pool)
		kps := "none"
		switch g.Intn(4) {
		case 0:
			kps = j(sub(len(store), store)) // the same committee, another order
		case 1:
			kps = j(sub(1+g.Intn(5), pool))
		case 2:
			if len(store) > 1 {
				kps = j(store[:len(store)-1]) // somebody joins
			}
		}
		kind := []string{"ekeygen", "ereshare"}[g.Intn(2)]
		g.Emit("endstore", kind, kps, g.Pick([]string{"1", "2", "3"}), j(store), g.Pick([]string{"1", "2", "3", "4"}))
	}
	// one Signing object run again and again with other subsets (the coordinator's retries): every sequence of up to 3 subsets
	// out of the 2- and 3-member subsets of the three holders, for each holder, ECDSA; a sample for FROST
	if hp, err := c08FixturePeers(); err == nil {
		holders := c08ShowPeers(hp)
		subsAll := []string{"0,1", "0,2", "1,2", "0,1,2"}
		if g.Thorough() {
			subsAll = []string{"0,1", "1,0", "0,2", "2,0", "1,2", "2,1", "0,1,2", "2,1,0"}
		}
		probes := "0,1,2|0,1|0,2|1,2|0|1|2"
		// quick: every ordered PAIR of subsets for every holder (each run starts the real first protocol round, ~0.1 s), a few
		// triples; thorough: all pairs over the subsets in both orders and 250 random triples
		emit := func(self int, sq []string) {
			g.Emit("rerun", "ecdsa", itoa(self), joinOr(sq, "|"), probes, holders)
		}
		type trip struct {
			self   int
			s1, s2 string
		}
		cands := []trip{}
		for self := 0; self < 3; self++ {
			for _, s1 := range subsAll {
				for _, s2 := range subsAll {
					if s1 != s2 && (g.Thorough() || strings.Contains(s1, itoa(self))) { // quick: the first run takes part
						cands = append(cands, trip{self, s1, s2})
					}
				}
			}
		}
		for len(cands) > g.Count(16, 1<<30) { // quick: a random 16 of the 27 (the index-moving pair is also a corpus line)
			j := g.Intn(len(cands))
			cands = append(cands[:j], cands[j+1:]...)
		}
		for _, c := range cands {
			emit(c.self, []string{c.s1, c.s2})
		}
		for i := 0; i < g.Count(4, 150); i++ {
			emit(g.Intn(3), []string{g.Pick(subsAll), g.Pick(subsAll), g.Pick(subsAll)})
		}
		for i := 0; i < g.Count(12, 300); i++ {
			sq := []string{g.Pick(subsAll), g.Pick(subsAll)}
			if g.Bool() {
				sq = append(sq, g.Pick(subsAll))
			}
			g.Emit("rerun", "frost", itoa(g.Intn(3)), joinOr(sq, "|"), probes, holders)
		}
	}
	// processes constructed one after another on ONE long-lived store object; refreshes that are attempted and abandoned
	for _, kind := range []string{"frost", "ecdsa"} {
		for _, steps := range []string{"s;g", "s;r2;s;g", "g;r2;g;s", "r2;s", "r3;r2;g;s;g", "s;g;r2;s;g;r3;g;s"} {
			g.Emit("storelife", kind, itoa(g.Intn(3)), steps)
		}
		for i := 0; i < g.Count(6, 200); i++ {
			st := []string{}
			for j := 0; j < 2+g.Intn(5); j++ {
				st = append(st, g.Pick([]string{"s", "g", "r2", "r3", "r1", "s", "g"}))
			}
			g.Emit("storelife", kind, itoa(g.Intn(3)), joinOr(append(st, "s"), ";"))
		}
	}
	// the real coordinator collecting ready answers: every sequence of answers of the two other holders up to length 3 (4 for
	// FROST and in the thorough tier), repeats included, committee threshold 1 and 2
	var answers func(pre []string, depth int, f func([]string))
	answers = func(pre []string, depth int, f func([]string)) {
		if len(pre) > 0 {
			f(pre)
		}
		if depth == 0 {
			return
		}
		for _, x := range []string{"1", "2", "3"} { // 3 = a relayer that answers but holds no share of this key
			answers(append(append([]string{}, pre...), x), depth-1, f)
		}
	}
	for _, kind := range []string{"ecdsa", "frost"} {
		for _, thr := range []string{"1", "2"} {
			depth := 3
			if kind == "frost" || g.Thorough() {
				depth = 4
			}
			if thr == "1" {
				depth = 2
			}
			answers(nil, depth, func(sq []string) { g.Emit("initready", kind, thr, joinOr(sq, ",")) })
		}
	}
	genC08Runs(g)
	_ = strings.Join
}

const c08One = "0000000000000000000000000000000000000000000000000000000000000001"
