package main

// C05 — scan cursor, persistence, restarts. Real listeners + real BlockStore + the real chain objects'
// PollEvents, over simulated process lifetimes (see fakes_scan.go for the scripted environment).
// The start block of every lifetime is computed by the same calls app.Run makes
// (blockstore.GetStartBlock, chains.CalculateStartingBlock, New*Chain(..., startBlock)); that app.Run makes
// exactly these calls in each branch is the generated fact checked in Oblig/C05.lean.

import (
	"fmt"
	"encoding/hex"
	"context"
	"errors"
	"math/big"
	"os"
	"strings"
	"time"

	"github.com/ChainSafe/sygma-relayer/chains"
	"github.com/ChainSafe/sygma-relayer/chains/btc"
	btcExecutor "github.com/ChainSafe/sygma-relayer/chains/btc/executor"
	evmExecutor "github.com/ChainSafe/sygma-relayer/chains/evm/executor"
	btcListener "github.com/ChainSafe/sygma-relayer/chains/btc/listener"
	"github.com/ChainSafe/sygma-relayer/chains/evm/calls/events"
	"github.com/ChainSafe/sygma-relayer/chains/evm/listener/depositHandlers"
	"github.com/ChainSafe/sygma-relayer/chains/evm/listener/eventHandlers"
	subListenerR "github.com/ChainSafe/sygma-relayer/chains/substrate/listener"
	"github.com/ChainSafe/sygma-relayer/keyshare"
	"github.com/btcsuite/btcd/btcjson"
	"github.com/btcsuite/btcd/chaincfg"
	"github.com/btcsuite/btcd/btcutil"
	btcConfig "github.com/ChainSafe/sygma-relayer/chains/btc/config"
	"github.com/btcsuite/btcd/chaincfg/chainhash"
	relayerStore "github.com/ChainSafe/sygma-relayer/store"
	"github.com/centrifuge/go-substrate-rpc-client/v4/registry"
	"github.com/centrifuge/go-substrate-rpc-client/v4/registry/parser"
	"github.com/centrifuge/go-substrate-rpc-client/v4/types"
	"github.com/ethereum/go-ethereum/common"
	ethTypes "github.com/ethereum/go-ethereum/core/types"
	"github.com/rs/zerolog"
	coreEvm "github.com/sygmaprotocol/sygma-core/chains/evm"
	coreSubstrate "github.com/sygmaprotocol/sygma-core/chains/substrate"
	"github.com/sygmaprotocol/sygma-core/relayer/message"
	"github.com/sygmaprotocol/sygma-core/store"
	"github.com/sygmaprotocol/sygma-core/store/lvldb"
)

// startRecorder sits between the chain object and the real listener and notes the start block handed over.
type startRecorder struct {
	inner scanListener
	start string
	env   *scanEnv
}

func (s *startRecorder) ListenToEvents(ctx context.Context, startBlock *big.Int) {
	if startBlock == nil {
		s.start = "nil"
	} else {
		s.start = startBlock.String()
	}
	s.env.guarded(s.inner, ctx, startBlock)
}

type poller interface{ PollEvents(ctx context.Context) }

// wireChain computes the start block and builds the chain object the way app.Run does for `kind`.
func wireChain(kind string, bs *store.BlockStore, cfgStart string, latest, fresh bool, boot string, k int64, l scanListener) poller {
	start, err := bs.GetStartBlock(scanDomain, bigArg(cfgStart), latest, fresh)
	if err != nil {
		panic(err)
	}
	switch kind {
	case "evm", "sub":
		if start == nil {
			start = bigArg(boot)
		}
		start, err = chains.CalculateStartingBlock(start, big.NewInt(k))
		if err != nil {
			panic(err)
		}
		if kind == "evm" {
			return coreEvm.NewEVMChain(l, nil, nil, scanDomain, start)
		}
		return coreSubstrate.NewSubstrateChain(l, nil, nil, scanDomain, start)
	case "btc":
		return btc.NewBtcChain(l, nil, nil, scanDomain, start)
	}
	panic("bad kind")
}

// runLifetimes: the observable history of a relayer over several process lifetimes sharing one block store.
func runLifetimes(kind string, conf, k int64, nh int, cfgStart, flags, stored0, boot, lifes string, kv store.KeyValueReaderWriter,
	onCall func(life, idx int, s, e *big.Int)) string {
	latest, fresh := strings.Contains(flags, "L"), strings.Contains(flags, "F")
	if stored0 != "none" {
		if err := store.NewBlockStore(kv).StoreBlock(bigArg(stored0), scanDomain); err != nil {
			panic(err)
		}
	}
	out := []string{}
	for li, life := range strings.Split(lifes, "|") {
		e := newScanEnv(kind, conf, k, nh, parseRounds(life), kv)
		if onCall != nil {
			li := li
			e.onCall = func(idx int, s, end *big.Int) { onCall(li, idx, s, end) }
		}
		// the chain config's *big.Int values are shared between the listener and the retry message handler, as app.Run
		// shares them; a script can have retry requests handled between scan steps (`…:s@<height>`)
		base := strings.TrimSuffix(kind, "+")
		if base != "sub" {
			cp := big.NewInt(conf)
			e.confPtr = cp
			head := "1000000"
			switch base {
			case "btc":
				rh := btcExecutor.NewRetryMessageHandler(&c04BtcProcessor{}, c04BtcFetcher{head}, cp, c04PropStore{}, make(chan []*message.Message, 4))
				e.onRetry = func(h string) { _, _ = rh.HandleMessage(retryMsg(h)) }
			case "evm":
				rh := evmExecutor.NewRetryMessageHandler(&c04Processor{}, c04Latest{head}, c04PropStore{}, cp, make(chan []*message.Message, 4))
				e.onRetry = func(h string) { _, _ = rh.HandleMessage(retryMsg(h)) }
			}
		}
		rec := &startRecorder{inner: e.build(), env: e}
		ctx, cancel := context.WithCancel(context.Background())
		e.cancel = cancel
		wireChain(strings.TrimSuffix(kind, "+"), e.bs, cfgStart, latest, fresh, boot, k, rec).PollEvents(ctx)
		e.wait()
		out = append(out, rec.start+"@"+e.render())
	}
	return strings.Join(out, "|")
}

// ---- handler-level fakes: does a fetch failure surface as an error of HandleEvents?
type c05EvmListener struct{ fail bool }

func (l c05EvmListener) err() error {
	if l.fail {
		return errRPC
	}
	return nil
}
func (l c05EvmListener) FetchKeygenEvents(ctx context.Context, a common.Address, s, e *big.Int) ([]ethTypes.Log, error) {
	return nil, l.err()
}
func (l c05EvmListener) FetchFrostKeygenEvents(ctx context.Context, a common.Address, s, e *big.Int) ([]ethTypes.Log, error) {
	return nil, l.err()
}
func (l c05EvmListener) FetchRefreshEvents(ctx context.Context, a common.Address, s, e *big.Int) ([]*events.Refresh, error) {
	return nil, l.err()
}
func (l c05EvmListener) FetchDeposits(ctx context.Context, a common.Address, s, e *big.Int) ([]*events.Deposit, error) {
	return nil, l.err()
}
func (l c05EvmListener) FetchRetryV1Events(ctx context.Context, a common.Address, s, e *big.Int) ([]events.RetryV1Event, error) {
	return nil, l.err()
}
func (l c05EvmListener) FetchRetryV2Events(ctx context.Context, a common.Address, s, e *big.Int) ([]events.RetryV2Event, error) {
	return nil, l.err()
}
func (l c05EvmListener) FetchRetryDepositEvents(ev events.RetryV1Event, a common.Address, c *big.Int) ([]events.Deposit, error) {
	return nil, l.err()
}

// c05HfEvm: the EVM event listener of the hfetch op: one deposit / one RetryV1 event with one deposit, and a failure
// at exactly one of the reads
type c05HfEvm struct {
	c05EvmListener
	failAt string
}

func (l c05HfEvm) failing(at string) error {
	if l.failAt == at {
		return errRPC
	}
	return nil
}
func (l c05HfEvm) FetchDeposits(ctx context.Context, a common.Address, s, e *big.Int) ([]*events.Deposit, error) {
	return []*events.Deposit{{DestinationDomainID: 2, DepositNonce: 1, ResourceID: [32]byte{0xa}}}, l.failing("events")
}
func (l c05HfEvm) FetchRetryV1Events(ctx context.Context, a common.Address, s, e *big.Int) ([]events.RetryV1Event, error) {
	return []events.RetryV1Event{{TxHash: "0x01"}}, l.failing("events")
}
func (l c05HfEvm) FetchRetryV2Events(ctx context.Context, a common.Address, s, e *big.Int) ([]events.RetryV2Event, error) {
	return []events.RetryV2Event{{SourceDomainID: 1, DestinationDomainID: 2, BlockHeight: big.NewInt(5)}}, l.failing("events")
}
func (l c05HfEvm) FetchRetryDepositEvents(ev events.RetryV1Event, a common.Address, c *big.Int) ([]events.Deposit, error) {
	return []events.Deposit{{DestinationDomainID: 2, DepositNonce: 1, ResourceID: [32]byte{0xa}}}, l.failing("retrydeposits")
}

// c05HfMatcher: the on-chain resource -> handler lookup (an RPC read), failing on demand
type c05HfMatcher struct{ fail bool }

func (m c05HfMatcher) GetHandlerAddressForResourceID(rid [32]byte) (common.Address, error) {
	if m.fail {
		return common.Address{}, errRPC
	}
	return common.Address{0xa}, nil
}

type c05HfPropStore struct{ fail bool }

func (p c05HfPropStore) StorePropStatus(s, d uint8, n uint64, st relayerStore.PropStatus) error { return nil }
func (p c05HfPropStore) PropStatus(s, d uint8, n uint64) (relayerStore.PropStatus, error) {
	if p.fail {
		return relayerStore.MissingProp, errRPC
	}
	return relayerStore.MissingProp, nil
}

func c05HfDepositHandler(failAt string) *depositHandlers.ETHDepositHandler {
	dh := depositHandlers.NewETHDepositHandler(c05HfMatcher{failAt == "lookup"})
	dh.RegisterDepositHandler(common.Address{0xa}.Hex(), c05OkHandler{})
	return dh
}

type c05SubConn struct{ failAt string } // events | head | block | blockhash | blockevents | metadata | -

func (c c05SubConn) GetFinalizedHead() (types.Hash, error) {
	if c.failAt == "head" {
		return types.Hash{}, errRPC
	}
	return types.Hash{}, nil
}
func (c c05SubConn) GetBlock(types.Hash) (*types.SignedBlock, error) {
	if c.failAt == "block" {
		return nil, errRPC
	}
	return &types.SignedBlock{Block: types.Block{Header: types.Header{Number: 100}}}, nil
}
func (c c05SubConn) GetBlockHash(uint64) (types.Hash, error) {
	if c.failAt == "blockhash" {
		return types.Hash{}, errRPC
	}
	return types.Hash{}, nil
}
func (c c05SubConn) GetBlockEvents(types.Hash) ([]*parser.Event, error) {
	if c.failAt == "blockevents" {
		return nil, errRPC
	}
	return nil, nil
}
func (c c05SubConn) UpdateMetatdata() error {
	if c.failAt == "metadata" {
		return errRPC
	}
	return nil
}

// FetchEvents: one retry request for an old (finalized) block and one runtime-upgrade event, so that every handler
// goes on to all the reads it can make
func (c c05SubConn) FetchEvents(s, e *big.Int) ([]*parser.Event, error) {
	if c.failAt == "events" {
		return nil, errRPC
	}
	if c.failAt == "badretry" { // a retry event whose fields cannot be decoded (runtime upgrade changed the layout)
		return []*parser.Event{{Name: "SygmaBridge.Retry", Fields: registry.DecodedFields{
			&registry.DecodedField{Name: "deposit_on_block_height", Value: "not-a-number"},
			&registry.DecodedField{Name: "dest_domain_id", Value: types.NewU8(2)}}}}, nil
	}
	return []*parser.Event{
		{Name: "SygmaBridge.Retry", Fields: registry.DecodedFields{
			&registry.DecodedField{Name: "deposit_on_block_height", Value: types.NewU128(*big.NewInt(7))},
			&registry.DecodedField{Name: "dest_domain_id", Value: types.NewU8(2)}}},
		{Name: "ParachainSystem.ValidationFunctionApplied"},
	}, nil
}

type c05BtcConn struct{ failAt string } // hash | block | -

func (c c05BtcConn) GetRawTransactionVerbose(*chainhash.Hash) (*btcjson.TxRawResult, error) {
	return nil, errors.New("unused")
}
func (c c05BtcConn) GetBlockHash(int64) (*chainhash.Hash, error) {
	if c.failAt == "hash" {
		return nil, errRPC
	}
	return &chainhash.Hash{}, nil
}
func (c c05BtcConn) GetBlockVerboseTx(*chainhash.Hash) (*btcjson.GetBlockVerboseTxResult, error) {
	if c.failAt == "block" {
		return nil, errRPC
	}
	if c.failAt == "nilblock" { // a misbehaving node: no error, no block
		return nil, nil
	}
	return &btcjson.GetBlockVerboseTxResult{}, nil
}
func (c c05BtcConn) GetBestBlockHash() (*chainhash.Hash, error) { return &chainhash.Hash{}, nil }

// a call that has not returned after 10 s is a hang (on the unchanged tree calls take microseconds); once three hangs
// have been seen in this run the verdict is clear and further waits are cut to 1 s to keep the run short
var c05Hangs int

func c05HangWait() time.Duration {
	if c05Hangs >= 3 {
		return time.Second
	}
	return 10 * time.Second
}

// c05BtcBlockConn serves one block with the given transactions
type c05BtcBlockConn struct{ txs []btcjson.TxRawResult }

func (c *c05BtcBlockConn) GetRawTransactionVerbose(*chainhash.Hash) (*btcjson.TxRawResult, error) {
	return nil, errors.New("unused")
}
func (c *c05BtcBlockConn) GetBlockHash(int64) (*chainhash.Hash, error) { return &chainhash.Hash{}, nil }
func (c *c05BtcBlockConn) GetBlockVerboseTx(*chainhash.Hash) (*btcjson.GetBlockVerboseTxResult, error) {
	return &btcjson.GetBlockVerboseTxResult{Tx: c.txs}, nil
}
func (c *c05BtcBlockConn) GetBestBlockHash() (*chainhash.Hash, error) { return &chainhash.Hash{}, nil }

// ---- fakes for evmdeposits
type c05Matcher struct{}

func (c05Matcher) GetHandlerAddressForResourceID(rid [32]byte) (common.Address, error) {
	switch rid[0] {
	case 0xa:
		return common.Address{0xa}, nil
	case 0xb:
		return common.Address{0xb}, nil // bound on chain, but no handler function registered here
	}
	return common.Address{}, errRPC
}

type c05OkHandler struct{}

func (c05OkHandler) HandleDeposit(sourceID, destID uint8, nonce uint64, resourceID [32]byte, calldata, handlerResponse []byte, messageID string, timestamp time.Time) (*message.Message, error) {
	return message.NewMessage(sourceID, destID, nil, messageID, "t", timestamp), nil
}

type c05DepListener struct {
	c05EvmListener
	ds []*events.Deposit
}

func (l *c05DepListener) FetchDeposits(ctx context.Context, a common.Address, s, e *big.Int) ([]*events.Deposit, error) {
	return l.ds, nil
}

func errOut(err error) string {
	if err != nil {
		return "err"
	}
	return "ok"
}

func init() {
	// life <kind> <conf> <k> <nh> <cfgStart> <flags> <stored0|none> <boot> <lifetimes>
	//   =>  <start>@head/calls/store;…|<start>@…
	ops["C05.life"] = func(a []string) string {
		return runLifetimes(a[0], i64(a[1]), i64(a[2]), int(u64(a[3])), a[4], a[5], a[6], a[7], a[8], newMemKV(), nil)
	}
	// lifereal: like `life`, but the REAL event handlers app.Run registers (EVM: DepositEventHandler + RetryV1EventHandler
	// over the real events.Listener; Substrate: RetryEventHandler + FungibleTransferEventHandler; BTC: deposit handler)
	// sit between the real listener and the node fake; handler objects live as long as the lifetime, a "call" is the
	// range the NODE was asked for, a scripted handler failure is a failed node read. nh = 1 or 2 (BTC: 1).
	ops["C05.lifereal"] = func(a []string) string {
		return runLifetimes(a[0]+"+", i64(a[1]), i64(a[2]), int(u64(a[3])), a[4], a[5], a[6], a[7], a[8], newMemKV(), nil)
	}
	// lifedb: the same over a real leveldb in a private temp dir (closed and re-opened between lifetimes is not
	// possible with one handle per process; the handle is shared like in a real process restart after Close)
	ops["C05.lifedb"] = func(a []string) string {
		dir, err := os.MkdirTemp("", "verif-c05-")
		if err != nil {
			panic(err)
		}
		defer os.RemoveAll(dir)
		out := []string{}
		stored0 := a[6]
		for _, life := range strings.Split(a[8], "|") {
			db, err := lvldb.NewLvlDB(dir)
			if err != nil {
				panic(err)
			}
			out = append(out, runLifetimes(a[0], i64(a[1]), i64(a[2]), int(u64(a[3])), a[4], a[5], stored0, a[7], life, db, nil))
			stored0 = "none"
			db.Close()
		}
		return strings.Join(out, "|")
	}
	// evmdeposits <calls>   calls '/'-separated, each a ','-separated list of deposits: r (resource with a registered
	//   handler) | u (resource bound on-chain to a handler address this relayer has no handler function for) | m (the
	//   resource lookup itself fails);  '-' = a range without deposits
	//   => per call `ok:<messages forwarded>` | `err` | `hang`, ';'-separated. ONE DepositEventHandler + ONE real
	//   ETHDepositHandler serve the whole sequence (like the listener's handler objects do); every call is also made on a
	//   fresh pair and a difference is printed as `<long-lived>!<fresh>`.
	ops["C05.evmdeposits"] = func(a []string) string {
		mk := func() (*eventHandlers.DepositEventHandler, *c05DepListener, chan []*message.Message) {
			dh := depositHandlers.NewETHDepositHandler(c05Matcher{})
			dh.RegisterDepositHandler(common.Address{0xa}.Hex(), c05OkHandler{})
			l := &c05DepListener{}
			ch := make(chan []*message.Message, 64)
			return eventHandlers.NewDepositEventHandler(l, dh, common.Address{}, 1, ch), l, ch
		}
		call := func(eh *eventHandlers.DepositEventHandler, l *c05DepListener, ch chan []*message.Message, i int, spec string) string {
			l.ds = nil
			for j, k := range items(spec, ",") {
				rid := map[string][32]byte{"r": {0xa}, "u": {0xb}, "m": {0xc}}[k]
				l.ds = append(l.ds, &events.Deposit{DestinationDomainID: 2, DepositNonce: uint64(100*i + j), ResourceID: rid})
			}
			done := make(chan error, 1)
			go func() { done <- eh.HandleEvents(big.NewInt(int64(5*i)), big.NewInt(int64(5*i+4))) }()
			select {
			case err := <-done:
				if err != nil {
					return "err"
				}
			case <-time.After(c05HangWait()):
				c05Hangs++
				return "hang"
			}
			want, n := strings.Count(spec, "r"), 0
			deadline := time.After(5 * time.Second)
			for n < want {
				select {
				case ms := <-ch:
					n += len(ms)
				case <-deadline:
					return "ok:" + itoa(n)
				}
			}
			return "ok:" + itoa(n)
		}
		eh, l, ch := mk()
		out := []string{}
		hung := false
		for i, spec := range strings.Split(a[0], "/") {
			r := "hang"
			if !hung {
				r = call(eh, l, ch, i, spec)
			}
			if r == "hang" {
				hung = true // the object is stuck; do not wait another time-out per call
				out = append(out, r)
				continue
			}
			feh, fl, fch := mk()
			if f := call(feh, fl, fch, i, spec); f != r {
				r += "!" + f
			}
			out = append(out, r)
		}
		return strings.Join(out, ";")
	}
	// btcdeposits <blocks>   blocks '/'-separated, each a ','-separated list of transactions in block order:
	//   g (well-formed deposit) | e (deposit whose OP_RETURN data the deposit handler rejects with an error) |
	//   p (deposit without OP_RETURN data: the handler panics, recovered per transaction) | n (not a deposit); '-' = empty
	//   => per block `ok:<messages forwarded>` | `err`, ';'-separated. ONE real FungibleTransferEventHandler + the real
	//   BtcDepositHandler serve the sequence; a block is also handled by a fresh handler (`<long-lived>!<fresh>` on a difference).
	ops["C05.btcdeposits"] = func(a []string) string {
		key := make([]byte, 32)
		key[0] = 7
		raddr, err := btcutil.NewAddressTaproot(key, &chaincfg.RegressionNetParams)
		if err != nil {
			panic(err)
		}
		key[0] = 9
		faddr, _ := btcutil.NewAddressTaproot(key, &chaincfg.RegressionNetParams)
		mkTx := func(i int, kind string) btcjson.TxRawResult {
			tx := btcjson.TxRawResult{Hash: fmt.Sprintf("%064x", i+1), Txid: fmt.Sprintf("%064x", i+1), Blocktime: 1000}
			opret := func(payload string) btcjson.Vout {
				return btcjson.Vout{ScriptPubKey: btcjson.ScriptPubKeyResult{Type: btcListener.OP_RETURN,
					Hex: hex.EncodeToString(append([]byte{0x6a, byte(len(payload))}, []byte(payload)...))}}
			}
			pay := []btcjson.Vout{
				{Value: 1, ScriptPubKey: btcjson.ScriptPubKeyResult{Type: btcListener.WitnessV1Taproot, Address: raddr.String()}},
				{Value: 1, ScriptPubKey: btcjson.ScriptPubKeyResult{Type: btcListener.WitnessV1Taproot, Address: faddr.String()}}}
			switch kind {
			case "g":
				tx.Vout = append([]btcjson.Vout{opret("0x1c5541A79AcC662ab2D2647F3B141a3B7Cdb2Ae4_2")}, pay...)
			case "e":
				tx.Vout = append([]btcjson.Vout{opret("0x1c5541A79AcC662ab2D2647F3B141a3B7Cdb2Ae4_x")}, pay...)
			case "p":
				tx.Vout = pay
			default:
				tx.Vout = []btcjson.Vout{{Value: 1, ScriptPubKey: btcjson.ScriptPubKeyResult{Type: "witness_v0_keyhash", Address: "bcrt1qxyz"}}}
			}
			return tx
		}
		mk := func() (*btcListener.FungibleTransferEventHandler, *c05BtcBlockConn, chan []*message.Message) {
			conn := &c05BtcBlockConn{}
			ch := make(chan []*message.Message, 64)
			rid := [32]byte{1}
			res := map[[32]byte]btcConfig.Resource{rid: {Address: raddr, ResourceID: rid, FeeAmount: big.NewInt(1000)}}
			return btcListener.NewFungibleTransferEventHandler(zerolog.Context{}, 1, &btcListener.BtcDepositHandler{}, ch, conn, res, faddr), conn, ch
		}
		call := func(h *btcListener.FungibleTransferEventHandler, conn *c05BtcBlockConn, ch chan []*message.Message, i int, spec string) string {
			conn.txs = nil
			for j, k := range items(spec, ",") {
				conn.txs = append(conn.txs, mkTx(100*i+j, k))
			}
			if err := h.HandleEvents(big.NewInt(int64(100 + i))); err != nil {
				return "err"
			}
			want, n := strings.Count(spec, "g"), 0
			deadline := time.After(5 * time.Second)
			for n < want {
				select {
				case ms := <-ch:
					n += len(ms)
				case <-deadline:
					return "ok:" + itoa(n)
				}
			}
			select { // anything beyond what is expected
			case ms := <-ch:
				n += len(ms)
			case <-time.After(2 * time.Millisecond):
			}
			return "ok:" + itoa(n)
		}
		h, conn, ch := mk()
		out := []string{}
		for i, spec := range strings.Split(a[0], "/") {
			r := call(h, conn, ch, i, spec)
			fh, fconn, fch := mk()
			if f := call(fh, fconn, fch, i, spec); f != r {
				r += "!" + f
			}
			out = append(out, r)
		}
		return strings.Join(out, ";")
	}
	// hfetch <handler> <failAt>  =>  ok | err     (does a failed fetch make HandleEvents fail?)
	ops["C05.hfetch"] = func(a []string) string {
		ch := make(chan []*message.Message, 8)
		s, e := big.NewInt(10), big.NewInt(14)
		switch a[0] {
		case "evmdeposit":
			return errOut(eventHandlers.NewDepositEventHandler(c05HfEvm{failAt: a[1]}, c05HfDepositHandler(a[1]), common.Address{}, 1, ch).HandleEvents(s, e))
		case "evmretry1":
			return errOut(eventHandlers.NewRetryV1EventHandler(zerolog.Context{}, c05HfEvm{failAt: a[1]}, c05HfDepositHandler(a[1]), c05HfPropStore{a[1] == "propstatus"}, common.Address{}, 1, big.NewInt(2), ch).HandleEvents(s, e))
		case "evmkeygen":
			return errOut(eventHandlers.NewKeygenEventHandler(zerolog.Context{}, c05EvmListener{a[1] != "-"}, nil, nil, nil,
				keyshare.NewECDSAKeyshareStore(os.TempDir()+"/verif-no-such-keyshare"), common.Address{}, 1).HandleEvents(s, e))
		case "evmfrostkeygen":
			return errOut(eventHandlers.NewFrostKeygenEventHandler(zerolog.Context{}, c05EvmListener{a[1] != "-"}, nil, nil, nil,
				keyshare.NewFrostKeyshareStore(os.TempDir()+"/verif-no-such-frost-keyshare"), common.Address{}, 1).HandleEvents(s, e))
		case "evmrefresh":
			return errOut(eventHandlers.NewRefreshEventHandler(zerolog.Context{}, nil, nil, c05EvmListener{a[1] != "-"}, nil, nil, nil, nil,
				keyshare.NewECDSAKeyshareStore(os.TempDir()+"/verif-no-such-keyshare"),
				keyshare.NewFrostKeyshareStore(os.TempDir()+"/verif-no-such-frost-keyshare"), common.Address{}).HandleEvents(s, e))
		case "evmretry2":
			return errOut(eventHandlers.NewRetryV2EventHandler(zerolog.Context{}, c05HfEvm{failAt: a[1]}, common.Address{}, 1, ch).HandleEvents(s, e))
		case "subdeposit":
			return errOut(subListenerR.NewFungibleTransferEventHandler(zerolog.Context{}, 1, nil, ch, c05SubConn{a[1]}).HandleEvents(s, e))
		case "subretry":
			return errOut(subListenerR.NewRetryEventHandler(zerolog.Context{}, c05SubConn{a[1]}, nil, 1, ch).HandleEvents(s, e))
		case "subsys":
			return errOut(subListenerR.NewSystemUpdateEventHandler(c05SubConn{a[1]}).HandleEvents(s, e))
		case "btcdeposit":
			return errOut(btcListener.NewFungibleTransferEventHandler(zerolog.Context{}, 1, &btcListener.BtcDepositHandler{}, ch, c05BtcConn{a[1]}, nil, nil).HandleEvents(s))
		}
		return "NOOP"
	}
	// align <start> <k>  =>  CalculateStartingBlock
	ops["C05.align"] = func(a []string) string {
		v, err := chains.CalculateStartingBlock(bigArg(a[0]), bigArg(a[1]))
		if err != nil {
			return "err"
		}
		return v.String()
	}
	gens["C05"] = genC05
}

// genLife produces one lifetime script; returns it and the head reached.
// genLifeReal: like genLife, with the fault POINT (first / second node read of the handler) and error KIND of every
// scripted handler failure chosen at random, runs of 1..4 identical failing rounds, and (BTC) re-organisations that
// switch the active branch between rounds.
func genLifeReal(g *G, kind string, k int64, nh int, head int64, maxRounds int) (string, int64) {
	l, h := genLife(g, kind, k, nh, head, maxRounds, true)
	if l == "-" {
		return l, h
	}
	branch := 0
	out := []string{}
	for _, r := range strings.Split(l, ";") {
		f := strings.Split(r, ":")
		if kind == "btc" && f[0] != "E" && f[0] != "F" {
			if g.Intn(4) == 0 {
				branch = (branch + 1) % 3
			}
			f[0] += "~1~" + itoa(branch)
		}
		reps := 1
		if f[1] != "n" && !strings.HasPrefix(f[1], "p") {
			kinds := []string{"g", "t", "t", "w", "u", "n", "c", "r", "r", "R", "W", "M"}
			if k >= 2 && kind != "btc" {
				kinds = append(kinds, "l", "l", "L") // a size limit only exists for ranges of several blocks
			}
			f[1] += g.Pick([]string{"a", "b", "b"}) + g.Pick(kinds)
			if len(f) == 3 {
				reps = 1 + g.Intn(4)
			}
		}
		for i := 0; i < reps; i++ {
			out = append(out, strings.Join(f, ":"))
		}
	}
	return strings.Join(out, ";"), h
}

func genLife(g *G, kind string, k int64, nh int, head int64, maxRounds int, allowCrash bool) (string, int64) {
	n := g.Intn(maxRounds + 1)
	rs := []string{}
	for j := 0; j < n; j++ {
		if g.Intn(10) < 7 {
			head += int64(g.Intn(int(k)*2 + 2))
		}
		hs := itoa64(head)
		if g.Intn(10) == 0 {
			hs = g.Pick([]string{"E", "F"})
		}
		fail := "n"
		if g.Intn(5) == 0 {
			fail = itoa(g.Intn(nh + 1))
		}
		st := "s"
		if g.Intn(6) == 0 {
			st = "x"
		}
		if kind != "sub" && g.Intn(7) == 0 {
			st += "@" + itoa64(int64(g.Intn(40))) // a retry request handled between two scan steps
		}
		r := hs + ":" + fail + ":" + st
		if allowCrash && j == n-1 && g.Intn(2) == 0 {
			r += ":" + itoa(g.Intn(nh+2))
		} else if allowCrash && g.Intn(9) == 0 {
			// a handler panics: the lifetime ends with this round
			r = hs + ":p" + itoa(g.Intn(nh)) + ":" + st
		}
		rs = append(rs, r)
	}
	return joinOr(rs, ";"), head
}

func genC05(g *G) {
	kinds := []string{"btc", "evm", "sub"}
	// handler-level table
	// every node / store read each real handler makes while it handles a range, failing one at a time
	for h, reads := range map[string][]string{
		"evmdeposit": {"events", "lookup"},
		"evmretry1":  {"events", "retrydeposits", "lookup", "propstatus"},
		"evmretry2":  {"events"},
		"evmkeygen":  {"events"}, "evmfrostkeygen": {"events"}, "evmrefresh": {"events"},
		"subdeposit": {"events"},
		"subretry":   {"events", "head", "block", "blockhash", "blockevents"},
		"subsys":     {"events", "metadata"},
	} {
		g.Emit("hfetch", h, "-")
		for _, f := range reads {
			g.Emit("hfetch", h, f)
		}
	}
	g.Emit("hfetch", "subretry", "badretry") // no read fails: an event that can never be decoded must not block the range
	for _, f := range []string{"-", "hash", "block", "nilblock"} {
		g.Emit("hfetch", "btcdeposit", f)
	}
	// BTC blocks with well-formed, rejected, panicking and foreign transactions in every order
	ba := []string{"g", "e", "p", "n"}
	for _, x := range ba {
		for _, y := range ba {
			g.Emit("btcdeposits", x+","+y+"/g")
			for _, z := range ba {
				g.Emit("btcdeposits", x+","+y+","+z)
			}
		}
	}
	for i := 0; i < g.Count(40, 1000); i++ {
		bs := []string{}
		for j := 0; j < 1+g.Intn(4); j++ {
			ts := []string{}
			for k := 0; k < g.Intn(5); k++ {
				ts = append(ts, g.Pick([]string{"g", "g", "e", "p", "n"}))
			}
			bs = append(bs, joinOr(ts, ","))
		}
		g.Emit("btcdeposits", strings.Join(bs, "/"))
	}
	// one deposit-handler object over a sequence of ranges with resolvable and unresolvable deposits
	alpha := []string{"-", "r", "u", "m", "r,r", "u,r", "r,u", "m,r", "u,u", "r,u,r"}
	for _, x := range alpha {
		for _, y := range alpha {
			g.Emit("evmdeposits", x+"/"+y+"/r")
		}
	}
	for i := 0; i < g.Count(60, 1500); i++ {
		cs := []string{}
		for j := 0; j < 2+g.Intn(5); j++ {
			ds := []string{}
			for k := 0; k < g.Intn(4); k++ {
				ds = append(ds, g.Pick([]string{"r", "r", "u", "m"}))
			}
			cs = append(cs, joinOr(ds, ","))
		}
		g.Emit("evmdeposits", strings.Join(cs, "/"))
	}
	// CalculateStartingBlock grid
	for s := int64(0); s <= 20; s++ {
		for k := int64(1); k <= 6; k++ {
			g.Emit("align", itoa64(s), itoa64(k))
		}
	}
	for i := 0; i < g.Count(100, 2000); i++ {
		g.Emit("align", itoa64(int64(g.U64()>>2)), itoa64(1+int64(g.Intn(1000))))
	}
	// exhaustive small scope: one full round then every crash point / fault of a second round, then restart
	for _, kind := range kinds {
		for k := int64(1); k <= 3; k++ {
			if kind == "btc" && k > 1 {
				continue
			}
			for start := int64(0); start <= int64(g.Count(4, 7)); start++ {
				for nh := 1; nh <= 2; nh++ {
					faults := []string{"n:s", "n:x", "0:s"}
					if nh == 2 {
						faults = append(faults, "1:s")
					}
					for _, f := range faults {
						for crash := -1; crash <= nh+1; crash++ {
							h1 := itoa64(start + 3*k + 4)
							r2 := h1 + ":" + f
							if crash >= 0 {
								r2 += ":" + itoa(crash)
							}
							l1 := h1 + ":n:s;" + r2
							l2 := itoa64(start+5*k+6) + ":n:s;" + itoa64(start+5*k+6) + ":n:s"
							g.Emit("life", kind, "2", itoa64(k), itoa(nh), itoa64(start), "-", "none", "0", l1+"|"+l2)
						}
					}
				}
			}
		}
	}
	// handler panics (every handler index, every kind), followed by clean rounds in the same script and a restart
	for _, kind := range kinds {
		for nh := 1; nh <= 3; nh++ {
			for pi := 0; pi < nh; pi++ {
				for _, k := range []int64{1, 2} {
					if kind == "btc" && k > 1 {
						continue
					}
					h := itoa64(3 + 6*k)
					l1 := h + ":n:s;" + h + ":p" + itoa(pi) + ":s;" + h + ":n:s;" + h + ":n:s"
					l2 := h + ":n:s;" + h + ":n:s;" + h + ":n:s"
					g.Emit("life", kind, "1", itoa64(k), itoa(nh), "2", "-", "none", "0", l1+"|"+l2)
				}
			}
		}
	}
	// failures of every handler (also non-first ones) followed by clean rounds in the SAME lifetime: per-handler
	// state must not leak into the retry of the range or into later ranges
	for _, kind := range kinds {
		for nh := 2; nh <= 3; nh++ {
			pats := []string{"n"}
			for i := 0; i < nh; i++ {
				pats = append(pats, itoa(i))
			}
			for _, f1 := range pats {
				for _, f2 := range pats {
					k := int64(2)
					h := itoa64(30)
					l := h + ":n:s;" + h + ":" + f1 + ":s;" + h + ":" + f2 + ":s;" + h + ":n:s;" + h + ":n:s;" + h + ":n:s"
					g.Emit("life", kind, "1", itoa64(k), itoa(nh), "4", "-", "none", "0", l)
				}
			}
		}
	}
	// REAL handler stacks (handler objects keep their state across rounds): every pattern of failing-then-succeeding
	// node reads over three rounds, for boundary start blocks (0, 1, k-1, k, k+1), then clean rounds and a restart
	for _, kind := range kinds {
		nh := realStackSize(kind)
		pats := []string{"n"}
		for i := 0; i < nh; i++ {
			pats = append(pats, itoa(i))
		}
		for _, k := range []int64{1, 5} {
			if kind == "btc" && k > 1 {
				continue
			}
			for _, start := range []int64{0, 1, k - 1, k, k + 1} {
				if start < 0 {
					continue
				}
				for _, f1 := range pats {
					for _, f2 := range pats {
						h := itoa64(8*k + 9)
						l1 := h + ":" + f1 + ":s;" + h + ":" + f2 + ":s;" + h + ":n:s;" + h + ":n:s;" + h + ":n:s"
						l2 := h + ":n:s;" + h + ":n:s"
						g.Emit("lifereal", kind, "1", itoa64(k), itoa(nh), itoa64(start), "-", "none", "0", l1+"|"+l2)
					}
				}
			}
		}
	}
	// every error KIND at every fault POINT of every handler, 1..4 failing rounds in a row, then clean rounds
	for _, kind := range kinds {
		nh := realStackSize(kind)
		for idx := 0; idx < nh; idx++ {
			for _, pt := range []string{"a", "b"} {
				for _, ek := range []string{"g", "t", "w", "u", "n", "c", "l", "L", "r", "R", "W", "M"} {
					for reps := 1; reps <= 4; reps++ {
						if reps > 1 && strings.Contains("lLRWM", ek) && !g.Thorough() {
							continue
						}
						if kind == "btc" && (ek == "l" || ek == "L") {
							continue // single-block reads have no size limit
						}
						if !g.Thorough() && reps == 2 {
							continue
						}
						h := "40"
						rs := []string{h + ":n:s"}
						for i := 0; i < reps; i++ {
							rs = append(rs, h+":"+itoa(idx)+pt+ek+":s")
						}
						rs = append(rs, h+":n:s", h+":n:s")
						g.Emit("lifereal", kind, "1", "2", itoa(nh), "4", "-", "none", "0", strings.Join(rs, ";"))
					}
				}
			}
		}
	}
	// BTC: re-organisations of not yet handled blocks between two scan steps (the active branch changes)
	for _, sw := range []string{"0,0,1,1", "0,1,1,1", "0,1,2,2", "0,1,0,1", "1,1,0,0"} {
		for _, conf := range []string{"1", "2"} {
			b := strings.Split(sw, ",")
			rs := []string{}
			for i, br := range b {
				rs = append(rs, itoa(10+i)+"~1~"+br+":n:s")
			}
			g.Emit("lifereal", "btc", conf, "1", "1", "5", "-", "none", "0", strings.Join(rs, ";")+"|"+"20~1~"+b[3]+":n:s;21~1~"+b[3]+":n:s")
		}
	}
	for i := 0; i < g.Count(300, 8000); i++ {
		kind := kinds[g.Intn(3)]
		k := int64(1 + g.Intn(5))
		nh := 1 + g.Intn(realStackSize(kind))
		cfgStart := int64(g.Intn(4))
		if g.Intn(3) == 0 {
			cfgStart = int64(g.Intn(12))
		}
		stored0 := "none"
		if g.Intn(5) == 0 {
			stored0 = itoa64(int64(g.Intn(12)))
		}
		head := cfgStart + int64(g.Intn(6))
		nl := 1 + g.Intn(3)
		ls := []string{}
		for j := 0; j < nl; j++ {
			var l string
			l, head = genLifeReal(g, kind, k, nh, head, g.Count(6, 10))
			ls = append(ls, l)
		}
		g.Emit("lifereal", kind, "1", itoa64(k), itoa(nh), itoa64(cfgStart), g.Pick([]string{"-", "-", "-", "F"}), stored0, itoa64(head), strings.Join(ls, "|"))
	}
	// a retry-by-height request handled between scan steps by the retry message handler that shares the chain config
	// (same *big.Int values) with the listener, as app.Run wires them; fake and real handler stacks
	for _, kind := range []string{"btc", "evm"} {
		for _, op := range []string{"life", "lifereal"} {
			for _, h := range []string{"0", "4", "7", "100"} {
				for conf := int64(1); conf <= 3; conf++ {
					k := "1"
					if kind == "evm" {
						k = "2"
					}
					hd := "40"
					l := hd + ":n:s;" + hd + ":n:s@" + h + ";" + hd + ":n:s;" + hd + ":n:s@" + h + ";" + hd + ":n:s;" + hd + ":n:s"
					g.Emit(op, kind, itoa64(conf), k, "1", "3", "-", "none", "0", l+"|"+hd+":n:s;"+hd+":n:s")
				}
			}
		}
	}
	// random long scripts over several lifetimes
	for i := 0; i < g.Count(1200, 40000); i++ {
		kind := kinds[g.Intn(3)]
		conf := int64(1 + g.Intn(2))
		k := int64(1 + g.Intn(3))
		nh := 1 + g.Intn(3)
		cfgStart := int64(g.Intn(8))
		flags := "-"
		switch g.Intn(12) {
		case 0:
			flags = "L"
		case 1:
			flags = "F"
		case 2:
			flags = "LF"
		}
		stored0 := "none"
		if g.Intn(4) == 0 {
			stored0 = itoa64(int64(g.Intn(12)))
		}
		head := cfgStart + int64(g.Intn(6))
		boot := itoa64(head)
		nl := 1 + g.Intn(g.Count(3, 4))
		ls := []string{}
		for j := 0; j < nl; j++ {
			var l string
			l, head = genLife(g, kind, k, nh, head, g.Count(6, 10), true)
			ls = append(ls, l)
		}
		op := "life"
		if g.Thorough() && g.Intn(40) == 0 {
			op = "lifedb"
		}
		g.Emit(op, kind, itoa64(conf), itoa64(k), itoa(nh), itoa64(cfgStart), flags, stored0, boot, strings.Join(ls, "|"))
	}
	for i := 0; i < g.Count(6, 0); i++ {
		l1, h := genLife(g, "evm", 2, 2, 5, 5, true)
		l2, _ := genLife(g, "evm", 2, 2, h+4, 5, true)
		g.Emit("lifedb", []string{"btc", "evm", "sub"}[i%3], "1", "2", "2", "3", "-", "none", "5", l1+"|"+l2)
	}
}
