package main

// C17 — retries re-emit exactly the unexecuted matching deposits; executed is final.
// Real code under test: retry.FilterDeposits, eventHandlers.RetryV1EventHandler.HandleEvents, the three
// RetryMessageHandler.HandleMessage, btc executor proposalsForExecution / storeProposalsStatus / Execute,
// all over the REAL store.PropStore on an in-memory database with scripted faults (fakes_c03c17.go).

import (
	"context"
	"errors"
	"math/big"
	"sort"
	"strings"
	"time"

	btcExecutor "github.com/ChainSafe/sygma-relayer/chains/btc/executor"
	"github.com/ChainSafe/sygma-relayer/chains/evm/calls/events"
	evmExecutor "github.com/ChainSafe/sygma-relayer/chains/evm/executor"
	"github.com/ChainSafe/sygma-relayer/chains/evm/listener/eventHandlers"
	subExecutor "github.com/ChainSafe/sygma-relayer/chains/substrate/executor"
	"github.com/ChainSafe/sygma-relayer/relayer/retry"
	"github.com/ChainSafe/sygma-relayer/relayer/transfer"
	"github.com/ChainSafe/sygma-relayer/store"
	"github.com/btcsuite/btcd/btcjson"
	"github.com/btcsuite/btcd/chaincfg/chainhash"
	substrateTypes "github.com/centrifuge/go-substrate-rpc-client/v4/types"
	"github.com/ethereum/go-ethereum/common"
	ethTypes "github.com/ethereum/go-ethereum/core/types"
	"github.com/rs/zerolog"
	"github.com/sygmaprotocol/sygma-core/relayer/message"
	"github.com/sygmaprotocol/sygma-core/relayer/proposal"
)

type c17Dep struct {
	dest  uint8
	res   byte
	nonce uint64
	bad   byte // 0, or how handling THIS deposit goes wrong in the RetryV1 path: '!' the deposit handler panics,
	//            '?' it returns an error, '#' it returns a message whose Data is not TransferMessageData
}

// deps: `dest.res.nonce` items separated by ','
func c17Deps(s string) []c17Dep {
	ds := []c17Dep{}
	for _, it := range items(s, ",") {
		bad := byte(0)
		if n := len(it); n > 0 && strings.ContainsRune("!?#", rune(it[n-1])) {
			bad, it = it[n-1], it[:n-1]
		}
		f := strings.Split(it, ".")
		ds = append(ds, c17Dep{uint8(u64(f[0])), byte(u64(f[1])), u64(f[2]), bad})
	}
	return ds
}

func c17Msg(i int, d c17Dep) *message.Message {
	return message.NewMessage(c3Src, d.dest, transfer.TransferMessageData{
		DepositNonce: d.nonce, ResourceId: c3Resource(d.res), Metadata: map[string]interface{}{"idx": i},
		Type: transfer.FungibleTransfer,
	}, itoa(i), transfer.TransferMessageType, time.Unix(0, 0))
}

func c17ByDomain(ds []c17Dep) map[uint8][]*message.Message {
	m := map[uint8][]*message.Message{}
	for i, d := range ds {
		m[d.dest] = append(m[d.dest], c17Msg(i, d))
	}
	return m
}

func c17Idx(ms []*message.Message) string {
	xs := []string{}
	for _, m := range ms {
		xs = append(xs, itoa(m.Data.(transfer.TransferMessageData).Metadata["idx"].(int)))
	}
	return joinOr(xs, ",")
}

func c17Store(ds []c17Dep, statuses, faults string) (*c3DB, *store.PropStore) {
	db := newC3DB(faults)
	for i, d := range ds {
		db.preset(c3Src, d.dest, d.nonce, statuses[i:i+1])
	}
	return db, store.NewPropStore(db)
}

func c17Final(db *c3DB, ds []c17Dep) string {
	var sb strings.Builder
	for _, d := range ds {
		sb.WriteString(db.letter(c3Src, d.dest, d.nonce))
	}
	return joinOr1(sb.String())
}

// ---- fakes for the handlers
type c17Processor struct {
	height *big.Int
	deps   map[uint8][]*message.Message
}

func (p *c17Processor) at(start, end *big.Int) (map[uint8][]*message.Message, error) {
	if start.Cmp(p.height) != 0 || end.Cmp(p.height) != 0 {
		return map[uint8][]*message.Message{}, nil
	}
	return p.deps, nil
}

type c17EvmProcessor struct{ *c17Processor }

func (p c17EvmProcessor) ProcessDeposits(s, e *big.Int) (map[uint8][]*message.Message, error) {
	return p.at(s, e)
}

type c17BtcProcessor struct{ *c17Processor }

func (p c17BtcProcessor) ProcessDeposits(b *big.Int) (map[uint8][]*message.Message, error) {
	return p.at(b, b)
}

type c17EvmBlocks struct{ latest int64 }

func (b c17EvmBlocks) LatestBlock() (*big.Int, error) { return big.NewInt(b.latest), nil }

type c17BtcBlocks struct{ latest int64 }

func (b c17BtcBlocks) GetBestBlockHash() (*chainhash.Hash, error) { return &chainhash.Hash{}, nil }
func (b c17BtcBlocks) GetBlockVerboseTx(*chainhash.Hash) (*btcjson.GetBlockVerboseTxResult, error) {
	return &btcjson.GetBlockVerboseTxResult{Height: b.latest}, nil
}

type c17SubBlocks struct{ latest int64 }

func (b c17SubBlocks) GetFinalizedHead() (substrateTypes.Hash, error) { return substrateTypes.Hash{}, nil }
func (b c17SubBlocks) GetBlock(substrateTypes.Hash) (*substrateTypes.SignedBlock, error) {
	return &substrateTypes.SignedBlock{Block: substrateTypes.Block{Header: substrateTypes.Header{Number: substrateTypes.BlockNumber(b.latest)}}}, nil
}

// RetryV1: event listener returning one retry event whose transaction holds the scripted deposits
type c17Listener struct {
	deps []c17Dep
	cuts []int // deps[cuts[k]:cuts[k+1]] are the deposits of the k-th retried transaction (nil: one transaction)
	v2   []events.RetryV2Event
}

func (l *c17Listener) bounds() []int {
	if l.cuts == nil {
		return []int{0, len(l.deps)}
	}
	return l.cuts
}

func (l *c17Listener) FetchKeygenEvents(ctx context.Context, a common.Address, s, e *big.Int) ([]ethTypes.Log, error) {
	return nil, nil
}
func (l *c17Listener) FetchFrostKeygenEvents(ctx context.Context, a common.Address, s, e *big.Int) ([]ethTypes.Log, error) {
	return nil, nil
}
func (l *c17Listener) FetchRefreshEvents(ctx context.Context, a common.Address, s, e *big.Int) ([]*events.Refresh, error) {
	return nil, nil
}
func (l *c17Listener) FetchDeposits(ctx context.Context, a common.Address, s, e *big.Int) ([]*events.Deposit, error) {
	return nil, nil
}
func (l *c17Listener) FetchRetryV1Events(ctx context.Context, a common.Address, s, e *big.Int) ([]events.RetryV1Event, error) {
	out := []events.RetryV1Event{}
	for k := 0; k+1 < len(l.bounds()); k++ {
		out = append(out, events.RetryV1Event{TxHash: "0x" + itoa(k)})
	}
	return out, nil
}
func (l *c17Listener) FetchRetryV2Events(ctx context.Context, a common.Address, s, e *big.Int) ([]events.RetryV2Event, error) {
	return l.v2, nil
}
func (l *c17Listener) FetchRetryDepositEvents(ev events.RetryV1Event, a common.Address, conf *big.Int) ([]events.Deposit, error) {
	out := []events.Deposit{}
	b := l.bounds()
	k := int(u64(strings.TrimPrefix(ev.TxHash, "0x")))
	for i := b[k]; i < b[k+1]; i++ {
		d := l.deps[i]
		out = append(out, events.Deposit{DestinationDomainID: d.dest, ResourceID: c3Resource(d.res), DepositNonce: d.nonce, Data: []byte{byte(i), d.bad}})
	}
	return out, nil
}

type c17DepositHandler struct{}

func (c17DepositHandler) HandleDeposit(src, dst uint8, nonce uint64, res [32]byte, calldata, resp []byte, msgID string, ts time.Time) (*message.Message, error) {
	switch calldata[1] {
	case '!':
		var short []byte
		_ = short[int(calldata[0])+32] // slice bounds panic, as malformed calldata produces in the real handlers
	case '?':
		return nil, errors.New("deposit cannot be handled")
	case '#':
		return message.NewMessage(src, dst, "not transfer data", msgID, transfer.TransferMessageType, ts), nil
	}
	return message.NewMessage(src, dst, transfer.TransferMessageData{
		DepositNonce: nonce, ResourceId: res, Metadata: map[string]interface{}{"idx": int(calldata[0])}, Type: transfer.FungibleTransfer,
	}, msgID, transfer.TransferMessageType, ts), nil
}

func c17Drain(ch chan []*message.Message) [][]*message.Message {
	out := [][]*message.Message{}
	for {
		select {
		case m := <-ch:
			out = append(out, m)
		default:
			return out
		}
	}
}

// op argument `X<arg>[@faults]`
func c17Split(op string) (arg, faults string) {
	arg, faults = c3Arg(op), "-"
	if i := strings.Index(arg, "@"); i >= 0 {
		arg, faults = arg[:i], arg[i+1:]
		if arg == "" {
			arg = "-"
		}
	}
	return
}

func init() {
	// filter <deps> <res> <dest> <statuses> <faults>  =>  <emitted idx>|<final statuses>
	ops["C17.filter"] = func(a []string) string {
		ds := c17Deps(a[0])
		db, ps := c17Store(ds, c3Script(a[3]), a[4])
		out, err := retry.FilterDeposits(ps, c17ByDomain(ds), c3Resource(byte(u64(a[1]))), uint8(u64(a[2])))
		if err != nil {
			return "err"
		}
		return c17Idx(out) + "|" + c17Final(db, ds)
	}
	// retryv1 <deps[+deps…]> <statuses> <faults>  =>  <dest>:<idx,..>;…|<final statuses>   ('+' separates the retried
	//   transactions (RetryV1 events) found in the one handled block range; idx = position over all of them)
	ops["C17.retryv1"] = func(a []string) string {
		// several retried transactions inside the handled block range are separated by '+'
		ds, cuts := []c17Dep{}, []int{0}
		for _, ev := range strings.Split(a[0], "+") {
			ds = append(ds, c17Deps(ev)...)
			cuts = append(cuts, len(ds))
		}
		db, ps := c17Store(ds, c3Script(a[1]), a[2])
		ch := make(chan []*message.Message, 64)
		h := eventHandlers.NewRetryV1EventHandler(zerolog.Nop().With(), &c17Listener{deps: ds, cuts: cuts}, c17DepositHandler{}, ps,
			common.Address{}, c3Src, big.NewInt(1), ch)
		if err := h.HandleEvents(big.NewInt(10), big.NewInt(15)); err != nil {
			return "err"
		}
		groups := c17Drain(ch)
		sort.Slice(groups, func(i, j int) bool { return groups[i][0].Destination < groups[j][0].Destination })
		xs := []string{}
		for _, g := range groups {
			xs = append(xs, itoa(int(g[0].Destination))+":"+c17Idx(g))
		}
		return joinOr(xs, ";") + "|" + c17Final(db, ds)
	}
	// handler <evm|btc|sub> <latest> <height> <conf> <deps> <res> <dest> <statuses> <faults>
	//   =>  <nil|err>|<emitted idx>|<final statuses>
	ops["C17.handler"] = func(a []string) string {
		latest, height, conf := i64(a[1]), i64(a[2]), i64(a[3])
		ds := c17Deps(a[4])
		db, ps := c17Store(ds, c3Script(a[7]), a[8])
		ch := make(chan []*message.Message, 8)
		proc := &c17Processor{height: big.NewInt(height), deps: c17ByDomain(ds)}
		msg := message.NewMessage(9, c3Src, retry.RetryMessageData{SourceDomainID: c3Src, DestinationDomainID: uint8(u64(a[6])),
			BlockHeight: big.NewInt(height), ResourceID: c3Resource(byte(u64(a[5])))}, "retry-1-2", retry.RetryMessageType, time.Unix(0, 0))
		var err error
		var prop *proposal.Proposal
		switch a[0] {
		case "evm":
			prop, err = evmExecutor.NewRetryMessageHandler(c17EvmProcessor{proc}, c17EvmBlocks{latest}, ps, big.NewInt(conf), ch).HandleMessage(msg)
		case "btc":
			prop, err = btcExecutor.NewRetryMessageHandler(c17BtcProcessor{proc}, c17BtcBlocks{latest}, big.NewInt(conf), ps, ch).HandleMessage(msg)
		case "sub":
			prop, err = subExecutor.NewRetryMessageHandler(c17EvmProcessor{proc}, c17SubBlocks{latest}, ps, ch).HandleMessage(msg)
		default:
			panic("bad kind")
		}
		if prop != nil {
			return "proposal"
		}
		groups := c17Drain(ch)
		em := "-"
		if len(groups) == 1 && len(groups[0]) == 0 {
			em = "empty" // an empty batch on the message channel makes relayer.route index msgs[0]
		} else if len(groups) == 1 {
			em = c17Idx(groups[0])
		} else if len(groups) > 1 {
			return "many"
		}
		return c3Ret(err) + "|" + em + "|" + c17Final(db, ds)
	}
	// retryv2 <listening domain> <source> <destination> <height> <resource>
	//   the request a RetryV2 event is turned into  =>  <msg.Source>,<msg.Destination>,<type>|<src>,<dst>,<height>,<res>
	ops["C17.retryv2"] = func(a []string) string {
		ch := make(chan []*message.Message, 4)
		ev := events.RetryV2Event{SourceDomainID: uint8(u64(a[1])), DestinationDomainID: uint8(u64(a[2])),
			BlockHeight: new(big.Int).SetUint64(u64(a[3])), ResourceID: c3Resource(byte(u64(a[4])))}
		h := eventHandlers.NewRetryV2EventHandler(zerolog.Nop().With(), &c17Listener{v2: []events.RetryV2Event{ev}},
			common.Address{}, uint8(u64(a[0])), ch)
		if err := h.HandleEvents(big.NewInt(1), big.NewInt(2)); err != nil {
			return "err"
		}
		select {
		case ms := <-ch:
			if len(ms) != 1 {
				return "count:" + itoa(len(ms))
			}
			d, ok := ms[0].Data.(retry.RetryMessageData)
			if !ok {
				return "baddata"
			}
			return itoa(int(ms[0].Source)) + "," + itoa(int(ms[0].Destination)) + "," + string(ms[0].Type) + "|" +
				itoa(int(d.SourceDomainID)) + "," + itoa(int(d.DestinationDomainID)) + "," + d.BlockHeight.String() + "," + itoa(int(d.ResourceID[31]))
		case <-time.After(10 * time.Second):
			return "nothing"
		}
	}
	// hist <n> <ops>   '/'-separated:
	//   D<nonces>[@f]  the exported Execute; selected = what reaches the metadata upload -> s:<nonces> | e
	//   S<id>[=<nonces>][@f] / F…  outcome of the execution started by delivery #id recorded (executed / failed); with
	//                  =<nonces> only of the resource group holding these nonces (Execute runs one session per resource) -> d
	//   T<id>          that execution never gets its signatures: the real watchExecution runs into its signing
	//                  time-out (nothing is recorded) -> d
	//   R<nonces>[@f]  FilterDeposits over deposits with these nonces (all matching the request) -> r:<nonces>
	//   an operation that would block on propMutex -> hang (not called)
	//   => per op `<result>~<statuses of nonces 0..n-1>`, '/'-separated, then `#free|held`
	// histstrict: the same run, judged by the Lean driver against the property AS STATED (no sequentiality proviso)
	ops["C17.histstrict"] = func(a []string) string { return ops["C17.hist"](a) }
	ops["C17.hist"] = func(a []string) string {
		n := int(u64(a[0]))
		b := newC3Btc("-")
		ps := store.NewPropStore(b.db)
		started := [][]*btcExecutor.BtcTransferProposal{}
		out := []string{}
		for _, op := range items(a[1], "/") {
			arg, faults := c17Split(op)
			b.db.setFaults(faults)
			res := "d"
			switch op[0] {
			case 'D':
				if !b.exe.VerifC17MutexFree() {
					res = "hang"
					break
				}
				var props []*btcExecutor.BtcTransferProposal
				if nonces := c3Nonces(arg); len(nonces) == 0 {
					// (the exported Execute panics on an empty delivery, which the relayer never produces)
					var err error
					props, err = b.exe.VerifC17ProposalsForExecution(c3BtcProps(nonces, "", "m"), "m")
					if err != nil {
						res = "e"
					} else {
						res = "s:-"
					}
				} else {
					// the OUTERMOST entry point: what Execute goes on to sign is what reaches the metadata upload
					err := b.exe.Execute(c3BtcProps(nonces, "", "m"))
					signed := b.up.take()
					switch {
					case signed != "-":
						res = "s:" + strings.ReplaceAll(signed, ";", ",")
						for _, x := range c3Nonces(strings.ReplaceAll(signed, ";", ",")) {
							props = append(props, &btcExecutor.BtcTransferProposal{Source: c3Src, Destination: c3Dst,
								Data: btcExecutor.BtcTransferProposalData{DepositNonce: x, Amount: 1000 + x, Recipient: c3Recipient, ResourceId: c3Resource('a')}})
						}
					case err != nil:
						res = "e"
					default:
						res = "s:-"
					}
				}
				started = append(started, props)
			case 'S', 'F':
				if !b.exe.VerifC17MutexFree() {
					res = "hang"
					break
				}
				id, grp := c17IdGroup(arg)
				st := store.ExecutedProp
				if op[0] == 'F' {
					st = store.FailedProp
				}
				if id < len(started) {
					var mine []*btcExecutor.BtcTransferProposal
					mine, started[id] = c17SplitGroup(started[id], grp)
					b.exe.VerifC17StoreProposalsStatus(mine, st)
				}
			case 'T':
				// the watcher of that group never gets its signatures: the REAL signing time-out path runs
				if id, grp := c17IdGroup(arg); id < len(started) {
					var mine []*btcExecutor.BtcTransferProposal
					mine, started[id] = c17SplitGroup(started[id], grp)
					if mine != nil {
						if r := c17Timeout(b.exe, mine); r != "t" {
							res = r
						}
					}
				}
			case 'R':
				ds := []c17Dep{}
				for _, x := range c3Nonces(arg) {
					ds = append(ds, c17Dep{c3Dst, 'a', x, 0})
				}
				em, err := retry.FilterDeposits(ps, c17ByDomain(ds), c3Resource('a'), c3Dst)
				if err != nil {
					res = "e"
				} else {
					xs := []string{}
					for _, m := range em {
						xs = append(xs, utoa(m.Data.(transfer.TransferMessageData).DepositNonce))
					}
					res = "r:" + joinOr(xs, ",")
				}
			default:
				panic("bad op")
			}
			out = append(out, res+"~"+b.statuses(n))
		}
		mx := "free"
		if !b.exe.VerifC17MutexFree() {
			mx = "held"
		}
		return joinOr(out, "/") + "#" + mx
	}
	// live <statuses> <faults>: exported API only. Execute a delivery of len(statuses) proposals under the fault
	// script, then a second, fault-free Execute of one fresh proposal must return  =>  returned | hang
	ops["C17.live"] = func(a []string) string {
		init := c3Script(a[0])
		b := newC3Btc(a[1])
		for i := range init {
			b.db.preset(c3Src, c3Dst, uint64(i), init[i:i+1])
		}
		b.deliver(c3BtcProps(c3Range(len(init)), "", "m"))
		b.db.setFaults("-")
		done := make(chan struct{})
		go func() {
			defer func() { _ = recover(); close(done) }()
			_ = b.exe.Execute(c3BtcProps([]uint64{900}, "", "m2"))
		}()
		select {
		case <-done:
			return "returned"
		case <-time.After(8 * time.Second):
			return "hang"
		}
	}
	gens["C17"] = genC17
}

var _ = errors.New

// `<id>` or `<id>=<nonces>`: a whole delivery, or the resource group of it holding these nonces
func c17IdGroup(arg string) (int, map[uint64]bool) {
	f := strings.SplitN(arg, "=", 2)
	id := int(u64(f[0]))
	if len(f) == 1 {
		return id, nil
	}
	grp := map[uint64]bool{}
	for _, n := range c3Nonces(joinOr1(f[1])) {
		grp[n] = true
	}
	return id, grp
}

// the proposals of `ps` in the group (nil group = all), and the rest
func c17SplitGroup(ps []*btcExecutor.BtcTransferProposal, grp map[uint64]bool) (mine, rest []*btcExecutor.BtcTransferProposal) {
	for _, p := range ps {
		if grp == nil || grp[p.Data.DepositNonce] {
			mine = append(mine, p)
		} else {
			rest = append(rest, p)
		}
	}
	return
}

func c17Faults(g *G, n int, oneIn int) string {
	var fl strings.Builder
	for j := 0; j < n; j++ {
		if g.Intn(oneIn) == 0 {
			fl.WriteByte(c3FaultLetter(g))
		} else {
			fl.WriteByte('0')
		}
	}
	if g.Intn(4) == 0 {
		return "W" + fl.String()
	}
	return joinOr1(fl.String())
}

func genC17(g *G) {
	genC17Outcome(g)
	genC17Store(g)
	// ---- filter: exhaustive small scopes. request = resource 1, destination 2
	type dd struct{ d, r string }
	full := []dd{{"2", "1"}, {"2", "2"}, {"3", "1"}, {"3", "2"}}
	small := []dd{{"2", "1"}, {"2", "2"}, {"3", "1"}}
	var rec func(alpha []dd, L int, deps []string, st string)
	rec = func(alpha []dd, L int, deps []string, st string) {
		if len(deps) == L {
			g.Emit("filter", joinOr(deps, ","), "1", "2", joinOr1(st), "-")
			for k := 0; k < 2*L; k++ {
				g.Emit("filter", joinOr(deps, ","), "1", "2", joinOr1(st), c3SingleFault(g, k))
			}
			return
		}
		for _, x := range alpha {
			for _, s := range "mpfe" {
				rec(alpha, L, append(append([]string{}, deps...), x.d+"."+x.r+"."+itoa(len(deps))), st+string(s))
			}
		}
	}
	rec(full, 0, nil, "")
	rec(full, 1, nil, "")
	rec(full, 2, nil, "")
	rec(small, 3, nil, "")
	if g.Thorough() {
		rec(small, 4, nil, "")
	}
	randDeps := func(n int) (string, string) {
		deps := []string{}
		var st strings.Builder
		for j := 0; j < n; j++ {
			deps = append(deps, g.Pick([]string{"2", "2", "2", "3"})+"."+g.Pick([]string{"1", "1", "2"})+"."+itoa(g.Intn(6)))
			st.WriteByte("mmpppfee"[g.Intn(8)])
		}
		return joinOr(deps, ","), joinOr1(st.String())
	}
	for i := 0; i < g.Count(1000, 40000); i++ {
		n := g.Intn(10)
		deps, st := randDeps(n)
		g.Emit("filter", deps, g.Pick([]string{"1", "1", "2"}), g.Pick([]string{"2", "2", "3", "4"}), st, c17Faults(g, 2*n, 3+g.Intn(10)))
	}
	// ---- RetryV1
	for i := 0; i < g.Count(600, 20000); i++ {
		n := g.Intn(8)
		deps, st := randDeps(n)
		fl := "-"
		if g.Intn(2) == 0 {
			fl = c17Faults(g, 2*n, 3+g.Intn(8))
		}
		g.Emit("retryv1", deps, st, fl)
	}
	// ---- RetryV2: the request carried by the retry message
	for i := 0; i < g.Count(150, 3000); i++ {
		g.Emit("retryv2", itoa(g.Intn(4)), itoa(g.Intn(5)), itoa(g.Intn(5)), utoa([]uint64{0, 1, 77, 1 << 40}[g.Intn(4)]), itoa(1+g.Intn(3)))
	}
	// ---- RetryV1: a deposit of the retried transaction that cannot be handled (handler panics / errs / yields foreign
	//      data) must not keep its neighbours from being re-emitted
	for i := 0; i < g.Count(300, 8000); i++ {
		n := 2 + g.Intn(5)
		deps := []string{}
		var st strings.Builder
		for j := 0; j < n; j++ {
			d := g.Pick([]string{"2", "2", "3"}) + "." + g.Pick([]string{"1", "2"}) + "." + itoa(j)
			if g.Intn(3) == 0 {
				d += g.Pick([]string{"!", "?", "#"})
			}
			deps = append(deps, d)
			st.WriteByte("mmppfe"[g.Intn(6)])
		}
		fl := "-"
		if g.Intn(3) == 0 {
			fl = c17Faults(g, 2*n, 4)
		}
		g.Emit("retryv1", strings.Join(deps, ","), st.String(), fl)
	}
	for _, bad := range []string{"!", "?", "#"} {
		for _, st := range []string{"mm", "pm", "mp", "ep", "pp"} {
			g.Emit("retryv1", "2.1.0"+bad+",2.1.1", st, "-")
			g.Emit("retryv1", "2.1.0,2.1.1"+bad+",3.1.2", st+"p", "-")
		}
	}
	// ---- RetryV1: SEVERAL retried transactions in one handled block range, with and without a common destination
	for i := 0; i < g.Count(300, 8000); i++ {
		evs := []string{}
		var st strings.Builder
		idx := 0
		for e := 1 + g.Intn(3); e > 0; e-- {
			deps := []string{}
			for k := g.Intn(4); k > 0; k-- {
				d := g.Pick([]string{"2", "2", "3", "4"}) + "." + g.Pick([]string{"1", "2"}) + "." + itoa(idx)
				if g.Intn(8) == 0 {
					d += g.Pick([]string{"!", "?", "#"})
				}
				deps = append(deps, d)
				st.WriteByte("mmppfe"[g.Intn(6)])
				idx++
			}
			evs = append(evs, joinOr(deps, ","))
		}
		fl := "-"
		if g.Intn(4) == 0 {
			fl = c17Faults(g, 2*idx, 4)
		}
		g.Emit("retryv1", strings.Join(evs, "+"), joinOr1(st.String()), fl)
	}
	for _, st := range []string{"mm", "pm", "pp", "em", "fe"} {
		g.Emit("retryv1", "2.1.0+2.1.1", st, "-")
		g.Emit("retryv1", "2.1.0+3.1.1", st, "-")
		g.Emit("retryv1", "2.1.0,3.1.1+-+2.1.2", st+"p", "-")
	}
	// ---- the three RetryMessageHandlers
	for i := 0; i < g.Count(900, 30000); i++ {
		n := g.Intn(6)
		deps, st := randDeps(n)
		height := int64(g.Intn(50))
		conf := int64(g.Intn(4))
		latest := height + conf + int64(g.Intn(5)) - 2
		if latest < 0 {
			latest = 0
		}
		fl := "-"
		if g.Intn(3) == 0 {
			fl = c17Faults(g, 2*n, 4)
		}
		g.Emit("handler", g.Pick([]string{"evm", "btc", "sub"}), itoa(int(latest)), itoa(int(height)), itoa(int(conf)), deps, "1", g.Pick([]string{"2", "2", "3"}), st, fl)
	}
	// ---- histories over the BTC executor and the retry filter
	N := 4
	for i := 0; i < g.Count(1500, 60000); i++ {
		k := 1 + g.Intn(10)
		opsl := []string{}
		// rough simulation (fault-free) only to steer the generator towards sequential histories
		status := make([]byte, N)
		for j := range status {
			status[j] = 'm'
		}
		inflight := map[int][]int{}
		isInflight := func(x int) bool {
			for _, v := range inflight {
				for _, y := range v {
					if y == x {
						return true
					}
				}
			}
			return false
		}
		deliveries := 0
		faultsOften := g.Intn(3) == 0
		for j := 0; j < k; j++ {
			f := ""
			if faultsOften && g.Intn(3) == 0 {
				f = "@" + c17Faults(g, 6, 3)
			}
			switch c := g.Intn(10); {
			case c < 4:
				ns := []int{}
				for q := g.Intn(4); q > 0; q-- {
					ns = append(ns, g.Intn(N))
				}
				sel := []int{}
				for _, x := range ns {
					if status[x] == 'm' || status[x] == 'f' {
						status[x] = 'p'
						sel = append(sel, x)
					}
				}
				inflight[deliveries] = sel
				deliveries++
				opsl = append(opsl, "D"+c17Ints(ns)+f)
			case c < 7 && deliveries > 0:
				id := g.Intn(deliveries)
				kind := "SSFFT"[g.Intn(5)]
				// Execute runs one session per resource: often only one group (nonces of one parity) concludes
				grp, rest, arg := inflight[id], []int(nil), itoa(id)
				if g.Intn(2) == 0 && len(inflight[id]) > 0 {
					par := inflight[id][g.Intn(len(inflight[id]))] % 2
					grp = nil
					for _, x := range inflight[id] {
						if x%2 == par {
							grp = append(grp, x)
						} else {
							rest = append(rest, x)
						}
					}
					arg += "=" + c17Ints(grp)
				}
				for _, x := range grp {
					switch kind {
					case 'S':
						status[x] = 'e'
					case 'F':
						status[x] = 'f'
					}
				}
				if len(rest) > 0 {
					inflight[id] = rest
				} else {
					delete(inflight, id)
				}
				if kind == 'T' {
					opsl = append(opsl, "T"+arg)
				} else {
					opsl = append(opsl, string(kind)+arg+f)
				}
			default:
				ns := []int{}
				anyOverlap := g.Intn(4) == 0
				for q := g.Intn(4); q > 0; q-- {
					x := g.Intn(N)
					if anyOverlap || !isInflight(x) {
						ns = append(ns, x)
					}
				}
				for _, x := range ns {
					if status[x] == 'p' {
						status[x] = 'f'
					}
				}
				opsl = append(opsl, "R"+c17Ints(ns)+f)
			}
		}
		g.Emit("hist", itoa(N), joinOr(opsl, "/"))
	}
	// ---- exhaustive small scope for the two critical sections: every single fault position in a delivery, then in
	//      the recording of its outcome, then a further delivery (a leaked mutex shows as `hang`)
	subsets := [][]int{{0}, {1}, {2}, {0, 1}, {1, 2}, {2, 0}, {0, 1, 2}}
	single := func(n int) []string {
		out := []string{""}
		for k := 0; k < n; k++ {
			out = append(out, "@"+c3SingleFault(g, k))
		}
		return out
	}
	for _, ns := range subsets {
		for _, fd := range single(2 * len(ns)) {
			for _, kind := range []string{"S", "F", "T"} {
				fos := single(len(ns))
				if kind == "T" {
					fos = []string{""}
				}
				for _, fo := range fos {
					g.Emit("hist", "3", "D"+c17Ints(ns)+fd+"/"+kind+"0"+fo+"/R0,1,2/D0,1,2/S1")
				}
			}
		}
	}
	// ---- an executed (or in-flight) record in front of, behind and between the proposals of a delivery that hits ONE
	//      store fault at every call position (each kind): the records of the other proposals must not move
	for _, setup := range []string{"D0/S0", "D0/S0/D2/S1", "D1/S0", "D0"} {
		for _, del := range []string{"0,1", "1,0", "0,1,2", "2,1,0"} {
			for k := 0; k < 2*len(strings.Split(del, ",")); k++ {
				g.Emit("hist", "3", setup+"/D"+del+"@"+c3SingleFault(g, k)+"/R0,1,2/D0,1,2")
			}
		}
	}
	// ---- a delivery over two resources: the groups are signed, sent and recorded independently
	for _, o1 := range []string{"S0=0", "F0=0", "T0=0"} {
		for _, o2 := range []string{"S0=1", "F0=1", "T0=1", "S0=1@1"} {
			g.Emit("hist", "3", "D0,1,2/"+o1+"/R0,1,2/"+o2+"/D0,1,2/S0=2/R0,1,2/D0,1,2")
			g.Emit("hist", "3", "D0,1/"+o2+"/"+o1+"/R0,1/D0,1")
		}
	}
	// ---- KNOWN FINDING C17-overlap-late-failure: a retry releases a deposit whose execution is still in flight; it is
	//      delivered again; one execution succeeds and the other one fails LATER: the failure overwrites `executed`.
	//      Judged strictly as `histstrict` (reported as known), and again as `hist` (sequentiality proviso) so that
	//      every other deviation on the same inputs is still reported.
	for _, ns := range []string{"0", "1", "0,1", "1,2"} {
		for _, tail := range []string{"S0/F1", "S1/F0", "S0/T1", "S1/T0", "F0/S1", "F1/S0", "S0/F1/R0,1,2/D0,1,2"} {
			h := "D" + ns + "/R" + ns + "/D" + ns + "/" + tail
			g.Emit("histstrict", "3", h)
			g.Emit("hist", "3", h)
		}
		g.Emit("histstrict", "3", "D"+ns+"/S0/R"+ns+"/D"+ns)
		g.Emit("histstrict", "3", "D"+ns+"/F0/R"+ns+"/D"+ns+"/S1/R"+ns+"/D"+ns)
	}
	// ---- a stale session: released by a retry while stuck, re-delivered, executed by the newer session; then the
	//      old watcher runs into its signing time-out (real code path). Any later retry / delivery must leave the
	//      executed record alone.
	for _, ns := range []string{"0", "1,2", "0,1,2"} {
		g.Emit("hist", "3", "D"+ns+"/R"+ns+"/D"+ns+"/S1/T0/R0,1,2/D0,1,2")
		g.Emit("hist", "3", "D"+ns+"/T0/R"+ns+"/D"+ns+"/S1/R0,1,2/D0,1,2")
		g.Emit("hist", "3", "D"+ns+"/R"+ns+"/D"+ns+"/T0/S1/T1/D0,1,2")
	}
	// ---- liveness through the exported API only (few cases: a regression costs 8 s per hanging case)
	for _, c := range [][2]string{{"m", "1"}, {"m", "01"}, {"mm", "001"}, {"fe", "-"}, {"mpm", "0001"}, {"-", "-"}} {
		g.Emit("live", c[0], c[1])
	}
}

func c17Ints(xs []int) string {
	s := []string{}
	for _, x := range xs {
		s = append(s, itoa(x))
	}
	if len(s) == 0 {
		return ""
	}
	return strings.Join(s, ",")
}
