package main

// C16 — Bitcoin withdrawal transaction construction.
// Real code: (*executor.Executor).rawTx / fee (through the overlay accessor), (*mempool.MempoolAPI).Utxos /
// RecommendedFee against a loopback HTTP server, executor.ERC20MessageHandler.

import (
	"encoding/hex"
	"errors"
	"fmt"
	"math/big"
	"net/http"
	"net/http/httptest"
	"sort"
	"strings"
	"sync"

	"github.com/ChainSafe/sygma-relayer/chains/btc/config"
	"github.com/ChainSafe/sygma-relayer/chains/btc/executor"
	"github.com/ChainSafe/sygma-relayer/chains/btc/mempool"
	"github.com/ChainSafe/sygma-relayer/relayer/transfer"
	"github.com/ChainSafe/sygma-relayer/store"
	"github.com/btcsuite/btcd/btcutil"
	"github.com/btcsuite/btcd/chaincfg"
	"github.com/btcsuite/btcd/wire"
	"github.com/sygmaprotocol/sygma-core/relayer/proposal"
)

// scripted mempool: the UTXO list is handed to rawTx in exactly this order (the service's sorting is op `utxos`)
type c16Mempool struct {
	rate    string // economy fee script, see c16Rate
	utxos   []mempool.Utxo
	utxoErr bool
	calls   int
	asked   []string // addresses Utxos was called with
}

// c16Rate: the answer to the n-th RecommendedFee call (1-based) under the script `r` | `r1/r2` | `x` | `r1/x`
func c16Rate(script string, call int) (uint64, bool) {
	f := strings.Split(script, "/")
	r := f[0]
	if call >= 2 && len(f) > 1 {
		r = f[1]
	}
	if r == "x" {
		return 0, false
	}
	return u64(r), true
}

func (m *c16Mempool) RecommendedFee() (*mempool.Fee, error) {
	m.calls++
	r, ok := c16Rate(m.rate, m.calls)
	if !ok {
		return nil, errors.New("fee service down")
	}
	return &mempool.Fee{EconomyFee: r, FastestFee: 1 << 40, MinimumFee: 1, HourFee: 3, HalfHourFee: 9}, nil
}
func (m *c16Mempool) Utxos(address string) ([]mempool.Utxo, error) {
	m.asked = append(m.asked, address)
	if m.utxoErr {
		return nil, errors.New("utxo service down")
	}
	return m.utxos, nil
}

type c16Uploader struct {
	cid  string
	fail bool
	got  []map[string]interface{}
}

func (u *c16Uploader) Upload(d []map[string]interface{}) (string, error) {
	u.got = d
	if u.fail {
		return "", errors.New("ipfs down")
	}
	return u.cid, nil
}

// the bridge address is a Taproot address built from a key token
func c16Bridge(tok string) btcutil.Address {
	var k [32]byte
	copy(k[:], []byte("bridge-key-"+tok))
	a, err := btcutil.NewAddressTaproot(k[:], &chaincfg.TestNet3Params)
	if err != nil {
		panic(err)
	}
	return a
}

// props `amount,recipient,expectedScript` — the third field is for the model only
func c16Props(spec string) []*executor.BtcTransferProposal {
	ps := []*executor.BtcTransferProposal{}
	for i, it := range items(spec, ";") {
		f := strings.Split(it, ",")
		rc := f[1]
		if rc == "-" {
			rc = ""
		}
		ps = append(ps, &executor.BtcTransferProposal{Source: 1, Destination: 2, Data: executor.BtcTransferProposalData{
			Amount: u64(f[0]), Recipient: rc, DepositNonce: uint64(100 + i), ResourceId: [32]byte{9}}})
	}
	return ps
}

// utxos `txid,vout,value,blocktime[,c|u]`  (u = unconfirmed: status.confirmed false, and no block fields when blocktime is 0)
func c16Utxos(spec string) []mempool.Utxo {
	us := []mempool.Utxo{}
	for _, it := range items(spec, ";") {
		f := strings.Split(it, ",")
		conf := len(f) < 5 || f[4] != "u"
		u := mempool.Utxo{TxID: f[0], Vout: uint32(u64(f[1])), Value: u64(f[2]),
			Status: mempool.Status{Confirmed: conf, BlockTime: u64(f[3])}}
		if conf {
			u.Status.BlockHeight = 5
		}
		us = append(us, u)
	}
	return us
}

// the JSON the mempool.space API sends: unconfirmed outputs carry only {"confirmed":false}
func c16UtxoJSON(us []mempool.Utxo) string {
	xs := []string{}
	for _, u := range us {
		st := fmt.Sprintf(`{"confirmed":true,"block_height":5,"block_hash":"00","block_time":%d}`, u.Status.BlockTime)
		if !u.Status.Confirmed {
			st = `{"confirmed":false}`
			if u.Status.BlockTime != 0 {
				st = fmt.Sprintf(`{"confirmed":false,"block_time":%d}`, u.Status.BlockTime)
			}
		}
		xs = append(xs, fmt.Sprintf(`{"txid":%q,"vout":%d,"status":%s,"value":%d}`, u.TxID, u.Vout, st, u.Value))
	}
	return "[" + strings.Join(xs, ",") + "]"
}

func c16ShowUtxos(us []mempool.Utxo) string {
	out := []string{}
	for _, u := range us {
		c := "c"
		if !u.Status.Confirmed {
			c = "u"
		}
		out = append(out, fmt.Sprintf("%s:%d:%d:%d:%s", u.TxID, u.Vout, u.Value, u.Status.BlockTime, c))
	}
	return joinOr(out, ",")
}

func c16ShowTx(tx *wire.MsgTx, used []mempool.Utxo) string {
	ins := []string{}
	for i, in := range tx.TxIn {
		v := "?"
		if i < len(used) {
			v = utoa(used[i].Value)
			h := in.PreviousOutPoint.Hash.String()
			if !strings.EqualFold(strings.TrimLeft(used[i].TxID, "0"), strings.TrimLeft(h, "0")) || used[i].Vout != in.PreviousOutPoint.Index {
				v = "mismatch"
			}
		}
		extra := ""
		if in.Sequence != wire.MaxTxInSequenceNum || len(in.SignatureScript) != 0 || len(in.Witness) != 0 {
			extra = ":seq"
		}
		ins = append(ins, fmt.Sprintf("%s:%d:%s%s", in.PreviousOutPoint.Hash.String(), in.PreviousOutPoint.Index, v, extra))
	}
	outs := []string{}
	for _, o := range tx.TxOut {
		outs = append(outs, fmt.Sprintf("%d:%s", o.Value, hx(o.PkScript)))
	}
	hdr := ""
	if tx.Version != 1 || tx.LockTime != 0 || len(used) != len(tx.TxIn) {
		hdr = "|hdr"
	}
	return "in=" + joinOr(ins, ",") + "|out=" + joinOr(outs, ",") + hdr
}

// c16Serve points the real MempoolAPI at a loopback server that lists `us` in the given order and answers fee requests
// from the rate script. One server is shared by all cases (ops run one at a time; the state is swapped under a mutex),
// so a long run does not churn through listening sockets.
var c16Srv struct {
	once  sync.Once
	srv   *httptest.Server
	mu    sync.Mutex
	us    []mempool.Utxo
	rate  string
	calls int
	paths []string
	byAddr map[string][]mempool.Utxo // when set: the listing of each address (op multi); other addresses hold nothing
}

func c16Serve(us []mempool.Utxo, rate string) *mempool.MempoolAPI {
	c16Srv.once.Do(func() {
		c16Srv.srv = httptest.NewServer(http.HandlerFunc(func(w http.ResponseWriter, r *http.Request) {
			c16Srv.mu.Lock()
			defer c16Srv.mu.Unlock()
			if strings.Contains(r.URL.Path, "/fees/recommended") {
				c16Srv.calls++
				rr, ok := c16Rate(c16Srv.rate, c16Srv.calls)
				if !ok {
					w.Write([]byte("service unavailable"))
					return
				}
				fmt.Fprintf(w, `{"fastestFee":1099511627776,"halfHourFee":9,"hourFee":3,"economyFee":%d,"minimumFee":1}`, rr)
				return
			}
			c16Srv.paths = append(c16Srv.paths, r.URL.Path)
			if c16Srv.byAddr != nil {
				addr := strings.TrimSuffix(strings.TrimPrefix(r.URL.Path, "/api/address/"), "/utxo")
				w.Write([]byte(c16UtxoJSON(c16Srv.byAddr[addr])))
				return
			}
			w.Write([]byte(c16UtxoJSON(c16Srv.us)))
		}))
	})
	c16Srv.mu.Lock()
	c16Srv.us, c16Srv.rate, c16Srv.calls, c16Srv.paths, c16Srv.byAddr = us, rate, 0, nil, nil
	c16Srv.mu.Unlock()
	return mempool.NewMempoolAPI(c16Srv.srv.URL)
}

// in-memory proposal store with scripted faults: value x = status read fails, w = status write fails (reads as missing)
type c16Store struct {
	mu sync.Mutex
	m  map[string]string
}

func (s *c16Store) key(src, dst uint8, n uint64) string { return fmt.Sprintf("%d.%d.%d", src, dst, n) }
func (s *c16Store) PropStatus(src, dst uint8, n uint64) (store.PropStatus, error) {
	s.mu.Lock()
	defer s.mu.Unlock()
	switch s.m[s.key(src, dst, n)] {
	case "x":
		return store.MissingProp, fmt.Errorf("read %w", errors.New("leveldb: closed"))
	case "f":
		return store.FailedProp, nil
	case "p":
		return store.PendingProp, nil
	case "e":
		return store.ExecutedProp, nil
	}
	return store.MissingProp, nil
}
func (s *c16Store) StorePropStatus(src, dst uint8, n uint64, st store.PropStatus) error {
	s.mu.Lock()
	defer s.mu.Unlock()
	k := s.key(src, dst, n)
	if s.m[k] == "w" {
		return errors.New("write failed")
	}
	s.m[k] = map[store.PropStatus]string{store.MissingProp: "m", store.FailedProp: "f", store.PendingProp: "p", store.ExecutedProp: "e"}[st]
	return nil
}
func (s *c16Store) dump() string {
	s.mu.Lock()
	defer s.mu.Unlock()
	ks := []string{}
	for k, v := range s.m {
		ks = append(ks, k+"="+v)
	}
	sort.Strings(ks)
	return joinOr(ks, ";")
}

func c16Exec(mp executor.MempoolAPI, up *c16Uploader) *executor.Executor {
	return executor.NewExecutor(nil, nil, nil, nil, nil, nil, mp, nil, chaincfg.TestNet3Params, &sync.RWMutex{}, up)
}

func c16Uploaded(up *c16Uploader, ps []*executor.BtcTransferProposal) string {
	if up.got == nil {
		return ""
	}
	if len(up.got) != len(ps) {
		return "|meta"
	}
	for i, m := range up.got {
		if fmt.Sprint(m["sourceDomain"]) != fmt.Sprint(ps[i].Source) || fmt.Sprint(m["depositNonce"]) != fmt.Sprint(ps[i].Data.DepositNonce) {
			return "|meta"
		}
	}
	return ""
}

func init() {
	// rawtx <r|r1/r2|x|r1/x> <cidhex|x> <bridgeTok>:<bridgeScript> <props> <utxos|x>  =>  err | in=txid:vout:value,…|out=value:script,…
	ops["C16.rawtx"] = func(a []string) string {
		mp := &c16Mempool{rate: a[0]}
		if a[4] == "x" {
			mp.utxoErr = true
		} else {
			mp.utxos = c16Utxos(a[4])
		}
		up := &c16Uploader{}
		if a[1] == "x" {
			up.fail = true
		} else {
			up.cid = string(unhx(a[1]))
		}
		ps := c16Props(a[3])
		res := config.Resource{Address: c16Bridge(strings.Split(a[2], ":")[0]), ResourceID: [32]byte{9}, FeeAmount: big.NewInt(0)}
		tx, used, err := c16Exec(mp, up).VerifC16RawTx(ps, res)
		if err != nil {
			return "err"
		}
		if len(mp.asked) != 1 || mp.asked[0] != res.Address.String() {
			return c16ShowTx(tx, used) + "|not-the-bridge-address"
		}
		return c16ShowTx(tx, used) + c16Uploaded(up, ps)
	}
	// build: the same, but fee and UTXO list come from the real MempoolAPI talking to a loopback server that lists the
	// UTXOs in the given order (so the service-side sort is inside the run)
	ops["C16.build"] = func(a []string) string {
		api := c16Serve(c16Utxos(a[4]), a[0])
		up := &c16Uploader{}
		if a[1] == "x" {
			up.fail = true
		} else {
			up.cid = string(unhx(a[1]))
		}
		ps := c16Props(a[3])
		res := config.Resource{Address: c16Bridge(strings.Split(a[2], ":")[0]), ResourceID: [32]byte{9}, FeeAmount: big.NewInt(0)}
		tx, used, err := c16Exec(api, up).VerifC16RawTx(ps, res)
		if err != nil {
			return "err"
		}
		c16Srv.mu.Lock()
		paths := append([]string{}, c16Srv.paths...)
		c16Srv.mu.Unlock()
		if len(paths) != 1 || paths[0] != "/api/address/"+res.Address.String()+"/utxo" {
			return c16ShowTx(tx, used) + "|not-the-bridge-address"
		}
		return c16ShowTx(tx, used) + c16Uploaded(up, ps)
	}
	// utxos <listing>  =>  txid:vout:value:blocktime,… as returned by the real MempoolAPI.Utxos
	ops["C16.utxos"] = func(a []string) string {
		api := c16Serve(c16Utxos(a[0]), "1")
		us, err := api.Utxos("addr")
		if err != nil {
			return "err"
		}
		return c16ShowUtxos(us)
	}
	// utxoperm <listing1> <listing2>  =>  <answer1>|<answer2>: the real Utxos on two listings of the same set
	ops["C16.utxoperm"] = func(a []string) string {
		out := []string{}
		for _, l := range a[:2] {
			us, err := c16Serve(c16Utxos(l), "1").Utxos("addr")
			if err != nil {
				out = append(out, "err")
			} else {
				out = append(out, c16ShowUtxos(us))
			}
		}
		return strings.Join(out, "|")
	}
	// buildperm <rate> <cid> <bridge> <props> <listing1> <listing2>  =>  <tx1|err>#<tx2|err>: real MempoolAPI + rawTx on both listings
	ops["C16.buildperm"] = func(a []string) string {
		out := []string{}
		for _, l := range a[4:6] {
			api := c16Serve(c16Utxos(l), a[0])
			up := &c16Uploader{}
			if a[1] == "x" {
				up.fail = true
			} else {
				up.cid = string(unhx(a[1]))
			}
			ps := c16Props(a[3])
			res := config.Resource{Address: c16Bridge(strings.Split(a[2], ":")[0]), ResourceID: [32]byte{9}, FeeAmount: big.NewInt(0)}
			tx, used, err := c16Exec(api, up).VerifC16RawTx(ps, res)
			if err != nil {
				out = append(out, "err")
			} else {
				out = append(out, c16ShowTx(tx, used)+c16Uploaded(up, ps))
			}
		}
		return strings.Join(out, "#")
	}
	// fee <rate> <inputs> <outputs>  =>  decimal | err
	ops["C16.fee"] = func(a []string) string {
		f, err := c16Exec(&c16Mempool{rate: a[0]}, &c16Uploader{}).VerifC16Fee(u64(a[1]), u64(a[2]))
		if err != nil {
			return "err"
		}
		return utoa(f)
	}
	// msg <amountBytesHex> <recipientBytesHex>  =>  err | <amount>/<recipienthex>/<nonce>/<rid>
	ops["C16.msg"] = func(a []string) string {
		p, err := executor.ERC20MessageHandler(&transfer.TransferMessage{Source: 1, Destination: 2, ID: "id",
			Data: transfer.TransferMessageData{DepositNonce: 77, ResourceId: [32]byte{9}, Type: transfer.FungibleTransfer,
				Payload: []interface{}{unhx(a[0]), unhx(a[1])}}})
		if err != nil {
			return "err"
		}
		d := p.Data.(executor.BtcTransferProposalData)
		return fmt.Sprintf("%d/%s/%d/%s", d.Amount, hx([]byte(d.Recipient)), d.DepositNonce, hx(d.ResourceId[:1]))
	}
	// batch <rate> <cid> <bridge> <store> <utxos> <batches>
	//   store   = src.dst.nonce=S;…   S: m missing, f failed, p pending, e executed, x status read fails, w status write fails
	//   batches = batch ! batch …     batch = outcome^proposals   outcome: e/f = what watchExecution records after sending, n = nothing
	//             proposals = src.dst.nonce,amount,recipient,script;…   (the same deposit may occur several times)
	// ONE executor and ONE proposal store live across the whole sequence: proposalsForExecution, then rawTx for what it selected.
	//   =>  per batch (joined by !): err | sel=<indices into the batch>|<tx or err>, each followed by |st=<store afterwards>
	ops["C16.batch"] = func(a []string) string {
		st := &c16Store{m: map[string]string{}}
		for _, it := range items(a[3], ";") {
			f := strings.SplitN(it, "=", 2)
			st.m[f[0]] = f[1]
		}
		mp := &c16Mempool{rate: a[0], utxos: c16Utxos(a[4])}
		up := &c16Uploader{cid: string(unhx(a[1]))}
		res := config.Resource{Address: c16Bridge(strings.Split(a[2], ":")[0]), ResourceID: [32]byte{9}, FeeAmount: big.NewInt(0)}
		e := executor.NewExecutor(st, nil, nil, nil, nil, nil, mp, map[[32]byte]config.Resource{res.ResourceID: res}, chaincfg.TestNet3Params, &sync.RWMutex{}, up)
		out := []string{}
		for _, b := range strings.Split(a[5], "!") {
			f := strings.SplitN(b, "^", 2)
			type ent struct {
				key, rcp string
				amt      uint64
				used     bool
			}
			ents := []*ent{}
			ps := []*proposal.Proposal{}
			for _, it := range items(f[1], ";") {
				x := strings.Split(it, ",")
				k := strings.Split(x[0], ".")
				rc := x[2]
				if rc == "-" {
					rc = ""
				}
				ents = append(ents, &ent{key: x[0], rcp: rc, amt: u64(x[1])})
				ps = append(ps, proposal.NewProposal(uint8(u64(k[0])), uint8(u64(k[1])), executor.BtcTransferProposalData{
					Amount: u64(x[1]), Recipient: rc, DepositNonce: u64(k[2]), ResourceId: res.ResourceID}, "msg", transfer.TransferProposalType))
			}
			mp.calls = 0
			sel, err := e.VerifC16ProposalsForExecution(ps, "msg")
			if err != nil {
				out = append(out, "err|st="+st.dump())
				continue
			}
			idx := []string{}
			for _, p := range sel {
				key := fmt.Sprintf("%d.%d.%d", p.Source, p.Destination, p.Data.DepositNonce)
				found := "?"
				for i, en := range ents {
					if !en.used && en.key == key && en.amt == p.Data.Amount && en.rcp == p.Data.Recipient {
						en.used, found = true, itoa(i)
						break
					}
				}
				idx = append(idx, found)
			}
			txs := "err"
			if len(sel) == 0 {
				txs = "nothing" // Execute returns before building anything
			} else if tx, used, err := e.VerifC16RawTx(sel, res); err == nil {
				txs = strings.ReplaceAll(c16ShowTx(tx, used), "|", "/")
				switch f[0] {
				case "e":
					e.VerifC16StoreProposalsStatus(sel, store.ExecutedProp)
				case "f":
					e.VerifC16StoreProposalsStatus(sel, store.FailedProp)
				}
			}
			out = append(out, "sel="+joinOr(idx, ",")+"|"+txs+"|st="+st.dump())
		}
		return strings.Join(out, "!")
	}
	// withdraw <rate> <cid> <bridge> <msgs> <utxos>   msgs = amountBytesHex,recipient,expectedScript;…
	// every message through the real ERC20MessageHandler (amount / 10^10), the resulting proposals through rawTx
	//   =>  err | in=…|out=…
	ops["C16.withdraw"] = func(a []string) string {
		ps := []*executor.BtcTransferProposal{}
		for i, it := range items(a[3], ";") {
			f := strings.Split(it, ",")
			rc := f[1]
			if rc == "-" {
				rc = ""
			}
			p, err := executor.ERC20MessageHandler(&transfer.TransferMessage{Source: 1, Destination: 2, ID: "id",
				Data: transfer.TransferMessageData{DepositNonce: uint64(100 + i), ResourceId: [32]byte{9}, Type: transfer.FungibleTransfer,
					Payload: []interface{}{unhx(f[0]), []byte(rc)}}})
			if err != nil {
				return "err"
			}
			ps = append(ps, &executor.BtcTransferProposal{Source: p.Source, Destination: p.Destination, Data: p.Data.(executor.BtcTransferProposalData)})
		}
		mp := &c16Mempool{rate: a[0], utxos: c16Utxos(a[4])}
		up := &c16Uploader{cid: string(unhx(a[1]))}
		res := config.Resource{Address: c16Bridge(strings.Split(a[2], ":")[0]), ResourceID: [32]byte{9}, FeeAmount: big.NewInt(0)}
		tx, used, err := c16Exec(mp, up).VerifC16RawTx(ps, res)
		if err != nil {
			return "err"
		}
		return c16ShowTx(tx, used) + c16Uploaded(up, ps)
	}
	// multi <rate> <cid> <steps>    steps = tok:script^props^listing ! …
	// ONE MempoolAPI client and ONE executor serve a sequence of withdrawals for several resources (bridge addresses): before
	// each step the service's listing for that step's address is replaced, the listings of the other addresses stay as
	// they are; the service answers each address with its own listing.  =>  per step (joined by !): err | in=…|out=… (| -> /)
	ops["C16.multi"] = func(a []string) string {
		api := c16Serve(nil, a[0])
		c16Srv.mu.Lock()
		c16Srv.byAddr = map[string][]mempool.Utxo{}
		c16Srv.mu.Unlock()
		up := &c16Uploader{cid: string(unhx(a[1]))}
		e := c16Exec(api, up)
		out := []string{}
		for _, st := range strings.Split(a[2], "!") {
			f := strings.SplitN(st, "^", 3)
			res := config.Resource{Address: c16Bridge(strings.Split(f[0], ":")[0]), ResourceID: [32]byte{9}, FeeAmount: big.NewInt(0)}
			c16Srv.mu.Lock()
			c16Srv.byAddr[res.Address.String()] = c16Utxos(f[2])
			c16Srv.calls, c16Srv.paths = 0, nil
			c16Srv.mu.Unlock()
			ps := c16Props(f[1])
			tx, used, err := e.VerifC16RawTx(ps, res)
			if err != nil {
				out = append(out, "err")
				continue
			}
			c16Srv.mu.Lock()
			paths := append([]string{}, c16Srv.paths...)
			c16Srv.mu.Unlock()
			r := strings.ReplaceAll(c16ShowTx(tx, used)+c16Uploaded(up, ps), "|", "/")
			if len(paths) > 1 || (len(paths) == 1 && paths[0] != "/api/address/"+res.Address.String()+"/utxo") {
				r += "/not-the-bridge-address"
			}
			out = append(out, r)
		}
		return strings.Join(out, "!")
	}
	gens["C16"] = genC16
}

// ---------------------------------------------------------------- generators

// a recipient of a given kind together with the script it must be paid with (computed from the hash, not by decoding)
func c16Recipient(g *G) (string, string) {
	p := &chaincfg.TestNet3Params
	h20, h32 := g.Bytes(20), g.Bytes(32)
	switch g.Intn(12) {
	case 0:
		a, _ := btcutil.NewAddressPubKeyHash(h20, p)
		return a.EncodeAddress(), "76a914" + hex.EncodeToString(h20) + "88ac"
	case 1:
		a, _ := btcutil.NewAddressScriptHashFromHash(h20, p)
		return a.EncodeAddress(), "a914" + hex.EncodeToString(h20) + "87"
	case 2:
		a, _ := btcutil.NewAddressWitnessPubKeyHash(h20, p)
		return a.EncodeAddress(), "0014" + hex.EncodeToString(h20)
	case 3:
		a, _ := btcutil.NewAddressWitnessScriptHash(h32, p)
		return a.EncodeAddress(), "0020" + hex.EncodeToString(h32)
	case 4, 5:
		a, _ := btcutil.NewAddressTaproot(h32, p)
		return a.EncodeAddress(), "5120" + hex.EncodeToString(h32)
	case 6: // bech32 address of another registered network: btcutil.DecodeAddress accepts it (library behaviour) and the
		// executor pays the same witness program on its own network
		a, _ := btcutil.NewAddressWitnessPubKeyHash(h20, &chaincfg.MainNetParams)
		return a.EncodeAddress(), "0014" + hex.EncodeToString(h20)
	case 7:
		a, _ := btcutil.NewAddressPubKeyHash(h20, &chaincfg.MainNetParams)
		return a.EncodeAddress(), "x"
	case 8: // damaged checksum
		a, _ := btcutil.NewAddressTaproot(h32, p)
		s := a.EncodeAddress()
		c := byte('q')
		if s[len(s)-1] == 'q' {
			c = 'p'
		}
		return s[:len(s)-1] + string(c), "x"
	case 9:
		return []string{"-", "0xe9f23A8289764280697a03aC06795eA92a170e42", "tb1", "not_an_address"}[g.Intn(4)], "x"
	default:
		a, _ := btcutil.NewAddressWitnessPubKeyHash(h20, p)
		return a.EncodeAddress(), "0014" + hex.EncodeToString(h20)
	}
}

func c16BridgeArg(tok string) string {
	a := c16Bridge(tok).(*btcutil.AddressTaproot)
	return tok + ":5120" + hex.EncodeToString(a.WitnessProgram())
}

func c16Txid(g *G, pool []string) string {
	if len(pool) > 0 && g.Intn(3) == 0 {
		return pool[g.Intn(len(pool))]
	}
	switch g.Intn(40) {
	case 0:
		return "zz" + hex.EncodeToString(g.Bytes(31))
	case 1:
		return hex.EncodeToString(g.Bytes(33))
	case 2:
		return hex.EncodeToString(g.Bytes(2))
	case 3:
		return strings.ToUpper(hex.EncodeToString(g.Bytes(32)))
	case 4:
		return hex.EncodeToString(g.Bytes(32))[:63]
	}
	return hex.EncodeToString(g.Bytes(32))
}

func c16FeeGo(rate, in, out uint64) uint64 { return (in*180 + out*34) * ((rate/5)*5 + 5) }

func c16Shuffled(g *G, xs []string) []string {
	ys := append([]string{}, xs...)
	for i := len(ys) - 1; i > 0; i-- {
		j := g.Intn(i + 1)
		ys[i], ys[j] = ys[j], ys[i]
	}
	return ys
}

func genC16(g *G) {
	br := c16BridgeArg("a")
	cid := hx([]byte("QmT78zSuBmuS4z925WZfrqQ1qHaJ56DQaTfyMUF7F8ff5o"))
	rcp := func(seed byte) (string, string) {
		h := make([]byte, 20)
		h[0] = seed
		a, _ := btcutil.NewAddressWitnessPubKeyHash(h, &chaincfg.TestNet3Params)
		return a.EncodeAddress(), "0014" + hex.EncodeToString(h)
	}
	r1, s1 := rcp(1)
	r2, s2 := rcp(2)
	tx := func(i int) string { return fmt.Sprintf("%064x", 0xabc000+i) }

	genC16Batches(g, br, cid, rcp)
	genC16Boundaries(g, br, cid, rcp)
	genC16Wide(g, cid, rcp)
	// --- fee formula
	for _, rate := range []uint64{0, 1, 4, 5, 6, 9, 10, 99, 100, 1000, 1 << 32, 1<<64 - 1} {
		for _, io := range [][2]uint64{{0, 0}, {0, 1}, {1, 1}, {1, 2}, {2, 3}, {7, 2}, {1000, 1001}, {1 << 40, 3}} {
			g.Emit("fee", utoa(rate), utoa(io[0]), utoa(io[1]))
		}
	}
	g.Emit("fee", "x", "1", "1")
	for i := 0; i < g.Count(100, 3000); i++ {
		g.Emit("fee", utoa(g.U64()>>uint(g.Intn(64))), utoa(g.U64()>>uint(20+g.Intn(44))), utoa(g.U64()>>uint(20+g.Intn(44))))
	}

	// --- exhaustive small scope around the sufficiency boundary: one or two proposals, 1..3 UTXOs whose total sweeps
	//     [amount-2, amount+fee+2] in single satoshi steps at the edges
	for _, rate := range []uint64{1, 5} {
		for np := 1; np <= 2; np++ {
			props := "10000," + r1 + "," + s1
			amount := uint64(10000)
			if np == 2 {
				props += ";2500," + r2 + "," + s2
				amount = 12500
			}
			for nu := 1; nu <= 3; nu++ {
				fee := c16FeeGo(rate, uint64(nu), uint64(np)+1)
				est := c16FeeGo(rate, uint64(np), uint64(np))
				totals := map[uint64]bool{}
				for d := int64(-2); d <= 2; d++ {
					totals[uint64(int64(amount)+d)] = true
					totals[uint64(int64(amount+fee)+d)] = true
					totals[uint64(int64(amount+est)+d)] = true
					totals[uint64(int64(amount+fee/2)+d)] = true
				}
				for t := range totals {
					_ = t
				}
				keys := []uint64{}
				for t := range totals {
					keys = append(keys, t)
				}
				c16SortU64(keys)
				for _, t := range keys {
					// split t over nu UTXOs: first ones small so that all are needed
					us := []string{}
					rest := t
					for k := 0; k < nu; k++ {
						v := rest
						if k < nu-1 {
							v = uint64(100 * (k + 1))
							if v > rest {
								v = rest
							}
						}
						rest -= v
						us = append(us, fmt.Sprintf("%s,%d,%d,%d", tx(k), k, v, 1000+k))
					}
					g.Emit("rawtx", utoa(rate), cid, br, props, joinOr(us, ";"))
				}
			}
		}
	}
	// --- selection boundary: the running total reaches amount + estimate exactly / one below / one above while more UTXOs follow
	for _, rate := range []uint64{0, 1, 5, 7} {
		for np := 1; np <= 3; np++ {
			ps := []string{}
			amount := uint64(0)
			for k := 0; k < np; k++ {
				r, sc := rcp(byte(k + 1))
				ps = append(ps, utoa(uint64(4000*(k+1)))+","+r+","+sc)
				amount += uint64(4000 * (k + 1))
			}
			est := c16FeeGo(rate, uint64(np), uint64(np))
			for d := int64(-1); d <= 1; d++ {
				tgt := uint64(int64(amount+est) + d)
				for _, first := range []uint64{tgt, tgt / 2} {
					us := []string{fmt.Sprintf("%s,0,%d,1000", tx(1), first)}
					if first != tgt {
						us = append(us, fmt.Sprintf("%s,1,%d,1000", tx(1), tgt-first))
					}
					for _, tail := range []uint64{0, 1, 300, 5000} {
						l := append(append([]string{}, us...), fmt.Sprintf("%s,0,%d,1001", tx(2), tail), fmt.Sprintf("%s,0,%d,1002", tx(3), 7000))
						g.Emit("rawtx", utoa(rate), cid, br, joinOr(ps, ";"), joinOr(l, ";"))
					}
				}
			}
		}
	}
	// --- failure injection and degenerate shapes
	u1 := tx(1) + ",0,50000,1000"
	p1 := "10000," + r1 + "," + s1
	for _, l := range [][5]string{
		{"5", cid, br, p1, u1}, {"x", cid, br, p1, u1}, {"7/x", cid, br, p1, u1}, {"7/50", cid, br, p1, u1}, {"50/7", cid, br, p1, u1}, {"5/40", cid, br, p1, tx(1) + ",0,11300,1000"}, {"5", "x", br, p1, u1}, {"5", cid, br, p1, "x"}, {"5", cid, br, p1, "-"},
		{"5", cid, br, "-", u1}, {"5", cid, br, "-", "-"}, {"5", cid, br, "0," + r1 + "," + s1, "-"}, {"5", cid, br, "0," + r1 + "," + s1, u1},
		{"5", hx([]byte(strings.Repeat("c", 71))), br, p1, u1}, {"5", hx([]byte(strings.Repeat("c", 72))), br, p1, u1},
		{"5", hx([]byte(strings.Repeat("c", 76))), br, p1, u1}, {"5", hx([]byte(strings.Repeat("c", 77))), br, p1, u1}, {"5", "-", br, p1, u1},
		{"5", cid, br, "9223372036854775807," + r1 + "," + s1, u1}, {"5", cid, br, "9223372036854775808," + r1 + "," + s1, u1},
		{"5", cid, br, "18446744073709551615," + r1 + "," + s1 + ";2," + r2 + "," + s2, u1},
		{"5", cid, br, p1, tx(1) + ",0,18446744073709551615,1000;" + tx(2) + ",0,10000,1001"},
		{"18446744073709551615", cid, br, p1, u1}, {"3689348814741910323", cid, br, p1, u1},
	} {
		g.Emit("rawtx", l[0], l[1], l[2], l[3], l[4])
	}
	// --- random structured: rawtx on a scripted (already ordered) list, build + utxos through the real MempoolAPI
	for i := 0; i < g.Count(2500, 60000); i++ {
		rate := []uint64{0, 1, 4, 5, 7, 12, 50, 300}[g.Intn(8)]
		np := 1 + g.Intn(4)
		if g.Intn(30) == 0 {
			np = 0
		}
		ps := []string{}
		amount := uint64(0)
		for k := 0; k < np; k++ {
			a := []uint64{0, 1, 546, 10000, uint64(g.Intn(100000)), g.U64() % 2100000000000000}[g.Intn(6)]
			rc, sc := c16Recipient(g)
			if sc == "x" && g.Intn(3) != 0 { // keep most lists valid
				rc, sc = rcp(byte(k))
			}
			amount += a
			ps = append(ps, utoa(a)+","+rc+","+sc)
		}
		// UTXO set: total aimed at a band around amount .. amount + fee(+), spread over nu UTXOs
		nu := 1 + g.Intn(6)
		fee := c16FeeGo(rate, uint64(nu), uint64(np)+1)
		var total uint64
		switch g.Intn(6) {
		case 0:
			total = amount + uint64(g.Intn(int(fee)+2))
		case 1:
			total = amount + fee + uint64(g.Intn(5)) - 2
		case 2:
			if amount > 0 {
				total = amount - uint64(g.Intn(int(minU(amount, 3))+1))
			}
		case 3:
			total = amount + fee + uint64(g.Intn(100000))
			if g.Intn(3) == 0 && fee > 0 { // a nearly empty bridge: amount <= total < fee
				amount0 := amount
				if amount0 >= fee {
					amount0 = fee - 1
				}
				total = amount0 + uint64(g.Intn(int(fee-amount0)))
			}
		default:
			total = amount + fee*uint64(1+g.Intn(3)) + g.U64()%1000000
		}
		if total > 1<<62 {
			total = 1 << 62
		}
		us := []string{}
		pool := []string{}
		rest := total
		unconf := []int{0, 0, 4, 2, 1}[g.Intn(5)] // 0 = all confirmed; n = each UTXO unconfirmed with probability 1/n
		for k := 0; k < nu; k++ {
			v := rest
			if k < nu-1 {
				v = g.U64() % (rest/uint64(nu-k) + 1)
				if g.Intn(4) == 0 {
					v = uint64(g.Intn(3))
				}
			}
			rest -= v
			id := c16Txid(g, pool)
			pool = append(pool, id)
			bt := 1000 + uint64(g.Intn(3))
			u := fmt.Sprintf("%s,%d,%d,%d", id, g.Intn(3), v, bt)
			if unconf > 0 && g.Intn(unconf) == 0 { // still in the mempool: no block time, confirmed=false
				u = fmt.Sprintf("%s,%d,%d,0,u", id, g.Intn(3), v)
			}
			us = append(us, u)
		}
		if g.Intn(3) == 0 { // spare UTXOs beyond the aimed total
			for k := 0; k < 1+g.Intn(3); k++ {
				us = append(us, fmt.Sprintf("%s,%d,%d,%d", c16Txid(g, pool), g.Intn(3), g.U64()%200000, 1000+uint64(g.Intn(3))))
			}
		}
		c := cid
		if g.Intn(40) == 0 {
			c = "x"
		}
		rs := utoa(rate)
		switch g.Intn(25) {
		case 0:
			rs += "/" + utoa(rate+uint64(g.Intn(11)))
		case 1:
			rs = utoa(rate+uint64(g.Intn(11))) + "/" + utoa(rate)
		case 2:
			rs = []string{"x", rs + "/x"}[g.Intn(2)]
		}
		g.Emit("rawtx", rs, c, br, joinOr(ps, ";"), joinOr(us, ";"))
		if i%4 == 0 {
			// the same set in two listing orders through the real MempoolAPI (duplicates of one outpoint removed: a UTXO set has none)
			seen := map[string]bool{}
			set := []string{}
			for _, u := range us {
				f := strings.Split(u, ",")
				if !seen[f[0]+":"+f[1]] {
					seen[f[0]+":"+f[1]] = true
					set = append(set, u)
				}
			}
			l1, l2 := c16Shuffled(g, set), c16Shuffled(g, set)
			g.Emit("build", rs, c, br, joinOr(ps, ";"), joinOr(l1, ";"))
			g.Emit("build", rs, c, br, joinOr(ps, ";"), joinOr(l2, ";"))
			g.Emit("utxos", joinOr(l1, ";"))
			g.Emit("utxos", joinOr(l2, ";"))
			g.Emit("utxoperm", joinOr(l1, ";"), joinOr(l2, ";"))
			g.Emit("buildperm", rs, c, br, joinOr(ps, ";"), joinOr(l1, ";"), joinOr(l2, ";"))
		}
	}
	// --- a nearly empty bridge: amount <= total of ALL UTXOs < fee (an unsigned `inputs - fee` would wrap here)
	for _, rate := range []uint64{1, 5} {
		for np := 1; np <= 2; np++ {
			props := "100," + r1 + "," + s1
			amount := uint64(100)
			if np == 2 {
				props = "300," + r1 + "," + s1 + ";200," + r2 + "," + s2
				amount = 500
			}
			for nu := 1; nu <= 2; nu++ {
				fee := c16FeeGo(rate, uint64(nu), uint64(np)+1)
				for _, t := range []uint64{amount, amount + 1, amount + 250, (amount + fee) / 2, fee - 1, fee, fee + 1, amount + fee - 1, amount + fee} {
					us := []string{fmt.Sprintf("%s,0,%d,1000", tx(1), t)}
					if nu == 2 {
						us = []string{fmt.Sprintf("%s,0,%d,1000", tx(1), t/2+50), fmt.Sprintf("%s,1,%d,1000", tx(1), t-t/2-50)}
					}
					g.Emit("rawtx", utoa(rate), cid, br, props, joinOr(us, ";"))
				}
			}
		}
	}
	// --- zero-amount proposals (dust deposits scale down to 0): still one output each, still a valid recipient required
	big1 := tx(1) + ",0,90000,1000"
	for _, ps := range []string{
		"2500," + r1 + "," + s1 + ";0," + r2 + "," + s2 + ";300," + r1 + "," + s1,
		"0," + r1 + "," + s1,
		"0," + r1 + "," + s1 + ";0," + r2 + "," + s2,
		"0," + r2 + "," + s2 + ";2500," + r1 + "," + s1,
		"100," + r1 + "," + s1 + ";0,not_an_address,x",
		"0,not_an_address,x",
		"0,-,x;100," + r1 + "," + s1,
		"0,tb1qqqqqqqqqqqqqqqqqqqqqqqqqqqqqqqqqqqqqqq,x;2500," + r1 + "," + s1,
	} {
		g.Emit("rawtx", "1", cid, br, ps, big1)
		g.Emit("rawtx", "1", cid, br, ps, tx(1)+",0,900,1000;"+tx(2)+",0,90000,1001")
		g.Emit("build", "1", cid, br, ps, big1)
	}
	// --- unconfirmed outputs (confirmed=false, no block time): several at once, mixed with confirmed ones, every listing order.
	//     Same set in any order => same list (utxos, utxoperm) and same transaction (buildperm; the 9000-sat proposal needs 2-3 inputs).
	ucSets := [][]string{
		{tx(5) + ",0,4000,0,u", tx(4) + ",1,4100,0,u"},
		{tx(5) + ",0,4000,0,u", tx(4) + ",1,4100,0,u", tx(4) + ",0,4200,0,u"},
		{tx(5) + ",1,4000,0,u", tx(5) + ",0,4100,0,u", tx(3) + ",0,4300,1000"},
		{tx(5) + ",0,4000,0,u", tx(4) + ",1,4100,0,u", tx(3) + ",0,4300,1000", tx(2) + ",0,4400,1000"},
		{tx(5) + ",0,4000,0,u", tx(4) + ",1,4100,0,u", tx(4) + ",0,4200,0,u", tx(3) + ",0,4300,1001"},
		{tx(5) + ",0,4000,1000,u", tx(4) + ",0,4100,1000,u", tx(3) + ",0,4300,1000"}, // unconfirmed although a block time is present
	}
	pu := "9000," + r1 + "," + s1
	for _, set := range ucSets {
		first := append([]string{}, set...)
		c16Permute(set, func(p []string) {
			g.Emit("utxos", joinOr(p, ";"))
			g.Emit("utxoperm", joinOr(first, ";"), joinOr(p, ";"))
			g.Emit("buildperm", "1", cid, br, pu, joinOr(first, ";"), joinOr(p, ";"))
		})
	}
	// larger sets (sort.Slice leaves insertion sort above 12 elements): 14 unconfirmed + 4 confirmed, shuffled
	for i := 0; i < g.Count(6, 60); i++ {
		set := []string{}
		for k := 0; k < 14; k++ {
			set = append(set, fmt.Sprintf("%s,%d,%d,0,u", tx(20+k/2), k%2, 1000+k))
		}
		for k := 0; k < 4; k++ {
			set = append(set, fmt.Sprintf("%s,0,%d,%d", tx(40+k), 2000+k, 1000+k%2))
		}
		l1, l2 := c16Shuffled(g, set), c16Shuffled(g, set)
		g.Emit("utxos", joinOr(l1, ";"))
		g.Emit("utxoperm", joinOr(l1, ";"), joinOr(l2, ";"))
		g.Emit("buildperm", "1", cid, br, pu, joinOr(l1, ";"), joinOr(l2, ";"))
	}
	// --- sort: every permutation of small sets with ties on block time, txid, and both
	base := [][]string{
		{tx(1) + ",0,10,1000", tx(1) + ",1,20,1000", tx(1) + ",2,30,1000"},
		{tx(2) + ",1,10,1000", tx(1) + ",1,20,1000", tx(1) + ",0,30,1001", tx(3) + ",0,5,999"},
		{tx(1) + ",4294967295,10,1000", tx(1) + ",0,20,1000", "00" + tx(1)[2:] + ",7,1,1000", strings.ToUpper(tx(1)) + ",1,1,1000"},
	}
	for _, b := range base {
		c16Permute(b, func(p []string) { g.Emit("utxos", joinOr(p, ";")) })
	}
	// --- message handler: amount bytes / 10^10, recipient passed through
	for _, v := range []string{"-", "00", "01", "02540be3ff", "02540be400", "02540be401", "06fc23ac00", "ffffffffffffffffffffffff", hx(new(big.Int).Mul(big.NewInt(2100000000000000), big.NewInt(10000000000)).Bytes())} {
		g.Emit("msg", v, hx([]byte(r1)))
	}
	for i := 0; i < g.Count(200, 5000); i++ {
		var amt *big.Int
		if g.Bool() {
			amt = new(big.Int).Mul(new(big.Int).SetUint64(c15Sats(g)), big.NewInt(10000000000))
			amt.Add(amt, big.NewInt(int64(g.Intn(3))))
		} else {
			amt = new(big.Int).SetBytes(g.Bytes(g.Intn(14)))
		}
		g.Emit("msg", hx(amt.Bytes()), hx(g.Bytes(g.Intn(40))))
	}
}

// batches through ONE executor + ONE store: duplicates of a deposit inside a batch, across batches, after each recorded outcome,
// with store faults
func genC16Batches(g *G, br, cid string, rcp func(byte) (string, string)) {
	r1, s1 := rcp(1)
	r2, s2 := rcp(2)
	P := func(key string, amt uint64, which int) string {
		if which == 2 {
			return key + "," + utoa(amt) + "," + r2 + "," + s2
		}
		return key + "," + utoa(amt) + "," + r1 + "," + s1
	}
	big := fmt.Sprintf("%064x,0,900000,1000;%064x,1,800000,1001", 0xabc001, 0xabc001)
	a, b, c := P("1.2.7", 1000, 1), P("1.2.8", 500, 2), P("3.2.7", 700, 1)
	for _, bs := range []string{
		"n^" + a, "n^" + a + ";" + a, "n^" + a + ";" + b + ";" + a, "n^" + a + ";" + a + ";" + a + ";" + b + ";" + b,
		"n^" + a + ";" + P("1.2.7", 999, 2),          // same deposit, different content (original and its retry)
		"n^" + a + ";" + c,                            // same nonce, other source domain: a different deposit
		"e^" + a + ";" + b + "!n^" + a + ";" + b + ";" + c, // executed is final
		"f^" + a + ";" + a + "!n^" + a + ";" + a,           // failed may be retried, once
		"n^" + a + "!n^" + a + ";" + b,                     // still pending from the previous batch
		"e^" + a + "!e^" + b + "!e^" + a + ";" + b + ";" + c + ";" + c,
	} {
		for _, st := range []string{"-", "1.2.8=e", "1.2.7=f", "1.2.7=p;1.2.8=m", "1.2.8=x", "3.2.7=w", "1.2.7=w"} {
			g.Emit("batch", "1", cid, br, st, big, bs)
		}
	}
	for i := 0; i < g.Count(600, 15000); i++ {
		keys := []string{"1.2.7", "1.2.8", "1.2.9", "3.2.7", "1.4.7"}
		st := []string{}
		for _, k := range keys {
			if g.Intn(3) == 0 {
				v := []string{"m", "f", "p", "e", "e", "f"}[g.Intn(6)]
				if g.Intn(25) == 0 {
					v = []string{"x", "w"}[g.Intn(2)]
				}
				st = append(st, k+"="+v)
			}
		}
		nb := 1 + g.Intn(3)
		bs := []string{}
		for j := 0; j < nb; j++ {
			n := 1 + g.Intn(5)
			ps := []string{}
			for k := 0; k < n; k++ {
				key := keys[g.Intn(len(keys))]
				if len(ps) > 0 && g.Intn(3) == 0 { // a copy of something already in this batch
					ps = append(ps, ps[g.Intn(len(ps))])
					continue
				}
				amt := []uint64{0, 546, 1000, uint64(g.Intn(50000))}[g.Intn(4)]
				pr := P(key, amt, 1+g.Intn(2))
				if g.Intn(30) == 0 {
					pr = key + "," + utoa(amt) + ",not_an_address,x"
				}
				ps = append(ps, pr)
			}
			bs = append(bs, []string{"n", "e", "e", "f"}[g.Intn(4)]+"^"+joinOr(ps, ";"))
		}
		ut := big
		if g.Intn(8) == 0 {
			ut = fmt.Sprintf("%064x,0,%d,1000", 0xabc001, 500+g.Intn(3000))
		}
		g.Emit("batch", []string{"1", "5", "7/9"}[g.Intn(3)], cid, br, joinOr(st, ";"), ut, strings.Join(bs, "!"))
	}
}

// amounts and fee quotes at the boundaries of the integer types: int64 / uint64 limits, the bitcoin supply, batch totals that
// wrap, and fee rates that make amount + fee wrap — with UTXO sets that cannot pay such amounts
func genC16Boundaries(g *G, br, cid string, rcp func(byte) (string, string)) {
	r1, s1 := rcp(1)
	r2, s2 := rcp(2)
	const maxU = ^uint64(0)
	const maxSat = uint64(2100000000000000)
	tx := func(i int) string { return fmt.Sprintf("%064x", 0xabc000+i) }
	amounts := []uint64{maxSat - 1, maxSat, maxSat + 1, 1<<62 - 1, 1 << 62, 1<<63 - 1, 1 << 63, 1<<63 + 1,
		maxU, maxU - 1, maxU - 500, maxU - 1239, maxU - 1240, maxU - 1241, maxU - 2479, maxU - 2480, maxU - 5000, maxU - 50000, maxU - 50001}
	utxoSets := []string{
		tx(1) + ",0,50000,1000",
		tx(1) + ",0,600,1000;" + tx(2) + ",0,700,1001;" + tx(3) + ",0,48700,1002",
		tx(1) + ",0,2099999999990000,1000;" + tx(2) + ",0,100000,1001",
		"-",
	}
	scale := new(big.Int).Exp(big.NewInt(10), big.NewInt(10), nil)
	pay := func(v uint64, d int64) string { // payload bytes of v*10^10 + d units
		x := new(big.Int).Mul(new(big.Int).SetUint64(v), scale)
		x.Add(x, big.NewInt(d))
		return hx(x.Bytes())
	}
	for _, us := range utxoSets {
		for _, a := range amounts {
			for _, rate := range []string{"1", "5"} {
				g.Emit("rawtx", rate, cid, br, utoa(a)+","+r1+","+s1, us)
			}
			g.Emit("withdraw", "1", cid, br, pay(a, 0)+","+r1+","+s1, us)
			g.Emit("withdraw", "1", cid, br, pay(a, 9999999999)+","+r1+","+s1, us)
		}
		// batch totals: wrap to a small number, wrap to exactly 0, land just above / at the supply, stay below it
		for _, pr := range [][2]uint64{{maxU, 2}, {maxU, 1}, {1 << 63, 1 << 63}, {1 << 63, 1<<63 + 40000}, {maxU - 1000, 900}, {maxU - 1000, 1001},
			{maxSat, 1}, {maxSat - 1, 1}, {maxSat - 1, 2}, {maxSat / 2, maxSat/2 + 1}, {maxSat / 2, maxSat / 2}, {1, maxSat}, {0, maxSat + 1}, {0, maxU}} {
			ps := utoa(pr[0]) + "," + r1 + "," + s1 + ";" + utoa(pr[1]) + "," + r2 + "," + s2
			g.Emit("rawtx", "1", cid, br, ps, us)
			g.Emit("withdraw", "1", cid, br, pay(pr[0], 0)+","+r1+","+s1+";"+pay(pr[1], 0)+","+r2+","+s2, us)
		}
		// what does not fit 64 bits must not be paid as its low 64 bits
		for _, d := range []int64{0, 1, 5000 * 10000000000, 10000 * 10000000000} {
			x := new(big.Int).Lsh(big.NewInt(1), 64)
			x.Mul(x, scale)
			x.Add(x, big.NewInt(d))
			g.Emit("withdraw", "1", cid, br, hx(x.Bytes())+","+r1+","+s1, us)
			g.Emit("msg", hx(x.Bytes()), hx([]byte(r1)))
		}
	}
	// fee quotes whose product lands just below 2^64, so that amount + fee wraps while the UTXOs hold less than the amount
	for _, shape := range [][2]uint64{{1, 2}, {2, 2}, {1, 3}, {3, 2}} {
		size := shape[0]*180 + shape[1]*34
		r0 := maxU / size
		for j := uint64(0); j < 12; j++ {
			rr := r0 - j
			if rr%5 != 0 {
				continue
			}
			below := -(size * rr) // 2^64 - fee
			for _, extra := range []uint64{1, 1000, 40000} {
				amount := below + extra
				np := int(shape[1]) - 1
				ps := []string{}
				rest := amount
				for k := 0; k < np; k++ {
					v := rest
					if k < np-1 {
						v = rest / 3
					}
					rest -= v
					r, sc := rcp(byte(k + 1))
					ps = append(ps, utoa(v)+","+r+","+sc)
				}
				for _, total := range []uint64{extra, extra + 1, amount - 1, amount - amount/2, amount, amount + 1} {
					us := []string{}
					left := total
					for k := uint64(0); k < shape[0]; k++ {
						v := left
						if k < shape[0]-1 {
							v = left / 2
						}
						left -= v
						us = append(us, fmt.Sprintf("%s,%d,%d,%d", tx(int(k)), k, v, 1000+k))
					}
					g.Emit("rawtx", utoa(rr-5), cid, br, joinOr(ps, ";"), joinOr(us, ";"))
					g.Emit("rawtx", "1/"+utoa(rr-5), cid, br, joinOr(ps, ";"), joinOr(us, ";"))
				}
			}
		}
	}
	// random: amounts drawn from the boundary set, UTXOs that cannot pay them
	for i := 0; i < g.Count(300, 8000); i++ {
		n := 1 + g.Intn(3)
		ps, ms := []string{}, []string{}
		for k := 0; k < n; k++ {
			a := amounts[g.Intn(len(amounts))]
			switch g.Intn(4) {
			case 0:
				a = uint64(g.Intn(100000))
			case 1:
				a -= uint64(g.Intn(3000))
			}
			r, sc := rcp(byte(k + 1))
			ps = append(ps, utoa(a)+","+r+","+sc)
			ms = append(ms, pay(a, int64(g.Intn(3)))+","+r+","+sc)
		}
		us := utxoSets[g.Intn(len(utxoSets))]
		if g.Intn(3) == 0 {
			us = fmt.Sprintf("%s,0,%d,1000;%s,1,%d,1000", tx(1), g.Intn(100000), tx(1), g.U64()%maxSat)
		}
		rate := []string{"0", "1", "5", "7/9", "1000000"}[g.Intn(5)]
		g.Emit("rawtx", rate, cid, br, joinOr(ps, ";"), us)
		g.Emit("withdraw", rate, cid, br, joinOr(ms, ";"), us)
	}
}

// several resources on one client (multi), and UTXO sets larger than anything a small deployment holds, listed in two orders
func genC16Wide(g *G, cid string, rcp func(byte) (string, string)) {
	r1, s1 := rcp(1)
	r2, s2 := rcp(2)
	tx := func(i int) string { return fmt.Sprintf("%064x", 0xabc000+i) }
	brA, brB, brC := c16BridgeArg("a"), c16BridgeArg("b"), c16BridgeArg("c")
	pa, pb := "10000,"+r1+","+s1, "7000,"+r2+","+s2
	la := tx(1) + ",0,30000,1000;" + tx(1) + ",1,20000,1000"
	lb := tx(2) + ",0,25000,1001;" + tx(3) + ",0,9000,999"
	lc := tx(4) + ",2,50000,1002"
	step := func(br, ps, l string) string { return br + "^" + ps + "^" + l }
	for _, seq := range [][]string{
		{step(brA, pa, la)},
		{step(brA, pa, la), step(brB, pb, lb)},
		{step(brB, pb, lb), step(brA, pa, la)},
		{step(brA, pa, la), step(brB, pb, lb), step(brA, pb, la), step(brC, pa, lc), step(brB, pa, lb)},
		{step(brA, pa, la), step(brA, pa, lb)},                     // the same address, its UTXO set has changed in between
		{step(brA, pa, la), step(brA, pa, "-"), step(brA, pa, la)}, // … emptied, then refilled
		{step(brA, pa, "-"), step(brB, pb, lb)},
		{step(brA, pa, la), step(brB, pb, "-")},
	} {
		g.Emit("multi", "1", cid, strings.Join(seq, "!"))
	}
	for i := 0; i < g.Count(150, 4000); i++ {
		n := 2 + g.Intn(4)
		steps := []string{}
		for k := 0; k < n; k++ {
			br := []string{brA, brB, brC}[g.Intn(3)]
			r, sc := rcp(byte(1 + g.Intn(3)))
			ps := utoa(uint64(500+g.Intn(20000))) + "," + r + "," + sc
			if g.Intn(4) == 0 {
				ps += ";" + utoa(uint64(g.Intn(3000))) + "," + r2 + "," + s2
			}
			us := []string{}
			for j := 0; j < g.Intn(5); j++ {
				u := fmt.Sprintf("%s,%d,%d,%d", tx(10+g.Intn(30)), g.Intn(3), 200+g.Intn(40000), 1000+g.Intn(3))
				if g.Intn(6) == 0 {
					u = fmt.Sprintf("%s,%d,%d,0,u", tx(10+g.Intn(30)), g.Intn(3), 200+g.Intn(40000))
				}
				us = append(us, u)
			}
			seen := map[string]bool{}
			set := []string{}
			for _, u := range us {
				f := strings.Split(u, ",")
				if !seen[f[0]+":"+f[1]] {
					seen[f[0]+":"+f[1]] = true
					set = append(set, u)
				}
			}
			steps = append(steps, step(br, ps, joinOr(set, ";")))
		}
		g.Emit("multi", []string{"1", "5", "7/9"}[g.Intn(3)], cid, strings.Join(steps, "!"))
	}
	// large UTXO sets (hundreds to a thousand outputs; 400 and 500 are round numbers a limit might sit at), two listing orders
	sizes := []int{399, 400, 401, 450, 501, 640}
	if g.Thorough() {
		sizes = append(sizes, 1000, 1001, 1500, 2048)
	}
	for _, n := range sizes {
		for rep := 0; rep < g.Count(1, 3); rep++ {
			set := []string{}
			for k := 0; k < n; k++ {
				u := fmt.Sprintf("%s,%d,%d,%d", tx(1000+k/2), k%2, 1000+g.Intn(5000), 1000+g.Intn(50))
				if g.Intn(40) == 0 {
					u = fmt.Sprintf("%s,%d,%d,0,u", tx(1000+k/2), k%2, 1000+g.Intn(5000))
				}
				set = append(set, u)
			}
			l1, l2 := c16Shuffled(g, set), c16Shuffled(g, set)
			g.Emit("utxoperm", joinOr(l1, ";"), joinOr(l2, ";"))
			g.Emit("buildperm", "1", cid, brA, "9000,"+r1+","+s1, joinOr(l1, ";"), joinOr(l2, ";"))
			if rep == 0 {
				g.Emit("utxos", joinOr(l1, ";"))
				// a withdrawal that needs most of the set as inputs
				g.Emit("buildperm", "1", cid, brA, utoa(uint64(n)*1200)+","+r1+","+s1, joinOr(l2, ";"), joinOr(l1, ";"))
			}
		}
	}
}

func c16SortU64(xs []uint64) {
	for i := 1; i < len(xs); i++ {
		for j := i; j > 0 && xs[j] < xs[j-1]; j-- {
			xs[j], xs[j-1] = xs[j-1], xs[j]
		}
	}
}

func c16Permute(xs []string, f func([]string)) {
	var rec func(k int)
	ys := append([]string{}, xs...)
	rec = func(k int) {
		if k == len(ys) {
			f(append([]string{}, ys...))
			return
		}
		for i := k; i < len(ys); i++ {
			ys[k], ys[i] = ys[i], ys[k]
			rec(k + 1)
			ys[k], ys[i] = ys[i], ys[k]
		}
	}
	rec(0)
}
