package main

// C12 — session subscription manager, subscription ids, inbound fan-out.
//
// Ops (strings travel as lowercase hex of their bytes, "-" = empty):
//   C12 unwrap <idHex>            => ok:<sess>:<type>:<sub>|<sess>:<type>:<sub>   or  err|<sess>:<type>:<sub>
//                                    (Unwrap result | the three accessor methods)
//   C12 newid <sessHex> <type>    => <idHex>|<unwrap part as above>
//   C12 run <op;op;…>             => <res;res;…>|<retained entries>
//        s:<sess>:<type>            subscribe a fresh channel (its number = how many s-ops came before); res = returned id (hex)
//        u:<k>                      UnSubscribe(id returned by the k-th s-op); res = .
//        y:<k>:<variant>            UnSubscribe(a re-spelling of that id, see respell); res = .
//        x:<idHex>                  UnSubscribe(arbitrary string); res = .
//        d:<sess>:<type>            GetSubscribers; res = channel numbers, ascending (`!` appended if a slice returned by an
//                                   EARLIER look-up of this history no longer holds what it held)
//        m:<sess>:<type>[:<size>][+…] one inbound stream carrying these messages (payload of <size> bytes) through the
//                                   real ProcessMessagesFromStream; res = per message the channel numbers that received it
//                                   intact (`!` appended if any payload / session / type / sender arrived altered)
//        o                          open an inbound stream that STAYS open (its number = how many o-ops came before); res = .
//        w:<k>:<sess>:<type>[:<size>] one more message on open stream k, processed by the real ProcessMessagesFromStream
//                                   loop of that stream; res = the channel numbers that received it
//        q:<k>                      end of stream k; res = .
//        c:<sess>                   CloseSession(sess) on the real Libp2pCommunication (an outbound stream of the session
//                                   is registered first so that there is something to release); res = .
//      retained entries: <sess>:<type>:<chan> for every channel still stored anywhere in the manager after the last op
//      (found by reflection; session / type are those the channel was subscribed under), sorted.

import (
	"bytes"
	"encoding/json"
	"io"
	"reflect"
	"runtime"
	"sort"
	"strconv"
	"strings"
	"sync"
	"time"

	"github.com/ChainSafe/sygma-relayer/comm"
	"github.com/ChainSafe/sygma-relayer/comm/p2p"
	"github.com/libp2p/go-libp2p/core/network"
	"github.com/libp2p/go-libp2p/core/peer"
)

type c12Conn struct {
	network.Conn
	remote peer.ID
}

func (c *c12Conn) RemotePeer() peer.ID { return c.remote }

type c12Stream struct {
	network.Stream
	r    io.Reader
	conn *c12Conn
}

func (s *c12Stream) Read(p []byte) (int, error) { return s.r.Read(p) }
func (s *c12Stream) Conn() network.Conn         { return s.conn }
func (s *c12Stream) Close() error               { return nil }

const c12Remote = peer.ID("verif-remote-peer")

// c12Live is an inbound stream that stays open: lines are fed one at a time; every time the handler comes back for more
// data and finds none it signals `idle` — i.e. it has finished dispatching everything it was given.
type c12Live struct {
	network.Stream
	mu     sync.Mutex
	cond   *sync.Cond
	queue  []byte
	closed bool
	idle   chan struct{}
	done   chan struct{}
	conn   *c12Conn
}

func newC12Live() *c12Live {
	l := &c12Live{idle: make(chan struct{}, 1024), done: make(chan struct{}), conn: &c12Conn{remote: c12Remote}}
	l.cond = sync.NewCond(&l.mu)
	return l
}

func (l *c12Live) Read(p []byte) (int, error) {
	l.mu.Lock()
	defer l.mu.Unlock()
	for len(l.queue) == 0 && !l.closed {
		select {
		case l.idle <- struct{}{}:
		default:
		}
		l.cond.Wait()
	}
	if len(l.queue) == 0 {
		return 0, io.EOF
	}
	n := copy(p, l.queue)
	l.queue = l.queue[n:]
	return n, nil
}
func (l *c12Live) Conn() network.Conn { return l.conn }
func (l *c12Live) Close() error       { return nil }

func (l *c12Live) feed(b []byte) {
	l.mu.Lock()
	for len(l.idle) > 0 { // forget idle signals of the past
		<-l.idle
	}
	l.queue = append(l.queue, b...)
	l.mu.Unlock()
	l.cond.Broadcast()
}

func (l *c12Live) shut() {
	l.mu.Lock()
	l.closed = true
	l.mu.Unlock()
	l.cond.Broadcast()
}

// waitIdle: the handler asked for more input (it is done with what it had); false on timeout.
func (l *c12Live) waitIdle() bool {
	select {
	case <-l.idle:
		return true
	case <-l.done:
		return true
	case <-time.After(10 * time.Second):
		return false
	}
}

func c12Unwrap(id comm.SubscriptionID) string {
	res := "err"
	s, t, k, err := id.Unwrap()
	if err == nil {
		res = "ok:" + hx([]byte(s)) + ":" + itoa(int(t)) + ":" + hx([]byte(k))
	}
	return res + "|" + hx([]byte(id.SessionID())) + ":" + itoa(int(id.MessageType())) + ":" + hx([]byte(id.SubscriptionIdentifier()))
}

// c12Pending reports whether a goroutine started inside the repository's comm/p2p package is still alive
// (the fan-out goroutines of ProcessMessagesFromStream). Deterministic: it inspects goroutine stacks, not clocks.
// the import path of the package under test, taken from the type itself (no literal path, no function name)
var c12PkgPrefix = reflect.TypeOf(p2p.Libp2pCommunication{}).PkgPath() + "."

func c12Pending() bool {
	buf := make([]byte, 1<<16)
	for {
		n := runtime.Stack(buf, true)
		if n < len(buf) {
			buf = buf[:n]
			break
		}
		buf = make([]byte, 2*len(buf))
	}
	// a goroutine of the package under test that is not a stream handler parked in our Read = a fan-out still running
	for _, blk := range bytes.Split(buf, []byte("\n\n")) {
		if bytes.Contains(blk, []byte(c12PkgPrefix)) && !bytes.Contains(blk, []byte("c12Live).Read")) {
			return true
		}
	}
	return false
}

// respell builds a subscription id that differs textually from the one issued for (sess, typ, suffix).
func respell(sess string, typ int, suffix string, variant string) string {
	t := strconv.Itoa(typ)
	switch variant {
	case "0":
		return sess + "-+" + t + "-" + suffix // ParseInt accepts a sign
	case "1":
		return sess + "-0" + t + "-" + suffix // and leading zeros
	case "2":
		return sess + "-" + t + "-0" + suffix // different key
	case "3":
		return "x" + sess + "-" + t + "-" + suffix // different session
	case "4":
		return sess + "-" + t + "-" + suffix + "-" // trailing separator
	case "5":
		return sess + "-" + t + suffix // separator dropped
	}
	return sess + "-" + t + "-" + suffix
}

// c12Payload: message j of a stream, padded to `size` bytes with a position-dependent pattern.
func c12Payload(j, size int) []byte {
	b := []byte(strconv.Itoa(j) + "|")
	for i := len(b); i < size; i++ {
		b = append(b, byte(33+(i*7+j*13)%90))
	}
	return b
}

func c12MsgSize(g []string) int {
	if len(g) >= 3 {
		return int(u64(g[2]))
	}
	return 0
}

func c12Run(spec string) string {
	c := p2p.VerifNewCommunication()
	type subRec struct {
		sess string
		typ  int
		id   comm.SubscriptionID
		ch   chan *comm.WrappedMessage
	}
	subs := []subRec{}
	chanNo := map[chan *comm.WrappedMessage]int{}
	res := []string{}
	suffixOf := func(r subRec) string {
		pre := r.sess + "-" + strconv.Itoa(r.typ) + "-"
		return strings.TrimPrefix(string(r.id), pre)
	}
	type lookup struct {
		got  []chan *comm.WrappedMessage // the slice GetSubscribers returned (kept, not copied)
		want []chan *comm.WrappedMessage // its contents at that moment
	}
	lookups := []lookup{}
	lives := []*c12Live{}
	defer func() {
		for _, l := range lives {
			l.shut()
		}
	}()
	wseq := 0
	// collect what subscribers received for the message whose payload starts with `marker`
	collect := func(marker string, sess string, typ int, size int) (string, bool) {
		deadline := time.Now().Add(10 * time.Second)
		for c12Pending() {
			if time.Now().After(deadline) {
				return "hang", false
			}
			time.Sleep(20 * time.Microsecond)
		}
		got := []int{}
		bad := false
		want := append([]byte(marker), c12Payload(0, size)[2:]...)
		if size < len(marker) {
			want = []byte(marker)
		}
		for _, r := range subs {
		drain:
			for {
				select {
				case w := <-r.ch:
					if !bytes.Equal(w.Payload, want) || w.SessionID != sess || int(w.MessageType) != typ || w.From != c12Remote {
						bad = true
					}
					got = append(got, chanNo[r.ch])
				default:
					break drain
				}
			}
		}
		sort.Ints(got)
		out := intsJoin(got)
		if bad {
			out += "!"
		}
		return out, true
	}
	for _, op := range items(spec, ";") {
		f := strings.Split(op, ":")
		switch f[0] {
		case "o": // open an inbound stream that stays open
			l := newC12Live()
			lives = append(lives, l)
			go func() {
				defer close(l.done)
				c.ProcessMessagesFromStream(l)
			}()
			if !l.waitIdle() {
				return "hang"
			}
			res = append(res, ".")
		case "w": // w:<stream>:<sess>:<type>[:<size>] one more message on an open stream; wait until it is dispatched
			k := int(u64(f[1]))
			sess, typ, size := string(unhx(f[2])), int(u64(f[3])), 0
			if len(f) >= 5 {
				size = int(u64(f[4]))
			}
			if k >= len(lives) {
				res = append(res, "-")
				break
			}
			wseq++
			marker := "w" + strconv.Itoa(wseq) + "|"
			payload := append([]byte(marker), c12Payload(0, size)[2:]...)
			if size < len(marker) {
				payload = []byte(marker)
			}
			b, err := json.Marshal(comm.WrappedMessage{MessageType: comm.MessageType(typ), SessionID: sess, Payload: payload, From: peer.ID("spoofed")})
			if err != nil {
				panic(err)
			}
			lives[k].feed(append(b, '\n'))
			if !lives[k].waitIdle() {
				return "hang"
			}
			out, ok := collect(marker, sess, typ, size)
			if !ok {
				return "hang"
			}
			res = append(res, out)
		case "q": // q:<stream> end of an open stream
			k := int(u64(f[1]))
			if k < len(lives) {
				lives[k].shut()
				select {
				case <-lives[k].done:
				case <-time.After(10 * time.Second):
					return "hang"
				}
			}
			res = append(res, ".")
		case "s":
			ch := make(chan *comm.WrappedMessage, 1024)
			typ := int(u64(f[2]))
			id := c.Subscribe(string(unhx(f[1])), comm.MessageType(typ), ch)
			chanNo[ch] = len(subs)
			subs = append(subs, subRec{string(unhx(f[1])), typ, id, ch})
			res = append(res, hx([]byte(id)))
		case "u":
			k := int(u64(f[1]))
			if k < len(subs) {
				c.UnSubscribe(subs[k].id)
			}
			res = append(res, ".")
		case "y":
			k := int(u64(f[1]))
			if k < len(subs) {
				c.UnSubscribe(comm.SubscriptionID(respell(subs[k].sess, subs[k].typ, suffixOf(subs[k]), f[2])))
			}
			res = append(res, ".")
		case "x":
			c.UnSubscribe(comm.SubscriptionID(unhx(f[1])))
			res = append(res, ".")
		case "c":
			sess := string(unhx(f[1]))
			c.VerifAddStream(sess, c12Remote, &c12Stream{r: bytes.NewReader(nil), conn: &c12Conn{remote: c12Remote}})
			c.CloseSession(sess)
			res = append(res, ".")
		case "d":
			got := []int{}
			looked := c.GetSubscribers(string(unhx(f[1])), comm.MessageType(u64(f[2])))
			for _, ch := range looked {
				n, ok := chanNo[ch]
				if !ok {
					n = 999999
				}
				got = append(got, n)
			}
			sort.Ints(got)
			// results handed out earlier must not change because of this call (no shared scratch storage)
			stale := false
			for _, lk := range lookups {
				for i := range lk.want {
					if lk.got[i] != lk.want[i] {
						stale = true
					}
				}
			}
			lookups = append(lookups, lookup{got: looked, want: append([]chan *comm.WrappedMessage{}, looked...)})
			r := intsJoin(got)
			if stale {
				r += "!"
			}
			res = append(res, r)
		case "m":
			msgs := strings.Split(op[2:], "+")
			var wire bytes.Buffer
			for j, m := range msgs {
				g := strings.Split(m, ":")
				b, err := json.Marshal(comm.WrappedMessage{
					MessageType: comm.MessageType(u64(g[1])), SessionID: string(unhx(g[0])),
					Payload: c12Payload(j, c12MsgSize(g)), From: peer.ID("spoofed"),
				})
				if err != nil {
					panic(err)
				}
				wire.Write(b)
				wire.WriteByte('\n')
			}
			c.ProcessMessagesFromStream(&c12Stream{r: &wire, conn: &c12Conn{remote: c12Remote}})
			deadline := time.Now().Add(10 * time.Second)
			for c12Pending() {
				if time.Now().After(deadline) {
					return "hang"
				}
				time.Sleep(20 * time.Microsecond)
			}
			per := make([][]int, len(msgs))
			bad := false
			for _, r := range subs {
			drain:
				for {
					select {
					case w := <-r.ch:
						cut := bytes.IndexByte(w.Payload, '|')
						if cut < 0 {
							bad = true
							continue
						}
						j, err := strconv.Atoi(string(w.Payload[:cut]))
						if err != nil || j < 0 || j >= len(msgs) {
							bad = true
							continue
						}
						g := strings.Split(msgs[j], ":")
						if !bytes.Equal(w.Payload, c12Payload(j, c12MsgSize(g))) {
							bad = true
						}
						if w.SessionID != string(unhx(g[0])) || int(w.MessageType) != int(u64(g[1])) || w.From != c12Remote {
							bad = true
						}
						per[j] = append(per[j], chanNo[r.ch])
					default:
						break drain
					}
				}
			}
			out := []string{}
			for _, p := range per {
				sort.Ints(p)
				out = append(out, intsJoin(p))
			}
			s := strings.Join(out, "+")
			if bad {
				s += "!"
			}
			res = append(res, s)
		default:
			panic("bad op " + op)
		}
	}
	// what the manager still RETAINS: every channel reachable from the manager value, found by walking it with
	// reflection (no field name, no assumption on how the maps are nested); each is reported with the session and
	// type it was subscribed under
	ret := []string{}
	byPtr := map[uintptr]subRec{}
	for _, r := range subs {
		byPtr[reflect.ValueOf(r.ch).Pointer()] = r
	}
	for _, ptr := range c12Channels(reflect.ValueOf(c.SessionSubscriptionManager), 0) {
		if r, ok := byPtr[ptr]; ok {
			ret = append(ret, hx([]byte(r.sess))+":"+itoa(r.typ)+":"+itoa(chanNo[r.ch]))
		} else {
			ret = append(ret, "-:0:999999")
		}
	}
	sort.Strings(ret)
	return joinOr(res, ";") + "|" + joinOr(ret, ";")
}

// c12Channels: the addresses of all message channels stored anywhere inside v (maps, slices, structs, pointers).
func c12Channels(v reflect.Value, depth int) []uintptr {
	out := []uintptr{}
	if depth > 12 || !v.IsValid() {
		return out
	}
	switch v.Kind() {
	case reflect.Chan:
		if !v.IsNil() && v.Type().Elem() == reflect.TypeOf((*comm.WrappedMessage)(nil)) {
			out = append(out, v.Pointer())
		}
	case reflect.Map:
		it := v.MapRange()
		for it.Next() {
			out = append(out, c12Channels(it.Value(), depth+1)...)
		}
	case reflect.Slice, reflect.Array:
		for i := 0; i < v.Len(); i++ {
			out = append(out, c12Channels(v.Index(i), depth+1)...)
		}
	case reflect.Struct:
		for i := 0; i < v.NumField(); i++ {
			out = append(out, c12Channels(v.Field(i), depth+1)...)
		}
	case reflect.Ptr, reflect.Interface:
		if !v.IsNil() {
			out = append(out, c12Channels(v.Elem(), depth+1)...)
		}
	}
	return out
}

func intsJoin(xs []int) string {
	ss := []string{}
	for _, x := range xs {
		ss = append(ss, itoa(x))
	}
	return joinOr(ss, ",")
}

func init() {
	ops["C12.unwrap"] = func(a []string) string {
		return c12Unwrap(comm.SubscriptionID(unhx(a[0])))
	}
	ops["C12.newid"] = func(a []string) string {
		id := comm.NewSubscriptionID(string(unhx(a[0])), comm.MessageType(u64(a[1])))
		return hx([]byte(id)) + "|" + c12Unwrap(id)
	}
	ops["C12.run"] = func(a []string) string { return c12Run(a[0]) }
	gens["C12"] = genC12
}

// session ids of the production grammar (message ids, keygen/resharing/retry sessions, digests) and adversarial ones
var c12Sessions = []string{
	"1-2-100-104-0", "1-2-100-104-1", "1-2-100-104", "keygen-17", "resharing-5", "retry-1-2-7", "1", "2", "",
	"-", "--", "a-4", "a", "a-4-4", "1-4", "-4-", "4", "ab12cd34ef56ab12cd34ef56ab12cd34ef56ab12cd34ef56ab12cd34ef56ab12",
	"0x7f", "сесія-1", "s p\tace", "line\nbreak-3", "\"q\"-<&>", "1-2-100-104-0-4",
}

func genC12(g *G) {
	hs := func(s string) string { return hx([]byte(s)) }
	// --- parser: exhaustive short strings over a small alphabet, then structured boundary ids
	alpha := []byte{'-', '0', '1', '3', '+', 'a'}
	L := g.Count(5, 6)
	var rec func(p []byte)
	rec = func(p []byte) {
		g.Emit("unwrap", hx(p))
		if len(p) == L {
			return
		}
		for _, a := range alpha {
			rec(append(append([]byte{}, p...), a))
		}
	}
	rec(nil)
	types := []string{"0", "4", "13", "14", "99", "127", "128", "255", "256", "+5", "+13", "+14", "-5", "-0", "05", "0013", "", "1_0", "0x5", " 5", "5 ", "٣", "9223372036854775808", "1e1"}
	sufs := []string{"", "123", "4294967295", "a", "1-2", " ", "0"}
	for _, s := range c12Sessions {
		for _, t := range types {
			for _, u := range sufs {
				g.Emit("unwrap", hs(s+"-"+t+"-"+u))
			}
		}
	}
	// --- fresh ids round-trip through the parser
	for _, s := range c12Sessions {
		for t := 0; t <= 15; t++ {
			g.Emit("newid", hs(s), itoa(t))
		}
		for _, t := range []int{127, 128, 200, 255} {
			g.Emit("newid", hs(s), itoa(t))
		}
	}
	for i := 0; i < g.Count(300, 20000); i++ {
		g.Emit("newid", hx(c12RandSess(g)), itoa(c12RandType(g)))
	}
	// --- exhaustive interleavings on ONE or TWO (session, type) buckets: every order of subscribe / cancel (also of
	// already cancelled = stale ids, and of an id after a newer subscription) / deliver up to the given length, each
	// closed by one inbound stream that carries a message for every bucket
	bk := []string{hs("1-2-100-104-0") + ":4", hs("1-2-100-104-0") + ":5"}
	var inter func(ops []string, nsub, depth, maxLen, nb int)
	inter = func(ops []string, nsub, depth, maxLen, nb int) {
		if depth > 0 {
			g.Emit("run", strings.Join(ops, ";")+";m:"+strings.Join(bk[:nb], "+"))
		}
		if depth == maxLen {
			return
		}
		ext := func(op string, ns int) {
			inter(append(append([]string{}, ops...), op), ns, depth+1, maxLen, nb)
		}
		for b := 0; b < nb; b++ {
			ext("s:"+bk[b], nsub+1)
		}
		if nsub == 0 {
			return // a history starts with a subscription
		}
		for k := 0; k < nsub; k++ {
			ext("u:"+itoa(k), nsub)
		}
		ext("c:"+hs("1-2-100-104-0"), nsub)
		// a delivery in the middle only after at least one cancel or two subscriptions (otherwise the closing stream says it all)
		if depth >= 2 {
			for b := 0; b < nb; b++ {
				ext("d:"+bk[b], nsub)
			}
		}
	}
	// --- message sizes around the stream reader's buffer (4096 bytes on the wire ~ 3 KiB of payload) and far beyond, first,
	// in the middle and last on a stream, with a second subscriber bucket that must still get the later messages
	sizes := []int{0, 1, 2990, 3000, 3010, 3020, 3024, 3027, 3030, 3033, 3036, 3039, 3042, 3050, 3060, 4095, 4096, 4097, 8192, 65536, 1 << 20}
	if g.Thorough() {
		for n := 2980; n <= 3080; n++ {
			sizes = append(sizes, n)
		}
		sizes = append(sizes, 4<<20)
	}
	for _, n := range sizes {
		big, small := bk[0]+":"+itoa(n), bk[1]
		g.Emit("run", "s:"+bk[0]+";s:"+bk[1]+";s:"+bk[0]+";m:"+big+"+"+small+";m:"+small+"+"+big+"+"+small+";m:"+big+"+"+big+";u:0;m:"+small+"+"+big)
		g.Emit("run", "s:"+hs("k")+":0;m:"+hs("k")+":0:"+itoa(n)+";d:"+hs("k")+":0")
	}
	// --- CloseSession is not a cancellation: A and B share a session, A tears down (cancel + CloseSession in both orders),
	// B must keep receiving; also closing before / between / after subscriptions and closing other sessions
	for _, t := range []string{
		"s:A4;s:A4;u:0;c:A;m:A4", "s:A4;s:A4;c:A;u:0;m:A4", "s:A4;s:A5;u:0;c:A;m:A4+A5", "s:A4;c:A;m:A4", "c:A;s:A4;m:A4", "s:A4;c:A;c:A;s:A4;m:A4",
		"s:A4;s:B4;c:A;m:A4+B4", "s:A4;s:B4;c:B;u:1;m:A4+B4", "s:A4;u:0;c:A;s:A4;m:A4", "s:A4;s:A4;s:A4;u:1;c:A;d:A4;u:0;c:A;m:A4"} {
		t = strings.NewReplacer("A4", bk[0], "A5", bk[1], "B4", hs("keygen-17")+":4", "c:A", "c:"+hs("1-2-100-104-0"), "c:B", "c:"+hs("keygen-17")).Replace(t)
		g.Emit("run", t)
	}
	closeOp := "c:" + hs("1-2-100-104-0")
	_ = closeOp
	inter(nil, 0, 0, g.Count(6, 7), 1)
	// the same interleavings on pairs of DIFFERENT (session, type) buckets whose texts run into each other when written
	// without a separator or with the same separator: X1 / 1t against X11 / t, X / 1t against X1 / t, X- / t against X / -t …
	saved := bk
	for _, base := range []string{"1-2-100-104-", "k"} {
		for t := 10; t <= 13; t++ {
			for _, pair := range [][2]string{
				{hs(base+"1") + ":" + itoa(t), hs(base+"11") + ":" + itoa(t-10)},
				{hs(base) + ":" + itoa(t), hs(base+"1") + ":" + itoa(t-10)},
				{hs(base+"1-") + ":" + itoa(t-10), hs(base+"1") + ":" + itoa(t-10)},
				{hs(base+itoa(t)) + ":" + itoa(t-10), hs(base) + ":" + itoa(t)},
			} {
				bk = []string{pair[0], pair[1]}
				inter(nil, 0, 0, g.Count(3, 4), 2)
			}
		}
	}
	bk = saved
	inter(nil, 0, 0, g.Count(5, 6), 2)
	// --- one OPEN inbound stream (and two) while subscriptions change between its messages: every order of subscribe /
	// cancel / message-on-the-stream up to the given length
	var interLive func(ops []string, nsub, depth, maxLen, nb, ns int)
	interLive = func(ops []string, nsub, depth, maxLen, nb, ns int) {
		if depth > 0 {
			g.Emit("run", strings.Join(ops, ";"))
		}
		if depth == maxLen {
			return
		}
		ext := func(op string, n int) { interLive(append(append([]string{}, ops...), op), n, depth+1, maxLen, nb, ns) }
		for b := 0; b < nb; b++ {
			ext("s:"+bk[b], nsub+1)
			for st := 0; st < ns; st++ {
				ext("w:"+itoa(st)+":"+bk[b], nsub)
			}
		}
		for k := 0; k < nsub; k++ {
			ext("u:"+itoa(k), nsub)
		}
	}
	interLive([]string{"o"}, 0, 0, g.Count(5, 6), 1, 1)
	interLive([]string{"o", "o"}, 0, 0, g.Count(4, 5), 2, 2)
	// look-ups whose results are held while further look-ups are made (no shared scratch storage between calls)
	g.Emit("run", "s:"+bk[0]+";s:"+bk[0]+";s:"+bk[1]+";d:"+bk[0]+";d:"+bk[1]+";d:"+bk[0]+";u:0;d:"+bk[0]+";d:"+bk[1])
	g.Emit("run", "s:"+bk[1]+";s:"+bk[0]+";d:"+bk[1]+";d:"+bk[0]+";d:"+hs("nobody")+":3;d:"+bk[1])
	// --- histories
	for i := 0; i < g.Count(2500, 120000); i++ {
		ns := 1 + g.Intn(4)
		pool := []string{}
		for j := 0; j < ns; j++ {
			if g.Intn(5) == 0 {
				pool = append(pool, hx(c12RandSess(g)))
			} else {
				pool = append(pool, hs(g.Pick(c12Sessions)))
			}
		}
		// few types per history so that subscribers actually share a (session, type)
		noisy := g.Intn(10) < 3 // 70 % of the histories stay inside the theorem's hypotheses
		tp := []int{g.Intn(14), g.Intn(14)}
		if noisy {
			tp = []int{c12RandType(g), c12RandType(g)}
		}
		n := 1 + g.Intn(g.Count(24, 40))
		ops := []string{}
		nsub := 0
		st := func() string { return g.Pick(pool) + ":" + itoa(tp[g.Intn(len(tp))]) }
		for j := 0; j < n; j++ {
			r := g.Intn(100)
			if !noisy && r >= 58 && r < 66 {
				r = 70
			}
			switch {
			case r < 40 || nsub == 0:
				ops = append(ops, "s:"+st())
				nsub++
			case r < 58:
				ops = append(ops, "u:"+itoa(g.Intn(nsub+1)))
			case r < 63:
				ops = append(ops, "y:"+itoa(g.Intn(nsub))+":"+itoa(g.Intn(6)))
			case r < 66:
				ops = append(ops, "x:"+hx(c12RandSess(g)))
			case r < 70:
				ops = append(ops, "c:"+g.Pick(pool))
			case r < 84:
				ops = append(ops, "d:"+st())
			default:
				sz := func() string {
					if g.Intn(5) == 0 {
						return ":" + itoa([]int{3000, 3030, 3036, 3050, 4096, 4097, 9000, 70000}[g.Intn(8)])
					}
					return ""
				}
				ms := []string{st() + sz()}
				for g.Intn(3) == 0 && len(ms) < 4 {
					ms = append(ms, st()+sz())
				}
				ops = append(ops, "m:"+strings.Join(ms, "+"))
			}
		}
		if g.Intn(3) == 0 {
			// the same history with its inbound messages arriving on two streams that stay open throughout
			live := []string{"o", "o"}
			for _, op := range ops {
				if strings.HasPrefix(op, "m:") {
					for _, m := range strings.Split(op[2:], "+") {
						live = append(live, "w:"+itoa(g.Intn(2))+":"+m)
					}
				} else {
					live = append(live, op)
				}
			}
			if g.Intn(2) == 0 {
				live = append(live, "q:0")
			}
			g.Emit("run", strings.Join(live, ";"))
			continue
		}
		g.Emit("run", strings.Join(ops, ";"))
	}
}

// c12RandType: mostly the declared message types 0..13, sometimes beyond the enumeration.
func c12RandType(g *G) int {
	if g.Intn(12) == 0 {
		return []int{14, 15, 127, 128, 200, 255}[g.Intn(6)]
	}
	return g.Intn(14)
}

// c12RandSess: random valid-UTF-8 strings rich in separators and digits.
func c12RandSess(g *G) []byte {
	n := g.Intn(9)
	parts := []string{"-", "-", "0", "1", "4", "13", "a", "b", "+", "é", "key", "-4-", "100"}
	s := ""
	for i := 0; i < n; i++ {
		s += g.Pick(parts)
	}
	return []byte(s)
}
