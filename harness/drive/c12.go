package main

// C12 — session subscription manager, subscription ids, inbound fan-out.
//
// Ops (strings travel as lowercase hex of their bytes, "-" = empty):
//   C12 unwrap <idHex>            => ok:<sess>:<type>:<sub>|<sess>:<type>:<sub>   or  err|<sess>:<type>:<sub>
//                                    (Unwrap result | the three accessor methods)
//   C12 newid <sessHex> <type>    => <idHex>|<unwrap part as above>
//   C12 run <op;op;…>             => <res;res;…>|<retained entries>
//        s:<sess>:<type>            subscribe a fresh channel (its number = how many s-ops came before); res = returned id (hex)
//        u:<k>                      UnSubscribe(id returned by the k-th s-op); res = .
//        y:<k>:<variant>            UnSubscribe(a re-spelling of that id, see respell); res = .
//        x:<idHex>                  UnSubscribe(arbitrary string); res = .
//        d:<sess>:<type>            GetSubscribers; res = channel numbers, ascending
//        m:<sess>:<type>[:<size>][+…] one inbound stream carrying these messages (payload of <size> bytes) through the
//                                   real ProcessMessagesFromStream; res = per message the channel numbers that received it
//                                   intact (`!` appended if any payload / session / type / sender arrived altered)
//        c:<sess>                   CloseSession(sess) on the real Libp2pCommunication (an outbound stream of the session
//                                   is registered first so that there is something to release); res = .
//      retained entries: <sess>:<type>:<key>:<chan>, sorted, from the real subscribersMap after the last op.

import (
	"bytes"
	"encoding/json"
	"io"
	"reflect"
	"runtime"
	"sort"
	"strconv"
	"strings"
	"time"

	"github.com/ChainSafe/sygma-relayer/comm"
	"github.com/ChainSafe/sygma-relayer/comm/p2p"
	"github.com/libp2p/go-libp2p/core/network"
	"github.com/libp2p/go-libp2p/core/peer"
)

type c12Conn struct {
	network.Conn
	remote peer.ID
}

func (c *c12Conn) RemotePeer() peer.ID { return c.remote }

type c12Stream struct {
	network.Stream
	r    io.Reader
	conn *c12Conn
}

func (s *c12Stream) Read(p []byte) (int, error) { return s.r.Read(p) }
func (s *c12Stream) Conn() network.Conn         { return s.conn }
func (s *c12Stream) Close() error               { return nil }

const c12Remote = peer.ID("verif-remote-peer")

func c12Unwrap(id comm.SubscriptionID) string {
	res := "err"
	s, t, k, err := id.Unwrap()
	if err == nil {
		res = "ok:" + hx([]byte(s)) + ":" + itoa(int(t)) + ":" + hx([]byte(k))
	}
	return res + "|" + hx([]byte(id.SessionID())) + ":" + itoa(int(id.MessageType())) + ":" + hx([]byte(id.SubscriptionIdentifier()))
}

// c12Pending reports whether a goroutine started inside the repository's comm/p2p package is still alive
// (the fan-out goroutines of ProcessMessagesFromStream). Deterministic: it inspects goroutine stacks, not clocks.
// the import path of the package under test, taken from the type itself (no literal path, no function name)
var c12PkgPrefix = reflect.TypeOf(p2p.Libp2pCommunication{}).PkgPath() + "."

func c12Pending() bool {
	buf := make([]byte, 1<<16)
	for {
		n := runtime.Stack(buf, true)
		if n < len(buf) {
			buf = buf[:n]
			break
		}
		buf = make([]byte, 2*len(buf))
	}
	return bytes.Contains(buf, []byte(c12PkgPrefix))
}

// respell builds a subscription id that differs textually from the one issued for (sess, typ, suffix).
func respell(sess string, typ int, suffix string, variant string) string {
	t := strconv.Itoa(typ)
	switch variant {
	case "0":
		return sess + "-+" + t + "-" + suffix // ParseInt accepts a sign
	case "1":
		return sess + "-0" + t + "-" + suffix // and leading zeros
	case "2":
		return sess + "-" + t + "-0" + suffix // different key
	case "3":
		return "x" + sess + "-" + t + "-" + suffix // different session
	case "4":
		return sess + "-" + t + "-" + suffix + "-" // trailing separator
	case "5":
		return sess + "-" + t + suffix // separator dropped
	}
	return sess + "-" + t + "-" + suffix
}

// c12Payload: message j of a stream, padded to `size` bytes with a position-dependent pattern.
func c12Payload(j, size int) []byte {
	b := []byte(strconv.Itoa(j) + "|")
	for i := len(b); i < size; i++ {
		b = append(b, byte(33+(i*7+j*13)%90))
	}
	return b
}

func c12MsgSize(g []string) int {
	if len(g) >= 3 {
		return int(u64(g[2]))
	}
	return 0
}

func c12Run(spec string) string {
	c := p2p.VerifNewCommunication()
	type subRec struct {
		sess string
		typ  int
		id   comm.SubscriptionID
		ch   chan *comm.WrappedMessage
	}
	subs := []subRec{}
	chanNo := map[chan *comm.WrappedMessage]int{}
	res := []string{}
	suffixOf := func(r subRec) string {
		pre := r.sess + "-" + strconv.Itoa(r.typ) + "-"
		return strings.TrimPrefix(string(r.id), pre)
	}
	for _, op := range items(spec, ";") {
		f := strings.Split(op, ":")
		switch f[0] {
		case "s":
			ch := make(chan *comm.WrappedMessage, 1024)
			typ := int(u64(f[2]))
			id := c.Subscribe(string(unhx(f[1])), comm.MessageType(typ), ch)
			chanNo[ch] = len(subs)
			subs = append(subs, subRec{string(unhx(f[1])), typ, id, ch})
			res = append(res, hx([]byte(id)))
		case "u":
			k := int(u64(f[1]))
			if k < len(subs) {
				c.UnSubscribe(subs[k].id)
			}
			res = append(res, ".")
		case "y":
			k := int(u64(f[1]))
			if k < len(subs) {
				c.UnSubscribe(comm.SubscriptionID(respell(subs[k].sess, subs[k].typ, suffixOf(subs[k]), f[2])))
			}
			res = append(res, ".")
		case "x":
			c.UnSubscribe(comm.SubscriptionID(unhx(f[1])))
			res = append(res, ".")
		case "c":
			sess := string(unhx(f[1]))
			c.VerifAddStream(sess, c12Remote, &c12Stream{r: bytes.NewReader(nil), conn: &c12Conn{remote: c12Remote}})
			c.CloseSession(sess)
			res = append(res, ".")
		case "d":
			got := []int{}
			for _, ch := range c.GetSubscribers(string(unhx(f[1])), comm.MessageType(u64(f[2]))) {
				n, ok := chanNo[ch]
				if !ok {
					n = 999999
				}
				got = append(got, n)
			}
			sort.Ints(got)
			res = append(res, intsJoin(got))
		case "m":
			msgs := strings.Split(op[2:], "+")
			var wire bytes.Buffer
			for j, m := range msgs {
				g := strings.Split(m, ":")
				b, err := json.Marshal(comm.WrappedMessage{
					MessageType: comm.MessageType(u64(g[1])), SessionID: string(unhx(g[0])),
					Payload: c12Payload(j, c12MsgSize(g)), From: peer.ID("spoofed"),
				})
				if err != nil {
					panic(err)
				}
				wire.Write(b)
				wire.WriteByte('\n')
			}
			c.ProcessMessagesFromStream(&c12Stream{r: &wire, conn: &c12Conn{remote: c12Remote}})
			deadline := time.Now().Add(10 * time.Second)
			for c12Pending() {
				if time.Now().After(deadline) {
					return "hang"
				}
				time.Sleep(20 * time.Microsecond)
			}
			per := make([][]int, len(msgs))
			bad := false
			for _, r := range subs {
			drain:
				for {
					select {
					case w := <-r.ch:
						cut := bytes.IndexByte(w.Payload, '|')
						if cut < 0 {
							bad = true
							continue
						}
						j, err := strconv.Atoi(string(w.Payload[:cut]))
						if err != nil || j < 0 || j >= len(msgs) {
							bad = true
							continue
						}
						g := strings.Split(msgs[j], ":")
						if !bytes.Equal(w.Payload, c12Payload(j, c12MsgSize(g))) {
							bad = true
						}
						if w.SessionID != string(unhx(g[0])) || int(w.MessageType) != int(u64(g[1])) || w.From != c12Remote {
							bad = true
						}
						per[j] = append(per[j], chanNo[r.ch])
					default:
						break drain
					}
				}
			}
			out := []string{}
			for _, p := range per {
				sort.Ints(p)
				out = append(out, intsJoin(p))
			}
			s := strings.Join(out, "+")
			if bad {
				s += "!"
			}
			res = append(res, s)
		default:
			panic("bad op " + op)
		}
	}
	ret := []string{}
	for _, e := range c.VerifDump() {
		n, ok := chanNo[e.Ch]
		if !ok {
			n = 999999
		}
		ret = append(ret, hx([]byte(e.Session))+":"+itoa(int(e.Type))+":"+hx([]byte(e.Key))+":"+itoa(n))
	}
	sort.Strings(ret)
	return joinOr(res, ";") + "|" + joinOr(ret, ";")
}

func intsJoin(xs []int) string {
	ss := []string{}
	for _, x := range xs {
		ss = append(ss, itoa(x))
	}
	return joinOr(ss, ",")
}

func init() {
	ops["C12.unwrap"] = func(a []string) string {
		return c12Unwrap(comm.SubscriptionID(unhx(a[0])))
	}
	ops["C12.newid"] = func(a []string) string {
		id := comm.NewSubscriptionID(string(unhx(a[0])), comm.MessageType(u64(a[1])))
		return hx([]byte(id)) + "|" + c12Unwrap(id)
	}
	ops["C12.run"] = func(a []string) string { return c12Run(a[0]) }
	gens["C12"] = genC12
}

// session ids of the production grammar (message ids, keygen/resharing/retry sessions, digests) and adversarial ones
var c12Sessions = []string{
	"1-2-100-104-0", "1-2-100-104-1", "1-2-100-104", "keygen-17", "resharing-5", "retry-1-2-7", "1", "2", "",
	"-", "--", "a-4", "a", "a-4-4", "1-4", "-4-", "4", "ab12cd34ef56ab12cd34ef56ab12cd34ef56ab12cd34ef56ab12cd34ef56ab12",
	"0x7f", "сесія-1", "s p\tace", "line\nbreak-3", "\"q\"-<&>", "1-2-100-104-0-4",
}

func genC12(g *G) {
	hs := func(s string) string { return hx([]byte(s)) }
	// --- parser: exhaustive short strings over a small alphabet, then structured boundary ids
	alpha := []byte{'-', '0', '1', '3', '+', 'a'}
	L := g.Count(5, 6)
	var rec func(p []byte)
	rec = func(p []byte) {
		g.Emit("unwrap", hx(p))
		if len(p) == L {
			return
		}
		for _, a := range alpha {
			rec(append(append([]byte{}, p...), a))
		}
	}
	rec(nil)
	types := []string{"0", "4", "13", "14", "99", "127", "128", "255", "256", "+5", "+13", "+14", "-5", "-0", "05", "0013", "", "1_0", "0x5", " 5", "5 ", "٣", "9223372036854775808", "1e1"}
	sufs := []string{"", "123", "4294967295", "a", "1-2", " ", "0"}
	for _, s := range c12Sessions {
		for _, t := range types {
			for _, u := range sufs {
				g.Emit("unwrap", hs(s+"-"+t+"-"+u))
			}
		}
	}
	// --- fresh ids round-trip through the parser
	for _, s := range c12Sessions {
		for t := 0; t <= 15; t++ {
			g.Emit("newid", hs(s), itoa(t))
		}
		for _, t := range []int{127, 128, 200, 255} {
			g.Emit("newid", hs(s), itoa(t))
		}
	}
	for i := 0; i < g.Count(300, 20000); i++ {
		g.Emit("newid", hx(c12RandSess(g)), itoa(c12RandType(g)))
	}
	// --- exhaustive interleavings on ONE or TWO (session, type) buckets: every order of subscribe / cancel (also of
	// already cancelled = stale ids, and of an id after a newer subscription) / deliver up to the given length, each
	// closed by one inbound stream that carries a message for every bucket
	bk := []string{hs("1-2-100-104-0") + ":4", hs("1-2-100-104-0") + ":5"}
	var inter func(ops []string, nsub, depth, maxLen, nb int)
	inter = func(ops []string, nsub, depth, maxLen, nb int) {
		if depth > 0 {
			g.Emit("run", strings.Join(ops, ";")+";m:"+strings.Join(bk[:nb], "+"))
		}
		if depth == maxLen {
			return
		}
		ext := func(op string, ns int) {
			inter(append(append([]string{}, ops...), op), ns, depth+1, maxLen, nb)
		}
		for b := 0; b < nb; b++ {
			ext("s:"+bk[b], nsub+1)
		}
		if nsub == 0 {
			return // a history starts with a subscription
		}
		for k := 0; k < nsub; k++ {
			ext("u:"+itoa(k), nsub)
		}
		ext("c:"+hs("1-2-100-104-0"), nsub)
		// a delivery in the middle only after at least one cancel or two subscriptions (otherwise the closing stream says it all)
		if depth >= 2 {
			for b := 0; b < nb; b++ {
				ext("d:"+bk[b], nsub)
			}
		}
	}
	// --- message sizes around the stream reader's buffer (4096 bytes on the wire ~ 3 KiB of payload) and far beyond, first,
	// in the middle and last on a stream, with a second subscriber bucket that must still get the later messages
	sizes := []int{0, 1, 2990, 3000, 3010, 3020, 3024, 3027, 3030, 3033, 3036, 3039, 3042, 3050, 3060, 4095, 4096, 4097, 8192, 65536, 1 << 20}
	if g.Thorough() {
		for n := 2980; n <= 3080; n++ {
			sizes = append(sizes, n)
		}
		sizes = append(sizes, 4<<20)
	}
	for _, n := range sizes {
		big, small := bk[0]+":"+itoa(n), bk[1]
		g.Emit("run", "s:"+bk[0]+";s:"+bk[1]+";s:"+bk[0]+";m:"+big+"+"+small+";m:"+small+"+"+big+"+"+small+";m:"+big+"+"+big+";u:0;m:"+small+"+"+big)
		g.Emit("run", "s:"+hs("k")+":0;m:"+hs("k")+":0:"+itoa(n)+";d:"+hs("k")+":0")
	}
	// --- CloseSession is not a cancellation: A and B share a session, A tears down (cancel + CloseSession in both orders),
	// B must keep receiving; also closing before / between / after subscriptions and closing other sessions
	for _, t := range []string{
		"s:A4;s:A4;u:0;c:A;m:A4", "s:A4;s:A4;c:A;u:0;m:A4", "s:A4;s:A5;u:0;c:A;m:A4+A5", "s:A4;c:A;m:A4", "c:A;s:A4;m:A4", "s:A4;c:A;c:A;s:A4;m:A4",
		"s:A4;s:B4;c:A;m:A4+B4", "s:A4;s:B4;c:B;u:1;m:A4+B4", "s:A4;u:0;c:A;s:A4;m:A4", "s:A4;s:A4;s:A4;u:1;c:A;d:A4;u:0;c:A;m:A4"} {
		t = strings.NewReplacer("A4", bk[0], "A5", bk[1], "B4", hs("keygen-17")+":4", "c:A", "c:"+hs("1-2-100-104-0"), "c:B", "c:"+hs("keygen-17")).Replace(t)
		g.Emit("run", t)
	}
	closeOp := "c:" + hs("1-2-100-104-0")
	_ = closeOp
	inter(nil, 0, 0, g.Count(6, 7), 1)
	inter(nil, 0, 0, g.Count(5, 6), 2)
	// --- histories
	for i := 0; i < g.Count(2500, 120000); i++ {
		ns := 1 + g.Intn(4)
		pool := []string{}
		for j := 0; j < ns; j++ {
			if g.Intn(5) == 0 {
				pool = append(pool, hx(c12RandSess(g)))
			} else {
				pool = append(pool, hs(g.Pick(c12Sessions)))
			}
		}
		// few types per history so that subscribers actually share a (session, type)
		noisy := g.Intn(10) < 3 // 70 % of the histories stay inside the theorem's hypotheses
		tp := []int{g.Intn(14), g.Intn(14)}
		if noisy {
			tp = []int{c12RandType(g), c12RandType(g)}
		}
		n := 1 + g.Intn(g.Count(24, 40))
		ops := []string{}
		nsub := 0
		st := func() string { return g.Pick(pool) + ":" + itoa(tp[g.Intn(len(tp))]) }
		for j := 0; j < n; j++ {
			r := g.Intn(100)
			if !noisy && r >= 58 && r < 66 {
				r = 70
			}
			switch {
			case r < 40 || nsub == 0:
				ops = append(ops, "s:"+st())
				nsub++
			case r < 58:
				ops = append(ops, "u:"+itoa(g.Intn(nsub+1)))
			case r < 63:
				ops = append(ops, "y:"+itoa(g.Intn(nsub))+":"+itoa(g.Intn(6)))
			case r < 66:
				ops = append(ops, "x:"+hx(c12RandSess(g)))
			case r < 70:
				ops = append(ops, "c:"+g.Pick(pool))
			case r < 84:
				ops = append(ops, "d:"+st())
			default:
				sz := func() string {
					if g.Intn(5) == 0 {
						return ":" + itoa([]int{3000, 3030, 3036, 3050, 4096, 4097, 9000, 70000}[g.Intn(8)])
					}
					return ""
				}
				ms := []string{st() + sz()}
				for g.Intn(3) == 0 && len(ms) < 4 {
					ms = append(ms, st()+sz())
				}
				ops = append(ops, "m:"+strings.Join(ms, "+"))
			}
		}
		g.Emit("run", strings.Join(ops, ";"))
	}
}

// c12RandType: mostly the declared message types 0..13, sometimes beyond the enumeration.
func c12RandType(g *G) int {
	if g.Intn(12) == 0 {
		return []int{14, 15, 127, 128, 200, 255}[g.Intn(6)]
	}
	return g.Intn(14)
}

// c12RandSess: random valid-UTF-8 strings rich in separators and digits.
func c12RandSess(g *G) []byte {
	n := g.Intn(9)
	parts := []string{"-", "-", "0", "1", "4", "13", "a", "b", "+", "é", "key", "-4-", "100"}
	s := ""
	for i := 0; i < n; i++ {
		s += g.Pick(parts)
	}
	return []byte(s)
}
