package main

// C01 — long variable-length fields and the destination handlers on their own.
//   msg <dstKind> <type> <src> <dst> <nonce> <rid> <payload> <gas|n>
//     payload items `b:<hex>` / `i:<n,n,…>` separated by `;`; runs the destination chain's real HandleMessage on a message built
//     from exactly these values (lengths beyond what a deposit handler can emit included).
// Generators: every variable-length field of every handler pair at lengths around 2^8 and 2^16 (length-word truncation class).

import (
	"math/big"
	"strings"
	"time"

	"github.com/ChainSafe/sygma-relayer/relayer/transfer"
	"github.com/sygmaprotocol/sygma-core/relayer/message"
)

func init() {
	ops["C01.msg"] = func(a []string) string {
		payload := []interface{}{}
		for _, it := range items(a[6], ";") {
			switch {
			case strings.HasPrefix(it, "b:"):
				payload = append(payload, exact(unhx(it[2:])))
			case strings.HasPrefix(it, "i:"):
				xs := []*big.Int{}
				for _, n := range items(it[2:], ",") {
					v, ok := new(big.Int).SetString(n, 10)
					if !ok {
						panic("bad int item")
					}
					xs = append(xs, v)
				}
				payload = append(payload, xs)
			default:
				panic("bad payload item")
			}
		}
		var md map[string]interface{}
		if a[7] != "n" {
			md = map[string]interface{}{"gasLimit": u64(a[7])}
		}
		msg := message.NewMessage(uint8(u64(a[2])), uint8(u64(a[3])), transfer.TransferMessageData{
			DepositNonce: u64(a[4]), ResourceId: rid32(a[5]), Metadata: md, Payload: payload, Type: transfer.TransferType(a[1]),
		}, "mid", transfer.TransferMessageType, time.Unix(1700000000, 0))
		p, cls := c01Dest(a[0], msg)
		if cls != "ok" {
			return cls + ":dst"
		}
		return showProposal(p)
	}
}

// field lengths around the one-byte and two-byte boundaries
func longLens(g *G) []int {
	if g.Thorough() {
		return []int{255, 256, 257, 300, 511, 512, 1000, 65535, 65536, 70000}
	}
	return []int{255, 256, 257, 300, 65536}
}

// element counts for uint256 vectors (each element is 32 bytes of calldata)
func longCounts(g *G) []int {
	if g.Thorough() {
		return []int{255, 256, 257, 300, 511, 512, 1000, 65535, 65536, 70000}
	}
	return []int{255, 256, 257, 300}
}

func u16(n int) []byte { return []byte{byte(n >> 8), byte(n)} }

func genC01Long(g *G) {
	rid := hx(w32u(3))
	relay := func(sk, dk, a1, a2 string) { g.Emit("relay", sk, dk, "1", "2", "7", rid, a1, a2) }
	msg := func(dk, typ, payload, gas string) { g.Emit("msg", dk, typ, "1", "2", "7", rid, payload, gas) }
	b := func(x []byte) string { return "b:" + hx(x) }
	amount := w32u(12345678900000000)
	fee := w32u(500000)
	addr := g.Bytes(20)
	ints := func(n int) (string, []byte) {
		xs := make([]string, n)
		enc := w32u(uint64(n))
		for i := range xs {
			v := uint64(i*7 + 1)
			xs[i] = utoa(v)
			enc = append(enc, w32u(v)...)
		}
		return "i:" + joinOr(xs, ","), enc
	}
	for _, L := range longLens(g) {
		f := g.Bytes(L)
		// fungible: recipient of L bytes — EVM and Substrate sources, all three destinations; optional message of L bytes
		for _, dk := range []string{"evm", "sub", "btc"} {
			relay("erc20", dk, hx(cat(amount, w32u(uint64(L)), f)), "-")
			relay("sub", dk, hx(cat(amount, w32u(uint64(L)), f)), "0")
			msg(dk, "fungible", b(amount)+";"+b(f), "n")
		}
		relay("erc20", "evm", hx(cat(amount, w32u(20), addr, fee, f)), "-")
		relay("erc20", "evm", hx(cat(amount, w32u(uint64(L)), f, fee, f)), hx(w32u(99)))
		msg("evm", "fungible", b(amount)+";"+b(addr)+";"+b(cat(fee, f)), "600000")
		msg("evm", "fungible", b(amount)+";"+b(f)+";"+b(cat(fee, f)), "600000")
		// ERC721: recipient / metadata / both
		relay("erc721", "evm", hx(cat(amount, w32u(uint64(L)), f, w32u(3), []byte{1, 2, 3})), "-")
		relay("erc721", "evm", hx(cat(amount, w32u(20), addr, w32u(uint64(L)), f)), "-")
		relay("erc721", "evm", hx(cat(amount, w32u(uint64(L)), f, w32u(uint64(L)), f)), "-")
		msg("evm", "nonFungible", b(amount)+";"+b(f)+";"+b([]byte{1, 2, 3}), "n")
		msg("evm", "nonFungible", b(amount)+";"+b(addr)+";"+b(f), "n")
		msg("evm", "nonFungible", b(amount)+";"+b(f)+";"+b(f), "n")
		// ERC1155: transfer data of L bytes; recipient of L bytes (refused: must be 20)
		one, oneEnc := ints(1)
		td := cat(w32u(uint64(L)), padTo32(f))
		rc := cat(w32u(20), padTo32(addr))
		head := func(p0, p1, p2 []byte) []byte {
			return cat(w32u(128), w32u(uint64(128+len(p0))), w32u(uint64(128+len(p0)+len(p1))), w32u(uint64(128+len(p0)+len(p1)+len(p2))))
		}
		relay("erc1155", "evm", hx(cat(head(oneEnc, oneEnc, rc), oneEnc, oneEnc, rc, td)), "-")
		msg("evm", "semiFungible", one+";"+one+";"+b(addr)+";"+b(f), "n")
		rcL := cat(w32u(uint64(L)), padTo32(f))
		relay("erc1155", "evm", hx(cat(head(oneEnc, oneEnc, rcL), oneEnc, oneEnc, rcL, cat(w32u(0)))), "-")
		// permissionless generic: execution data of L bytes; function signature / contract / depositor of L bytes where the
		// length field allows it, and what the code does where it does not (the length bytes wrap)
		gen := func(fs, ca, dp, ex []byte) []byte {
			return cat(fee, u16(len(fs)), fs, []byte{byte(len(ca))}, ca, []byte{byte(len(dp))}, dp, ex)
		}
		sig := []byte{0xde, 0xad, 0xbe, 0xef}
		relay("generic", "evm", hx(gen(sig, addr, addr, f)), "-")
		relay("generic", "evm", hx(gen(f, addr, addr, []byte{9})), "-")
		relay("generic", "evm", hx(gen(sig, f, addr, []byte{9})), "-")
		relay("generic", "evm", hx(gen(sig, addr, f, []byte{9})), "-")
		msg("evm", "permissionlessGeneric", b(sig)+";"+b(addr)+";"+b(fee)+";"+b(addr)+";"+b(f), "500000")
		msg("evm", "permissionlessGeneric", b(f)+";"+b(addr)+";"+b(fee)+";"+b(addr)+";"+b([]byte{9}), "500000")
		msg("evm", "permissionlessGeneric", b(sig)+";"+b(f)+";"+b(fee)+";"+b(addr)+";"+b([]byte{9}), "500000")
		msg("evm", "permissionlessGeneric", b(sig)+";"+b(addr)+";"+b(fee)+";"+b(f)+";"+b([]byte{9}), "500000")
		msg("evm", "permissionedGeneric", b(f), "n")
		// Bitcoin OP_RETURN text: L hex digits before the separator; L digits after it
		hexdigits := strings.Repeat("ab", L/2+1)[:L]
		for _, dk := range []string{"evm", "btc"} {
			relay("btc", dk, "1000", hx([]byte("0x"+hexdigits+"_2")))
			relay("btc", dk, "1000", hx([]byte("0x"+strings.Repeat("cd", 20)+"_"+strings.Repeat("0", L-1)+"2")))
		}
	}
	// field lengths exactly at the generic handler's field maxima
	{
		sig := g.Bytes(65535)
		m := g.Bytes(255)
		fee := w32u(500000)
		cd := cat(fee, u16(len(sig)), sig, []byte{255}, m, []byte{255}, m, []byte{1})
		relay("generic", "evm", hx(cd), "-")
	}
	for _, n := range longCounts(g) {
		xs, enc := ints(n)
		one, oneEnc := ints(1)
		rc := cat(w32u(20), padTo32(addr))
		td := cat(w32u(2), padTo32([]byte{7, 7}))
		head := func(p0, p1, p2 []byte) []byte {
			return cat(w32u(128), w32u(uint64(128+len(p0))), w32u(uint64(128+len(p0)+len(p1))), w32u(uint64(128+len(p0)+len(p1)+len(p2))))
		}
		relay("erc1155", "evm", hx(cat(head(enc, enc, rc), enc, enc, rc, td)), "-")
		relay("erc1155", "evm", hx(cat(head(enc, oneEnc, rc), enc, oneEnc, rc, td)), "-")
		msg("evm", "semiFungible", xs+";"+xs+";"+b(addr)+";"+b([]byte{7, 7}), "n")
		msg("evm", "semiFungible", one+";"+xs+";"+b(addr)+";"+b([]byte{7, 7}), "n")
	}
	// Bitcoin destination ids written with leading zeros — every value whose digits could be read in another base
	for _, dd := range []string{"010", "0100", "08", "09", "017", "0255", "00010", "0377", "01", "000"} {
		for _, dk := range []string{"evm", "btc"} {
			relay("btc", dk, "1000", hx([]byte("0x"+strings.Repeat("cd", 20)+"_"+dd)))
			relay("btc", dk, "1000", hx([]byte(strings.Repeat("AB", 20)+"_"+dd)))
		}
	}
	// bytes after the last length-delimited field are not part of the deposit: recipient padded to a word, stray bytes
	// (Substrate fungible, ERC721), for every destination
	for _, rl := range []int{20, 32, 1, 33} {
		r := g.Bytes(rl)
		for _, tail := range [][]byte{make([]byte, (32-rl%32)%32), g.Bytes(1), g.Bytes(32), g.Bytes(33), g.Bytes(100)} {
			if rl+len(tail) < 20 {
				continue
			}
			for _, dk := range []string{"evm", "sub", "btc"} {
				relay("sub", dk, hx(cat(amount, w32u(uint64(rl)), r, tail)), "0")
			}
			relay("erc721", "evm", hx(cat(amount, w32u(uint64(rl)), r, w32u(3), []byte{1, 2, 3}, tail)), "-")
			relay("erc721", "sub", hx(cat(amount, w32u(uint64(rl)), r, w32u(0), tail)), "-")
		}
	}
	// a converted amount of exactly zero replaces the calldata amount
	for _, dk := range []string{"evm", "sub", "btc"} {
		relay("erc20", dk, hx(cat(amount, w32u(20), addr)), hx(make([]byte, 32)))
		relay("erc20", dk, hx(cat(amount, w32u(20), addr)), hx(make([]byte, 64)))
	}
	relay("erc20", "evm", hx(cat(amount, w32u(20), addr, fee, []byte{1})), hx(make([]byte, 32)))
	// Bitcoin recipients are case-sensitive text and travel byte for byte (base58 / bech32, surrounding blanks)
	for _, r := range []string{"mkHS9ne12qx9pS9VojpwU5xtRd4T7X7ZUt", "1BvBMSEYstWetqTFn5Au4m4GFg7xJaNVN2", "tb1pdf5c3q35ssem2l25n435fa69qr7dzwkc6gsqehuflr3euh905l2slafjvv",
		" mkHS9ne12qx9pS9VojpwU5xtRd4T7X7ZUt", "mkHS9ne12qx9pS9VojpwU5xtRd4T7X7ZUt\n", "\tBC1QW508D6QEJXTDG4Y5R3ZARVARY0C5XW7KV8F3T4 ", "ABCDEFGHIJKLMNOPQRSTUVWXYZ"} {
		relay("erc20", "btc", hx(cat(amount, w32u(uint64(len(r))), []byte(r))), "-")
		relay("sub", "btc", hx(cat(amount, w32u(uint64(len(r))), []byte(r))), "0")
		msg("btc", "fungible", b(amount)+";"+b([]byte(r)), "n")
	}
}
