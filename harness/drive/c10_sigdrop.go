package main

// C09 (uses the C10 world: real signing processes) — a signing that has produced its signature while nobody takes it
// from the result channel any more (the executor's watcher has already returned), then the caller's cancellation.

import (
	"context"
	"fmt"
	"time"

	"github.com/ChainSafe/sygma-relayer/tss"
)

// C09.sigdrop <esigning|fsigning>   two relayers really sign; relayer 0's result channel is unbuffered and never read.
//
//	Once its protocol has finished (the signature is being delivered) the caller cancels the session.
//	=> <Execute returned ok|err>,live=<subscriptions of the session still registered>,pend=<0|1>  |  hang
func c9sigdropRun(a []string) string {
	kind := a[0]
	w := newC10World(2, true)
	defer w.close()
	sid := w.sidWithCoordinator("g", 1)
	ctx0, cancel0 := context.WithCancel(context.Background())
	defer cancel0()
	ctx1, cancel1 := context.WithCancel(context.Background())
	defer cancel1()
	rets := []chan error{make(chan error, 1), make(chan error, 1)}
	var under interface{ VerifPhase() int }
	for i := 0; i < 2; i++ {
		nd := w.nodes[i]
		nd.coord.InitiatePeriod = 200 * time.Millisecond
		proc, _, ok := w.mk(kind, nd, sid, 1)
		if !ok {
			return "ctorerr"
		}
		ctx, res := ctx1, make(chan interface{}, 4)
		if i == 0 {
			under = proc.(interface{ VerifPhase() int })
			ctx, res = ctx0, make(chan interface{}) // nobody will ever receive from it
		}
		i := i
		go func() { rets[i] <- nd.coord.Execute(ctx, []tss.TssProcess{proc}, res) }()
	}
	// finished = it has been seen running and is in no round any more
	if !waitUntil(60*time.Second, func() bool { return under.VerifPhase() == 1 }) ||
		!waitUntil(60*time.Second, func() bool { return under.VerifPhase() == 2 }) {
		return "hang-setup"
	}
	time.Sleep(20 * time.Millisecond)
	cancel0()
	nd := w.nodes[0]
	r := "hang"
	select {
	case err := <-rets[0]:
		r = c10ret(err)
	case <-time.After(c9wait):
		return "hang"
	}
	cancel1()
	select {
	case <-rets[1]:
	case <-time.After(c9wait + 12*time.Second):
	}
	pend := 0
	if nd.coord.VerifPending(sid) {
		pend = 1
	}
	return fmt.Sprintf("%s,live=%d,pend=%d", r, nd.ledger.inner.VerifLiveSubscriptions(sid), pend)
}

func c9sigdrop(a []string) string {
	if c9RegistriesUnsafe.Load() {
		return c9skipped
	}
	return c10cached("sigdrop", c9sigdropRun, a)
}

func init() {
	ops["C09.sigdrop"] = c9sigdrop
}
