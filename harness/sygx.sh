#!/bin/bash
# Runs the translator for one property (or `all`) against the repository's current working tree.
set -e
V=${VERIF_ROOT:-/verif}
. $V/harness/env.sh
cd $V/harness/sygx
mkdir -p $V/harness/bin
go build -o $V/harness/bin/sygx . 
exec $V/harness/bin/sygx "$@"
