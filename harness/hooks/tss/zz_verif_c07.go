//go:build verif

package tss

import (
	"context"

	"github.com/libp2p/go-libp2p/core/peer"
)

// Accessors used by the C07/C11 correspondence driver (injected through the build overlay).

// VerifC07Initiate calls the unexported initiate.
func (c *Coordinator) VerifC07Initiate(ctx context.Context, ps []TssProcess, resultChn chan interface{}, excluded []peer.ID) error {
	return c.initiate(ctx, ps, resultChn, excluded)
}

// VerifC07WaitForStart calls the unexported waitForStart with the coordinator's own CoordinatorTimeout.
func (c *Coordinator) VerifC07WaitForStart(ctx context.Context, ps []TssProcess, resultChn chan interface{}, coordinator peer.ID) error {
	return c.waitForStart(ctx, ps, resultChn, coordinator, c.CoordinatorTimeout)
}

// VerifC11HandleError calls the unexported handleError.
func (c *Coordinator) VerifC11HandleError(ctx context.Context, err error, ps []TssProcess, resultChn chan interface{}) error {
	return c.handleError(ctx, err, ps, resultChn)
}
