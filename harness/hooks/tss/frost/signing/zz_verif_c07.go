//go:build verif

package signing

import (
	"github.com/ChainSafe/sygma-relayer/comm"
	"github.com/ChainSafe/sygma-relayer/keyshare"
	"github.com/ChainSafe/sygma-relayer/tss/frost/common"
	"github.com/libp2p/go-libp2p/core/host"
	"github.com/libp2p/go-libp2p/core/peer"
	"github.com/rs/zerolog"
)

// VerifC07NewSigning builds a FROST Signing over a key share that only carries committee and threshold.
func VerifC07NewSigning(sessionID string, h host.Host, c comm.Communication, peers []peer.ID, threshold int) *Signing {
	return &Signing{
		BaseFrostTss: common.BaseFrostTss{
			Host: h, Communication: c, Peers: peers, SID: sessionID, Log: zerolog.Nop(), Cancel: func() {}, Done: make(chan bool),
		},
		key: keyshare.FrostKeyshare{Threshold: threshold, Peers: peers},
	}
}
