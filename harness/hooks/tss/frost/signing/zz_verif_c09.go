//go:build verif

package signing

// VerifPhase: 0 = no protocol handler yet, 1 = running, 2 = the handler has produced its result.
func (s *Signing) VerifPhase() int {
	if s.Handler == nil {
		return 0
	}
	if _, err := s.Handler.Result(); err == nil {
		return 2
	}
	return 1
}
