//go:build verif

package signing

import "github.com/ChainSafe/sygma-relayer/keyshare"

// VerifKey returns the key share the signing process will sign with (after NewSigning applied the tweak).
func (s *Signing) VerifKey() keyshare.FrostKeyshare { return s.key }
