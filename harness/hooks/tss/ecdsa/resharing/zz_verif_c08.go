//go:build verif

package resharing

import (
	"github.com/binance-chain/tss-lib/tss"
	"github.com/libp2p/go-libp2p/core/peer"
)

// VerifSortParties calls the unexported sortParties.
func VerifSortParties(parties tss.SortedPartyIDs, oldParties tss.SortedPartyIDs) tss.SortedPartyIDs {
	return (&Resharing{}).sortParties(parties, oldParties)
}

// VerifUnmarshallStartParams calls the unexported unmarshallStartParams (JSON decoding + validateStartParams).
func (r *Resharing) VerifUnmarshallStartParams(b []byte) (int, []peer.ID, error) {
	p, err := r.unmarshallStartParams(b)
	return p.OldThreshold, p.OldSubset, err
}
