//go:build verif

package resharing

import (
	"context"

	"github.com/binance-chain/tss-lib/ecdsa/keygen"
	"github.com/binance-chain/tss-lib/tss"
	"github.com/libp2p/go-libp2p/core/peer"
)

// VerifSortParties calls the unexported sortParties.
func VerifSortParties(parties tss.SortedPartyIDs, oldParties tss.SortedPartyIDs) tss.SortedPartyIDs {
	return (&Resharing{}).sortParties(parties, oldParties)
}

// VerifUnmarshallStartParams calls the unexported unmarshallStartParams (JSON decoding + validateStartParams).
func (r *Resharing) VerifUnmarshallStartParams(b []byte) (int, []peer.ID, error) {
	p, err := r.unmarshallStartParams(b)
	return p.OldThreshold, p.OldSubset, err
}

// VerifProcessEnd runs the real processEndMessage with one refreshed key waiting on the end channel (what the library
// delivers when the protocol completes): the share is handed to the process's storer.
func (r *Resharing) VerifProcessEnd(key keygen.LocalPartySaveData) error {
	endChn := make(chan keygen.LocalPartySaveData, 1)
	endChn <- key
	return r.processEndMessage(context.Background(), endChn)
}
