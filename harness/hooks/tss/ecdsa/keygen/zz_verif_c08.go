//go:build verif

package keygen

import (
	"context"

	"github.com/binance-chain/tss-lib/ecdsa/keygen"
)

// VerifProcessEnd runs the real processEndMessage with one generated key waiting on the end channel.
func (k *Keygen) VerifProcessEnd(key keygen.LocalPartySaveData) error {
	endChn := make(chan keygen.LocalPartySaveData, 1)
	endChn <- key
	return k.processEndMessage(context.Background(), endChn)
}
