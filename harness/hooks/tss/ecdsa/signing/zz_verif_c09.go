//go:build verif

package signing

// VerifPhase: 0 = the party has not been created, 1 = created and in a round (running), 2 = created and in no round
// (not started yet, or finished: the signature has been handed to processEndMessage).
func (s *Signing) VerifPhase() int {
	if s.Party == nil {
		return 0
	}
	if r, ok := s.Party.(interface{ Running() bool }); ok && r.Running() {
		return 1
	}
	return 2
}
