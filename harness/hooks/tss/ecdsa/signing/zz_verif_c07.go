//go:build verif

package signing

import (
	"github.com/ChainSafe/sygma-relayer/comm"
	"github.com/ChainSafe/sygma-relayer/keyshare"
	"github.com/ChainSafe/sygma-relayer/tss/ecdsa/common"
	"github.com/libp2p/go-libp2p/core/host"
	"github.com/libp2p/go-libp2p/core/peer"
	"github.com/rs/zerolog"
)

// VerifC07NewSigning builds a Signing over a key share that only carries committee and threshold
// (Ready / StartParams / ValidCoordinators / SessionID read nothing else).
func VerifC07NewSigning(sessionID string, h host.Host, c comm.Communication, peers []peer.ID, threshold int) *Signing {
	return &Signing{
		BaseTss: common.BaseTss{
			Host: h, Communication: c, Peers: peers, SID: sessionID, Log: zerolog.Nop(), Cancel: func() {},
		},
		key: keyshare.ECDSAKeyshare{Threshold: threshold, Peers: peers},
	}
}
