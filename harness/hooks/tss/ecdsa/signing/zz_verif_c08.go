//go:build verif

package signing

import (
	"context"

	tssCommon "github.com/binance-chain/tss-lib/common"
	"github.com/rs/zerolog"
)

// VerifProcessEnd runs the real processEndMessage of a Signing whose coordinator flag is as given, with one
// signature waiting on the end channel, and returns what reached the result channel (delivered=false: nothing).
func VerifProcessEnd(coordinator bool, sig tssCommon.SignatureData) (res interface{}, delivered bool, err error) {
	s := &Signing{coordinator: coordinator, resultChn: make(chan interface{}, 1)}
	s.Cancel = func() {}
	s.Log = zerolog.Nop()
	endChn := make(chan tssCommon.SignatureData, 1)
	endChn <- sig
	err = s.processEndMessage(context.Background(), endChn)
	select {
	case r := <-s.resultChn:
		return r, true, err
	default:
		return nil, false, err
	}
}

// VerifEndOn runs the real processEndMessage of s — as its last Run left it (coordinator flag, result channel) — with
// one signature waiting on the end channel, and returns what reached the result channel.
func (s *Signing) VerifEndOn(sig tssCommon.SignatureData) (res interface{}, delivered bool, err error) {
	if s.resultChn == nil {
		return nil, false, nil
	}
	endChn := make(chan tssCommon.SignatureData, 1)
	endChn <- sig
	err = s.processEndMessage(context.Background(), endChn)
	select {
	case r := <-s.resultChn:
		return r, true, err
	default:
		return nil, false, err
	}
}
