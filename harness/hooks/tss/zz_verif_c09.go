//go:build verif

package tss

// VerifPending reports (under processLock) whether the coordinator regards the session as pending.
func (c *Coordinator) VerifPending(sessionID string) bool {
	c.processLock.Lock()
	defer c.processLock.Unlock()
	return c.pendingProcesses[sessionID]
}

// VerifHoldProcessLock takes the coordinator's processLock and returns the function that gives it back.
func (c *Coordinator) VerifHoldProcessLock() func() {
	c.processLock.Lock()
	return func() { c.processLock.Unlock() }
}
