//go:build verif

package tss

// VerifPending reports (under processLock) whether the coordinator regards the session as pending.
func (c *Coordinator) VerifPending(sessionID string) bool {
	c.processLock.Lock()
	defer c.processLock.Unlock()
	return c.pendingProcesses[sessionID]
}
