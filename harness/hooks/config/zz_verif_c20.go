//go:build verif

package config

// VerifProcessRawConfig calls the unexported processRawConfig (defaults, relayer parsing, local-over-shared merge).
func VerifProcessRawConfig(raw RawConfig, shared *Config) (*Config, error) {
	return processRawConfig(raw, shared)
}
