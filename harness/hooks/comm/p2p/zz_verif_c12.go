//go:build verif

package p2p

import (
	comm "github.com/ChainSafe/sygma-relayer/comm"
)

// VerifSub is one retained leaf entry of subscribersMap.
type VerifSub struct {
	Session string
	Type    comm.MessageType
	Key     string
	Ch      chan *comm.WrappedMessage
}

// VerifDump lists every retained (session, type, key, channel) entry of the unexported subscribersMap.
func (ms *SessionSubscriptionManager) VerifDump() []VerifSub {
	ms.lock.Lock()
	defer ms.lock.Unlock()
	out := []VerifSub{}
	for s, byType := range ms.subscribersMap {
		for t, byKey := range byType {
			for k, ch := range byKey {
				out = append(out, VerifSub{Session: s, Type: t, Key: k, Ch: ch})
			}
		}
	}
	return out
}
