//go:build verif

package p2p

import (
	"github.com/libp2p/go-libp2p/core/network"
	"github.com/libp2p/go-libp2p/core/peer"
)

// VerifNewCommunication builds a Libp2pCommunication without a libp2p host: the real subscription manager and the
// real stream manager (the host is only used by Broadcast / NewCommunication's stream handler registration).
func VerifNewCommunication() Libp2pCommunication {
	return Libp2pCommunication{
		SessionSubscriptionManager: NewSessionSubscriptionManager(),
		streamManager:              NewStreamManager(),
	}
}

// VerifAddStream registers an outbound stream of a session, as sendMessage does.
func (c Libp2pCommunication) VerifAddStream(sessionID string, p peer.ID, s network.Stream) {
	c.streamManager.AddStream(sessionID, p, s)
}
