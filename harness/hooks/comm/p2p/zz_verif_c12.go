//go:build verif

package p2p

import (
	comm "github.com/ChainSafe/sygma-relayer/comm"
	"github.com/libp2p/go-libp2p/core/network"
	"github.com/libp2p/go-libp2p/core/peer"
)

// VerifNewCommunication builds a Libp2pCommunication without a libp2p host: the real subscription manager and the
// real stream manager (the host is only used by Broadcast / NewCommunication's stream handler registration).
func VerifNewCommunication() Libp2pCommunication {
	return Libp2pCommunication{
		SessionSubscriptionManager: NewSessionSubscriptionManager(),
		streamManager:              NewStreamManager(),
	}
}

// VerifAddStream registers an outbound stream of a session, as sendMessage does.
func (c Libp2pCommunication) VerifAddStream(sessionID string, p peer.ID, s network.Stream) {
	c.streamManager.AddStream(sessionID, p, s)
}

// VerifSub is one retained leaf entry of subscribersMap.
type VerifSub struct {
	Session string
	Type    comm.MessageType
	Key     string
	Ch      chan *comm.WrappedMessage
}

// VerifDump lists every retained (session, type, key, channel) entry of the unexported subscribersMap.
func (ms *SessionSubscriptionManager) VerifDump() []VerifSub {
	ms.lock.Lock()
	defer ms.lock.Unlock()
	out := []VerifSub{}
	for s, byType := range ms.subscribersMap {
		for t, byKey := range byType {
			for k, ch := range byKey {
				out = append(out, VerifSub{Session: s, Type: t, Key: k, Ch: ch})
			}
		}
	}
	return out
}
