//go:build verif

package p2p

// VerifLiveSubscriptions counts the subscriptions the manager still holds for a session (all message types).
func (c Libp2pCommunication) VerifLiveSubscriptions(sessionID string) int {
	c.lock.Lock()
	defer c.lock.Unlock()
	n := 0
	for _, m := range c.subscribersMap[sessionID] {
		n += len(m)
	}
	return n
}

// VerifStreamCount counts the streams the stream manager still holds for a session.
func (c Libp2pCommunication) VerifStreamCount(sessionID string) int {
	c.streamManager.streamLocker.Lock()
	defer c.streamManager.streamLocker.Unlock()
	return len(c.streamManager.streamsBySessionID[sessionID])
}

// VerifHoldSubscriptionLock takes the subscription manager's lock and returns the function that gives it back.
func (c Libp2pCommunication) VerifHoldSubscriptionLock() func() {
	c.lock.Lock()
	return func() { c.lock.Unlock() }
}

// VerifHoldStreamLock takes the stream manager's lock and returns the function that gives it back.
func (c Libp2pCommunication) VerifHoldStreamLock() func() {
	c.streamManager.streamLocker.Lock()
	return func() { c.streamManager.streamLocker.Unlock() }
}
