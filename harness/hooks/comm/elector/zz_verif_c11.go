//go:build verif

package elector

import (
	"github.com/ChainSafe/sygma-relayer/comm"
	"github.com/ChainSafe/sygma-relayer/config/relayer"
	"github.com/libp2p/go-libp2p/core/host"
)

// VerifC11NewFactory builds the elector factory over an arbitrary Communication
// (the stock constructor hard-wires a libp2p stream transport).
func VerifC11NewFactory(h host.Host, c comm.Communication, cfg relayer.BullyConfig) *CoordinatorElectorFactory {
	return &CoordinatorElectorFactory{h: h, comm: c, config: cfg}
}
