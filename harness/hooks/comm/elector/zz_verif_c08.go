//go:build verif

package elector

import (
	"github.com/ChainSafe/sygma-relayer/comm"
	"github.com/libp2p/go-libp2p/core/host"
)

// VerifC08Factory builds a CoordinatorElectorFactory over an arbitrary Communication (the exported constructor opens a
// libp2p stream handler on the host).
func VerifC08Factory(h host.Host, c comm.Communication) *CoordinatorElectorFactory {
	return &CoordinatorElectorFactory{h: h, comm: c}
}
