//go:build verif

package elector

import "github.com/ChainSafe/sygma-relayer/comm"

// VerifC09Comm exposes the communication the factory's electors subscribe on and broadcast through.
func (c *CoordinatorElectorFactory) VerifC09Comm() comm.Communication { return c.comm }
