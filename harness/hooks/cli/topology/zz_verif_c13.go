//go:build verif

package topology

// VerifC13Encrypt runs the unexported `encrypt` command body on a topology file with a key (prints to os.Stdout).
func VerifC13Encrypt(p, key string) error {
	path = p
	encryptionKey = key
	return encryptTopology(nil, nil)
}
