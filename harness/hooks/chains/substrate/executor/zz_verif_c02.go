//go:build verif

package executor

import (
	"github.com/ChainSafe/sygma-relayer/relayer/transfer"
	"github.com/binance-chain/tss-lib/common"
)

// VerifC02ExecuteProposal calls the unexported executeProposal (signature assembly + submission to the pallet).
func (e *Executor) VerifC02ExecuteProposal(ps []*transfer.TransferProposal, sig *common.SignatureData) error {
	_, _, err := e.executeProposal(ps, sig)
	return err
}
