//go:build verif

package executor

import (
	"context"
	"time"

	"github.com/ChainSafe/sygma-relayer/relayer/transfer"
	"github.com/binance-chain/tss-lib/common"
)

// VerifC02ExecuteProposal calls the unexported executeProposal (signature assembly + submission to the pallet).
func (e *Executor) VerifC02ExecuteProposal(ps []*transfer.TransferProposal, sig *common.SignatureData) error {
	_, _, err := e.executeProposal(ps, sig)
	return err
}

// VerifC02WatchExecution runs the unexported watch loop on the caller's slice (no copy).
func (e *Executor) VerifC02WatchExecution(ctx context.Context, cancel context.CancelFunc, ps []*transfer.TransferProposal,
	sigChn chan interface{}, sessionID string) error {
	return e.watchExecution(ctx, cancel, ps, sigChn, sessionID)
}

// VerifC02SetCheckPeriod replaces the period of the "already executed?" poll and returns the previous one.
func VerifC02SetCheckPeriod(d time.Duration) time.Duration {
	old := executionCheckPeriod
	executionCheckPeriod = d
	return old
}
