//go:build verif

package executor

import (
	"context"

	"github.com/ChainSafe/sygma-relayer/relayer/transfer"
)

// VerifC03WatchExecution calls the unexported watchExecution.
func (e *Executor) VerifC03WatchExecution(ctx context.Context, cancel context.CancelFunc, ps []*transfer.TransferProposal,
	sigChn chan interface{}, sessionID string) error {
	return e.watchExecution(ctx, cancel, ps, sigChn, sessionID)
}
