//go:build verif

package executor

import (
	"context"
	"time"

	"github.com/ChainSafe/sygma-relayer/store"
	"github.com/btcsuite/btcd/wire"
	"github.com/sygmaprotocol/sygma-core/relayer/proposal"
)

// VerifC17MutexFree reports whether propMutex is free right now (TryLock; no timing involved).
func (e *Executor) VerifC17MutexFree() bool {
	if e.propMutex.TryLock() {
		e.propMutex.Unlock()
		return true
	}
	return false
}

// VerifC17ProposalsForExecution calls the unexported proposalsForExecution.
func (e *Executor) VerifC17ProposalsForExecution(ps []*proposal.Proposal, messageID string) ([]*BtcTransferProposal, error) {
	return e.proposalsForExecution(ps, messageID)
}

// VerifC17StoreProposalsStatus calls the unexported storeProposalsStatus (what watchExecution does with the
// outcome of sendTx).
func (e *Executor) VerifC17StoreProposalsStatus(ps []*BtcTransferProposal, st store.PropStatus) {
	e.storeProposalsStatus(ps, st)
}

// VerifC17WatchExecution calls the unexported watchExecution (collect signatures, send the transaction, record
// the outcome for the proposals).
func (e *Executor) VerifC17WatchExecution(ctx context.Context, cancel context.CancelFunc, tx *wire.MsgTx,
	props []*BtcTransferProposal, sigChn chan interface{}, sessionID, messageID string) error {
	return e.watchExecution(ctx, cancel, tx, props, sigChn, sessionID, messageID)
}

// VerifC17SetSigningTimeout sets the package variable signingTimeout and returns the previous value.
func VerifC17SetSigningTimeout(d time.Duration) time.Duration {
	old := signingTimeout
	signingTimeout = d
	return old
}
