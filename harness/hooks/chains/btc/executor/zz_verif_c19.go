//go:build verif

package executor

import "time"

// VerifC19SetSigningTimeout shortens the time watchExecution waits for signatures (a package variable), so that an
// Execute whose signing cannot complete in the harness returns instead of waiting for 30 minutes.
func VerifC19SetSigningTimeout(d time.Duration) time.Duration {
	old := signingTimeout
	signingTimeout = d
	return old
}
