//go:build verif

package executor

import (
	"github.com/ChainSafe/sygma-relayer/chains/btc/config"
	"github.com/ChainSafe/sygma-relayer/chains/btc/mempool"
	"github.com/ChainSafe/sygma-relayer/store"
	"github.com/btcsuite/btcd/wire"
	"github.com/sygmaprotocol/sygma-core/relayer/proposal"
)

// VerifC16RawTx calls the unexported rawTx.
func (e *Executor) VerifC16RawTx(props []*BtcTransferProposal, resource config.Resource) (*wire.MsgTx, []mempool.Utxo, error) {
	return e.rawTx(props, resource)
}

// VerifC16Fee calls the unexported fee.
func (e *Executor) VerifC16Fee(numOfInputs, numOfOutputs uint64) (uint64, error) {
	return e.fee(numOfInputs, numOfOutputs)
}

// VerifC16ProposalsForExecution calls the unexported proposalsForExecution (which proposals of a batch get executed).
func (e *Executor) VerifC16ProposalsForExecution(ps []*proposal.Proposal, messageID string) ([]*BtcTransferProposal, error) {
	return e.proposalsForExecution(ps, messageID)
}

// VerifC16StoreProposalsStatus calls the unexported storeProposalsStatus (what watchExecution records after sending).
func (e *Executor) VerifC16StoreProposalsStatus(ps []*BtcTransferProposal, st store.PropStatus) {
	e.storeProposalsStatus(ps, st)
}
