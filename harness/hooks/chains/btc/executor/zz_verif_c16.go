//go:build verif

package executor

import (
	"github.com/ChainSafe/sygma-relayer/chains/btc/config"
	"github.com/ChainSafe/sygma-relayer/chains/btc/mempool"
	"github.com/btcsuite/btcd/wire"
)

// VerifC16RawTx calls the unexported rawTx.
func (e *Executor) VerifC16RawTx(props []*BtcTransferProposal, resource config.Resource) (*wire.MsgTx, []mempool.Utxo, error) {
	return e.rawTx(props, resource)
}

// VerifC16Fee calls the unexported fee.
func (e *Executor) VerifC16Fee(numOfInputs, numOfOutputs uint64) (uint64, error) {
	return e.fee(numOfInputs, numOfOutputs)
}
