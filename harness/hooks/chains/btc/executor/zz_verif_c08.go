//go:build verif

package executor

import (
	"time"

	"github.com/ChainSafe/sygma-relayer/chains/btc/config"
)

// VerifC08ExecuteResourceProps calls the unexported executeResourceProps (build the transaction, start one signing
// session per input through the coordinator, wait for the signatures).
func (e *Executor) VerifC08ExecuteResourceProps(props []*BtcTransferProposal, resource config.Resource, messageID string) error {
	return e.executeResourceProps(props, resource, messageID)
}

// VerifC08SetSigningTimeout shortens the package's 30-minute wait for the signatures; returns the previous value.
func VerifC08SetSigningTimeout(d time.Duration) time.Duration {
	old := signingTimeout
	signingTimeout = d
	return old
}
