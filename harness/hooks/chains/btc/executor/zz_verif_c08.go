//go:build verif

package executor

import (
	"context"
	"time"

	"github.com/ChainSafe/sygma-relayer/chains/btc/config"
	"github.com/ChainSafe/sygma-relayer/chains/btc/mempool"
	"github.com/btcsuite/btcd/wire"
)

// VerifC08RawTx calls the unexported rawTx.
func (e *Executor) VerifC08RawTx(props []*BtcTransferProposal, resource config.Resource) (*wire.MsgTx, []mempool.Utxo, error) {
	return e.rawTx(props, resource)
}

// VerifC08WatchExecution calls the unexported watchExecution (collect the per-input signatures from the channel, attach
// them to the transaction and submit it).
func (e *Executor) VerifC08WatchExecution(ctx context.Context, cancel context.CancelFunc, tx *wire.MsgTx,
	props []*BtcTransferProposal, sigChn chan interface{}, sessionID, messageID string) error {
	return e.watchExecution(ctx, cancel, tx, props, sigChn, sessionID, messageID)
}

// VerifC08ExecuteResourceProps calls the unexported executeResourceProps (build the transaction, start one signing
// session per input through the coordinator, wait for the signatures).
func (e *Executor) VerifC08ExecuteResourceProps(props []*BtcTransferProposal, resource config.Resource, messageID string) error {
	return e.executeResourceProps(props, resource, messageID)
}

// VerifC08SetSigningTimeout shortens the package's 30-minute wait for the signatures; returns the previous value.
func VerifC08SetSigningTimeout(d time.Duration) time.Duration {
	old := signingTimeout
	signingTimeout = d
	return old
}
