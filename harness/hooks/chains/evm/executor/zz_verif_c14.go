//go:build verif

package executor

import (
	"github.com/ChainSafe/sygma-relayer/relayer/transfer"
	"github.com/binance-chain/tss-lib/common"
	ethCommon "github.com/ethereum/go-ethereum/common"
	"github.com/sygmaprotocol/sygma-core/relayer/proposal"
)

// VerifBatch is the exported view of a Batch.
type VerifBatch struct {
	Proposals []*transfer.TransferProposal
	GasLimit  uint64
}

// VerifProposalBatches calls the unexported proposalBatches.
func (e *Executor) VerifProposalBatches(ps []*proposal.Proposal) ([]VerifBatch, error) {
	bs, err := e.proposalBatches(ps)
	if err != nil {
		return nil, err
	}
	out := make([]VerifBatch, len(bs))
	for i, b := range bs {
		out[i] = VerifBatch{Proposals: b.proposals, GasLimit: b.gasLimit}
	}
	return out, nil
}

// VerifExecuteBatch calls the unexported executeBatch.
func (e *Executor) VerifExecuteBatch(ps []*transfer.TransferProposal, gas uint64, sig *common.SignatureData) (*ethCommon.Hash, error) {
	return e.executeBatch(&Batch{proposals: ps, gasLimit: gas}, sig)
}
