//go:build verif

package executor

import (
	"context"
	"time"

	"github.com/ChainSafe/sygma-relayer/relayer/transfer"
)

// VerifC03WatchExecution calls the unexported watchExecution on a batch made of the given proposals.
func (e *Executor) VerifC03WatchExecution(ctx context.Context, cancel context.CancelFunc, ps []*transfer.TransferProposal,
	gas uint64, sigChn chan interface{}, sessionID, messageID string) error {
	return e.watchExecution(ctx, cancel, &Batch{proposals: ps, gasLimit: gas}, sigChn, sessionID, messageID)
}

// VerifC03AreProposalsExecuted calls the unexported tick decision of watchExecution.
func (e *Executor) VerifC03AreProposalsExecuted(ps []*transfer.TransferProposal) bool {
	return e.areProposalsExecuted(ps)
}

// VerifC03SetCheckPeriod sets the package variable executionCheckPeriod and returns the previous value.
func VerifC03SetCheckPeriod(d time.Duration) time.Duration {
	old := executionCheckPeriod
	executionCheckPeriod = d
	return old
}
