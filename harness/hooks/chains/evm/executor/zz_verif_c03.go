//go:build verif

package executor

import (
	"context"

	"github.com/ChainSafe/sygma-relayer/relayer/transfer"
)

// VerifC03WatchExecution calls the unexported watchExecution on a batch made of the given proposals.
func (e *Executor) VerifC03WatchExecution(ctx context.Context, cancel context.CancelFunc, ps []*transfer.TransferProposal,
	gas uint64, sigChn chan interface{}, sessionID, messageID string) error {
	return e.watchExecution(ctx, cancel, &Batch{proposals: ps, gasLimit: gas}, sigChn, sessionID, messageID)
}
