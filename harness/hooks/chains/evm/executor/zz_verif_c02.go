//go:build verif

package executor

import (
	"context"
	"time"

	"github.com/ChainSafe/sygma-relayer/relayer/transfer"
	"github.com/binance-chain/tss-lib/common"
)

// VerifC02ExecuteBatch calls the unexported executeBatch (signature assembly + submission to the bridge).
func (e *Executor) VerifC02ExecuteBatch(ps []*transfer.TransferProposal, gas uint64, sig *common.SignatureData) error {
	_, err := e.executeBatch(&Batch{proposals: ps, gasLimit: gas}, sig)
	return err
}

// VerifC02WatchExecution runs the unexported watch loop on a batch made of the caller's slice (no copy).
func (e *Executor) VerifC02WatchExecution(ctx context.Context, cancel context.CancelFunc, ps []*transfer.TransferProposal, gas uint64,
	sigChn chan interface{}, sessionID, messageID string) error {
	return e.watchExecution(ctx, cancel, &Batch{proposals: ps, gasLimit: gas}, sigChn, sessionID, messageID)
}

// VerifC02SetCheckPeriod replaces the period of the "already executed?" poll and returns the previous one.
func VerifC02SetCheckPeriod(d time.Duration) time.Duration {
	old := executionCheckPeriod
	executionCheckPeriod = d
	return old
}
