//go:build verif

package executor

import (
	"github.com/ChainSafe/sygma-relayer/relayer/transfer"
	"github.com/binance-chain/tss-lib/common"
)

// VerifC02ExecuteBatch calls the unexported executeBatch (signature assembly + submission to the bridge).
func (e *Executor) VerifC02ExecuteBatch(ps []*transfer.TransferProposal, gas uint64, sig *common.SignatureData) error {
	_, err := e.executeBatch(&Batch{proposals: ps, gasLimit: gas}, sig)
	return err
}
