module sygx

go 1.21
