package main

import (
	"go/ast"
	"go/token"
	"strconv"
	"strings"
)

func c06itoa(i int) string { return strconv.Itoa(i) }

// C06: structural facts that one comparison or one missing `defer` decides.
//   - for each of the five loops: is every `….HandleDeposit(…)` call lexically inside a function literal that (a) is called
//     once per item from inside a `for … range` body and (b) starts with `defer func() { … recover() … }()` ?
//   - RetryV1: does the error branch right after `msg, err := ….HandleDeposit(…)` mention `msg` (nil there)?
//   - events.Listener.parseDeposit: the bound N of the guard `len(dl.Topics) < N` that precedes `dl.Topics[1]`
func init() {
	extractors["C06"] = func(o *Out) {
		type site struct{ file, recv, fn, label string }
		sites := []site{
			{"chains/evm/listener/eventHandlers/deposit.go", "DepositEventHandler", "ProcessDeposits", "evm.ProcessDeposits"},
			{"chains/evm/listener/eventHandlers/retry.go", "RetryV1EventHandler", "HandleEvents", "evm.RetryV1"},
			{"chains/substrate/listener/event-handlers.go", "FungibleTransferEventHandler", "ProcessDeposits", "substrate.ProcessDeposits"},
			{"chains/substrate/listener/event-handlers.go", "RetryEventHandler", "HandleEvents", "substrate.Retry"},
			{"chains/btc/listener/event-handlers.go", "FungibleTransferEventHandler", "ProcessDeposits", "btc.ProcessDeposits"},
		}
		rows := []string{}
		for _, s := range sites {
			fd := FindFunc(o.ParseFile(s.file), s.recv, s.fn)
			calls, isolated, innerLoops := 0, 0, 0
			if fd != nil {
				// stack-based walk: remember enclosing nodes
				var stack []ast.Node
				ast.Inspect(fd.Body, func(n ast.Node) bool {
					if n == nil {
						stack = stack[:len(stack)-1]
						return true
					}
					stack = append(stack, n)
					c, ok := n.(*ast.CallExpr)
					if !ok {
						return true
					}
					sel, ok := c.Fun.(*ast.SelectorExpr)
					if !ok || sel.Sel.Name != "HandleDeposit" {
						return true
					}
					calls++
					// innermost enclosing FuncLit
					for i := len(stack) - 1; i >= 0; i-- {
						switch stack[i].(type) {
						case *ast.RangeStmt, *ast.ForStmt:
							innerLoops++ // a loop between the call and its closure: the closure is not per deposit
						}
						fl, ok := stack[i].(*ast.FuncLit)
						if !ok {
							continue
						}
						// (b) first statement is a deferred closure that calls recover()
						rec := false
						if len(fl.Body.List) > 0 {
							if d, ok := fl.Body.List[0].(*ast.DeferStmt); ok {
								Walk(d.Call, func(m ast.Node) bool {
									if cc, ok := m.(*ast.CallExpr); ok && Src(cc.Fun) == "recover" {
										rec = true
									}
									return true
								})
							}
						}
						// (a) the literal is the callee of a call that sits inside a range body, with no other FuncLit between
						perItem := false
						if i >= 1 {
							if call, ok := stack[i-1].(*ast.CallExpr); ok && call.Fun == ast.Expr(fl) {
								for j := i - 2; j >= 0; j-- {
									if _, ok := stack[j].(*ast.FuncLit); ok {
										break
									}
									if _, ok := stack[j].(*ast.RangeStmt); ok {
										perItem = true
										break
									}
								}
							}
						}
						if rec && perItem {
							isolated++
						}
						break
					}
					return true
				})
			}
			o.Facts["isolation:"+s.label] = map[string]int{"HandleDeposit_calls": calls, "inside_recovered_per_item_closure": isolated, "loops_between_call_and_closure": innerLoops}
			ok := "false"
			if calls > 0 && calls == isolated {
				ok = "true"
			}
			rows = append(rows, "("+LeanStr(s.label)+", "+ok+", "+c06itoa(innerLoops)+")")
		}
		o.Lean.WriteString("/-- loop ↦ (every HandleDeposit call sits in a closure, called from a range body, that begins with a deferred recover;\n    number of loops between the call and that closure) -/\n")
		o.Lean.WriteString("def isolated : List (String × Bool × Nat) := [" + strings.Join(rows, ", ") + "]\n\n")

		// RetryV1 error branch
		uses, found := false, false
		fd := FindFunc(o.ParseFile("chains/evm/listener/eventHandlers/retry.go"), "RetryV1EventHandler", "HandleEvents")
		if fd != nil {
			Walk(fd.Body, func(n ast.Node) bool {
				bl, ok := n.(*ast.BlockStmt)
				if !ok {
					return true
				}
				for i, st := range bl.List {
					a, ok := st.(*ast.AssignStmt)
					if !ok || len(a.Lhs) != 2 || len(a.Rhs) != 1 || !strings.Contains(Src(a.Rhs[0]), ".HandleDeposit(") {
						continue
					}
					msgVar := Src(a.Lhs[0])
					if i+1 < len(bl.List) {
						if is, ok := bl.List[i+1].(*ast.IfStmt); ok && Src(is.Cond) == "err != nil" {
							found = true
							Walk(is.Body, func(m ast.Node) bool {
								if id, ok := m.(*ast.Ident); ok && id.Name == msgVar {
									uses = true
								}
								return true
							})
						}
					}
				}
				return true
			})
		}
		o.Facts["retryV1_error_branch_found"] = found
		o.Facts["retryV1_error_branch_mentions_message"] = uses
		o.Lean.WriteString("/-- RetryV1: the `if err != nil` branch after HandleDeposit was found / mentions the (nil) message -/\n")
		o.Lean.WriteString("def retryV1ErrBranchFound : Bool := " + map[bool]string{true: "true", false: "false"}[found] + "\n")
		o.Lean.WriteString("def retryV1ErrBranchUsesMsg : Bool := " + map[bool]string{true: "true", false: "false"}[uses] + "\n\n")

		// parseDeposit topics guard
		guard := "none"
		pd := FindFunc(o.ParseFile("chains/evm/calls/events/listener.go"), "Listener", "parseDeposit")
		if pd != nil {
			seenUse := false
			for _, st := range pd.Body.List {
				if strings.Contains(Src(st), "dl.Topics[1]") {
					seenUse = true
				}
				is, ok := st.(*ast.IfStmt)
				if !ok || seenUse {
					continue
				}
				be, ok := is.Cond.(*ast.BinaryExpr)
				if !ok || be.Op != token.LSS || Src(be.X) != "len(dl.Topics)" {
					continue
				}
				returns := false
				for _, b := range is.Body.List {
					if _, ok := b.(*ast.ReturnStmt); ok {
						returns = true
					}
				}
				if lit, ok := be.Y.(*ast.BasicLit); ok && lit.Kind == token.INT && returns {
					guard = "some " + lit.Value
				}
			}
		}
		o.Facts["parseDeposit_topics_guard"] = guard
		o.Lean.WriteString("/-- `if len(dl.Topics) < N { return … }` before the first `dl.Topics[1]` in parseDeposit -/\n")
		o.Lean.WriteString("def topicsGuard : Option Nat := " + guard + "\n")
	}
}
