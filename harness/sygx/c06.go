package main

import (
	"go/ast"
	"go/token"
	"strconv"
	"strings"
)

func c06itoa(i int) string { return strconv.Itoa(i) }

// C06: structural facts that one comparison or one missing `defer` decides. Anchors are located by SHAPE (no names of
// locals, receivers or unexported helpers); a fact whose anchor has moved out of reach is reported unavailable (`none`).
//
//   iso<Site> : Option (Bool × Nat)   for each of the five loops. The "isolation unit" of a `….HandleDeposit(…)` call is the
//               innermost function literal around it, or — when the call sits in a same-file helper that the anchored
//               function calls from a loop body (one level) — that helper. Bool: every unit begins with
//               `defer … recover() …` and is invoked from inside a loop body of the anchored function; Nat: number of
//               loops between a HandleDeposit call and the beginning of its unit (0: the unit is per deposit).
//               none: no HandleDeposit call reachable in the function or one level of same-file helpers.
//   retryV1ErrUsesMsg : Option Bool   RetryV1: in the unit, the error branch right after `<m>, <e> := ….HandleDeposit(…)`
//               mentions <m> (nil there). none: no such assignment followed by an `if <e> != nil`.
//   topicsGuard : Option Nat          events.Listener.parseDeposit: the largest N such that a guard before the first `X.Topics[1]`
//               returns when `len(X.Topics) < N` (0 when `X.Topics[1]` is read without any such guard). none: no `….Topics[1]`.
func init() {
	extractors["C06"] = func(o *Out) {
		type site struct{ file, recv, fn, def string }
		sites := []site{
			{"chains/evm/listener/eventHandlers/deposit.go", "DepositEventHandler", "ProcessDeposits", "isoEvmProcess"},
			{"chains/evm/listener/eventHandlers/retry.go", "RetryV1EventHandler", "HandleEvents", "isoEvmRetryV1"},
			{"chains/substrate/listener/event-handlers.go", "FungibleTransferEventHandler", "ProcessDeposits", "isoSubProcess"},
			{"chains/substrate/listener/event-handlers.go", "RetryEventHandler", "HandleEvents", "isoSubRetry"},
			{"chains/btc/listener/event-handlers.go", "FungibleTransferEventHandler", "ProcessDeposits", "isoBtcProcess"},
		}
		var retryUnits []*ast.BlockStmt // isolation units of RetryV1 (for the error-branch fact)
		for _, s := range sites {
			f := o.ParseFile(s.file)
			fd := FindFunc(f, s.recv, s.fn)
			calls, good, loops := 0, 0, 0
			var units []*ast.BlockStmt
			if fd != nil {
				c06Scan(f, fd.Body, nil, false, 1, &calls, &good, &loops, &units)
			}
			o.Facts["isolation:"+s.def] = map[string]int{"HandleDeposit_calls": calls, "in_recovered_per_item_unit": good, "loops_between_call_and_unit": loops}
			if calls == 0 {
				o.Unavailable(s.def, "no HandleDeposit call found in "+s.recv+"."+s.fn+" or in a same-file helper it calls from a loop")
			}
			b := "false"
			if calls > 0 && calls == good {
				b = "true"
			}
			o.Lean.WriteString("def " + s.def + " : Option (Bool × Nat) := " + LeanOpt(calls > 0, b+", "+c06itoa(loops)) + "\n")
			if s.def == "isoEvmRetryV1" {
				retryUnits = units
			}
		}
		o.Lean.WriteString("\n")

		// RetryV1 error branch (inside the isolation unit, wherever it lives)
		found, uses := false, false
		for _, u := range retryUnits {
			Walk(u, func(n ast.Node) bool {
				bl, ok := n.(*ast.BlockStmt)
				if !ok {
					return true
				}
				for i, st := range bl.List {
					a, ok := st.(*ast.AssignStmt)
					if !ok || len(a.Lhs) != 2 || len(a.Rhs) != 1 || !c06IsHandleDeposit(a.Rhs[0]) {
						continue
					}
					msgVar, errVar := Src(a.Lhs[0]), Src(a.Lhs[1])
					if i+1 < len(bl.List) {
						if is, ok := bl.List[i+1].(*ast.IfStmt); ok && c06IsNotNil(is.Cond, errVar) {
							found = true
							Walk(is.Body, func(m ast.Node) bool {
								if id, ok := m.(*ast.Ident); ok && id.Name == msgVar {
									uses = true
								}
								return true
							})
						}
					}
				}
				return true
			})
		}
		o.Facts["retryV1_error_branch_found"] = found
		o.Facts["retryV1_error_branch_mentions_message"] = uses
		if !found {
			o.Unavailable("retryV1ErrUsesMsg", "no `<m>, <e> := ….HandleDeposit(…)` followed by `if <e> != nil` in the isolation unit of RetryV1")
		}
		o.Lean.WriteString("def retryV1ErrUsesMsg : Option Bool := " + LeanOpt(found, map[bool]string{true: "true", false: "false"}[uses]) + "\n\n")

		// parseDeposit topics guard, by shape: first `X.Topics[1]`, guards `len(X.Topics) < N` (either spelling) before it that return
		lf := o.ParseFile("chains/evm/calls/events/listener.go")
		consts := c06Consts(lf)
		guard, located := 0, false
		if lf != nil {
			for _, d := range lf.Decls {
				fd, ok := d.(*ast.FuncDecl)
				if !ok || fd.Body == nil || located {
					continue
				}
				subject := ""
				for _, st := range fd.Body.List {
					// does this top-level statement read <subject>.Topics[1] ?
					Walk(st, func(n ast.Node) bool {
						ix, ok := n.(*ast.IndexExpr)
						if ok && subject == "" && Src(ix.Index) == "1" {
							if sel, ok := ix.X.(*ast.SelectorExpr); ok && sel.Sel.Name == "Topics" {
								subject = Src(sel.X)
							}
						}
						return true
					})
					if subject != "" {
						break
					}
				}
				if subject == "" {
					continue
				}
				located = true
				for _, st := range fd.Body.List {
					if strings.Contains(Src(st), subject+".Topics[1]") {
						break
					}
					is, ok := st.(*ast.IfStmt)
					if !ok || is.Init != nil {
						continue
					}
					returns := false
					for _, b := range is.Body.List {
						if _, ok := b.(*ast.ReturnStmt); ok {
							returns = true
						}
					}
					if n, ok := c06LenBelow(is.Cond, "len("+subject+".Topics)", consts); ok && returns && n > guard {
						guard = n
					}
				}
			}
		}
		o.Facts["parseDeposit_topics_guard"] = guard
		if !located {
			o.Unavailable("topicsGuard", "no `<x>.Topics[1]` read found in chains/evm/calls/events/listener.go")
		}
		o.Lean.WriteString("def topicsGuard : Option Nat := " + LeanOpt(located, c06itoa(guard)) + "\n")
	}
}

func c06IsHandleDeposit(e ast.Expr) bool {
	c, ok := e.(*ast.CallExpr)
	if !ok {
		return false
	}
	sel, ok := c.Fun.(*ast.SelectorExpr)
	return ok && sel.Sel.Name == "HandleDeposit"
}

// c06IsNotNil: `v != nil` or `nil != v`
func c06IsNotNil(e ast.Expr, v string) bool {
	if p, ok := e.(*ast.ParenExpr); ok {
		return c06IsNotNil(p.X, v)
	}
	be, ok := e.(*ast.BinaryExpr)
	if !ok || be.Op != token.NEQ {
		return false
	}
	return (Src(be.X) == v && Src(be.Y) == "nil") || (Src(be.Y) == v && Src(be.X) == "nil")
}

// c06Consts: package-level integer constants of a file
func c06Consts(f *ast.File) map[string]int {
	m := map[string]int{}
	if f == nil {
		return m
	}
	for _, d := range f.Decls {
		gd, ok := d.(*ast.GenDecl)
		if !ok || gd.Tok != token.CONST {
			continue
		}
		for _, sp := range gd.Specs {
			vs, ok := sp.(*ast.ValueSpec)
			if !ok {
				continue
			}
			for i, n := range vs.Names {
				if i < len(vs.Values) {
					if lit, ok := vs.Values[i].(*ast.BasicLit); ok && lit.Kind == token.INT {
						if v, err := strconv.Atoi(lit.Value); err == nil {
							m[n.Name] = v
						}
					}
				}
			}
		}
	}
	return m
}

// c06LenBelow: the condition is true exactly when <lenExpr> < N; returns N. Accepts `len < N`, `N > len`, `len <= N-1`, `N-1 >= len`,
// `!(len >= N)`, and a disjunction one of whose disjuncts has such a form.
func c06LenBelow(e ast.Expr, lenExpr string, consts map[string]int) (int, bool) {
	num := func(x ast.Expr) (int, bool) {
		if lit, ok := x.(*ast.BasicLit); ok && lit.Kind == token.INT {
			v, err := strconv.Atoi(lit.Value)
			return v, err == nil
		}
		if id, ok := x.(*ast.Ident); ok {
			v, ok := consts[id.Name]
			return v, ok
		}
		return 0, false
	}
	switch x := e.(type) {
	case *ast.ParenExpr:
		return c06LenBelow(x.X, lenExpr, consts)
	case *ast.UnaryExpr:
		if x.Op == token.NOT {
			if p, ok := x.X.(*ast.ParenExpr); ok {
				if be, ok := p.X.(*ast.BinaryExpr); ok {
					switch {
					case be.Op == token.GEQ && Src(be.X) == lenExpr:
						return num(be.Y)
					case be.Op == token.LEQ && Src(be.Y) == lenExpr:
						return num(be.X)
					}
				}
			}
		}
	case *ast.BinaryExpr:
		switch {
		case x.Op == token.LOR:
			if n, ok := c06LenBelow(x.X, lenExpr, consts); ok {
				return n, true
			}
			return c06LenBelow(x.Y, lenExpr, consts)
		case x.Op == token.LSS && Src(x.X) == lenExpr:
			return num(x.Y)
		case x.Op == token.GTR && Src(x.Y) == lenExpr:
			return num(x.X)
		case x.Op == token.LEQ && Src(x.X) == lenExpr:
			n, ok := num(x.Y)
			return n + 1, ok
		case x.Op == token.GEQ && Src(x.Y) == lenExpr:
			n, ok := num(x.X)
			return n + 1, ok
		}
	}
	return 0, false
}

// c06Scan walks `body` looking for HandleDeposit calls. `unit` is the innermost isolation unit entered so far (a FuncLit body,
// or the body of a helper), `unitOK` whether that unit begins with a deferred recover and was invoked from a loop body.
// depth: how many levels of same-file helper calls may still be followed.
func c06Scan(f *ast.File, body ast.Node, unit *ast.BlockStmt, unitOK bool, depth int, calls, good, loops *int, units *[]*ast.BlockStmt) {
	// stack of enclosing nodes inside `body`
	var stack []ast.Node
	inLoop := func(upto int) bool { // is stack[upto] inside a loop body (within this body, not crossing a FuncLit)?
		for j := upto - 1; j >= 0; j-- {
			switch stack[j].(type) {
			case *ast.FuncLit:
				return false
			case *ast.RangeStmt, *ast.ForStmt:
				return true
			}
		}
		return false
	}
	startsWithRecover := func(b *ast.BlockStmt) bool {
		if b == nil || len(b.List) == 0 {
			return false
		}
		d, ok := b.List[0].(*ast.DeferStmt)
		if !ok {
			return false
		}
		rec := false
		Walk(d.Call, func(m ast.Node) bool {
			if cc, ok := m.(*ast.CallExpr); ok && Src(cc.Fun) == "recover" {
				rec = true
			}
			return true
		})
		return rec
	}
	ast.Inspect(body, func(n ast.Node) bool {
		if n == nil {
			stack = stack[:len(stack)-1]
			return true
		}
		stack = append(stack, n)
		c, ok := n.(*ast.CallExpr)
		if !ok {
			return true
		}
		if c06IsHandleDeposit(c) {
			*calls++
			// innermost FuncLit inside this body, else the unit we came in with
			nl := 0
			u, uOK := unit, unitOK
			for i := len(stack) - 1; i >= 0; i-- {
				switch x := stack[i].(type) {
				case *ast.RangeStmt, *ast.ForStmt:
					nl++
				case *ast.FuncLit:
					u = x.Body
					called := i >= 1
					if called {
						call, ok := stack[i-1].(*ast.CallExpr)
						called = ok && call.Fun == ast.Expr(x)
					}
					uOK = startsWithRecover(x.Body) && called && (inLoop(i-1) || unitOK)
					i = -1 // stop
				}
			}
			*loops += nl
			if u != nil && uOK {
				*good++
			}
			if u != nil {
				*units = append(*units, u)
			}
			return true
		}
		// one level of same-file helper: a call `recv.name(…)` / `name(…)` from inside a loop body, to a function declared in this file
		if depth > 0 && f != nil && inLoop(len(stack)-1) {
			name := ""
			switch fn := c.Fun.(type) {
			case *ast.Ident:
				name = fn.Name
			case *ast.SelectorExpr:
				if _, ok := fn.X.(*ast.Ident); ok {
					name = fn.Sel.Name
				}
			}
			if name != "" {
				for _, d := range f.Decls {
					if hd, ok := d.(*ast.FuncDecl); ok && hd.Name.Name == name && hd.Body != nil && hd.Body != body {
						has := false
						Walk(hd.Body, func(m ast.Node) bool {
							if cc, ok := m.(*ast.CallExpr); ok && c06IsHandleDeposit(cc) {
								has = true
							}
							return true
						})
						if has {
							c06Scan(f, hd.Body, hd.Body, startsWithRecover(hd.Body), 0, calls, good, loops, units)
						}
					}
				}
			}
		}
		return true
	})
}
