package main

import (
	"go/ast"
	"go/token"
	"strings"
)

// C01: constants the byte-level model relies on.
//   OPTIONAL_REVERT_GAS; the minimum calldata lengths of the four handlers that have one; the 10^10 exponents.
func init() {
	extractors["C01"] = func(o *Out) {
		gas := "none"
		f := o.ParseFile("chains/evm/listener/depositHandlers/erc20.go")
		if f != nil {
			Walk(f, func(n ast.Node) bool {
				if vs, ok := n.(*ast.ValueSpec); ok && len(vs.Names) == 1 && vs.Names[0].Name == "OPTIONAL_REVERT_GAS" && len(vs.Values) == 1 {
					if lit, ok := vs.Values[0].(*ast.BasicLit); ok && lit.Kind == token.INT {
						gas = "some " + lit.Value
					}
				}
				return true
			})
		}
		o.Facts["OPTIONAL_REVERT_GAS"] = gas
		o.Lean.WriteString("def optionalRevertGas : Option Nat := " + gas + "\n\n")

		// first `if len(calldata) < N` of each handler
		minLen := func(file, recv, fn string) string {
			fd := FindFunc(o.ParseFile(file), recv, fn)
			res := "none"
			if fd != nil {
				for _, st := range fd.Body.List {
					if is, ok := st.(*ast.IfStmt); ok {
						if be, ok := is.Cond.(*ast.BinaryExpr); ok && be.Op == token.LSS && Src(be.X) == "len(calldata)" {
							if lit, ok := be.Y.(*ast.BasicLit); ok {
								res = "some " + lit.Value
							}
						}
						break
					}
				}
			}
			o.Facts["minlen:"+file+":"+fn] = res
			return res
		}
		rows := []string{
			"(\"erc20\", " + minLen("chains/evm/listener/depositHandlers/erc20.go", "Erc20DepositHandler", "HandleDeposit") + ")",
			"(\"erc721\", " + minLen("chains/evm/listener/depositHandlers/erc721.go", "Erc721DepositHandler", "HandleDeposit") + ")",
			"(\"generic\", " + minLen("chains/evm/listener/depositHandlers/permissionless.go", "PermissionlessGenericDepositHandler", "HandleDeposit") + ")",
			"(\"substrate\", " + minLen("chains/substrate/listener/deposit-handler.go", "", "FungibleTransferHandler") + ")",
		}
		o.Lean.WriteString("def minCalldata : List (String × Option Nat) := [" + strings.Join(rows, ", ") + "]\n\n")

		// Exp(big.NewInt(b), big.NewInt(e), nil) in the two Bitcoin handlers
		exp := func(file, recv, fn string) string {
			fd := FindFunc(o.ParseFile(file), recv, fn)
			res := "none"
			if fd != nil {
				Walk(fd.Body, func(n ast.Node) bool {
					if c, ok := n.(*ast.CallExpr); ok && strings.HasSuffix(Src(c.Fun), ".Exp") && len(c.Args) == 3 {
						a, b := Src(c.Args[0]), Src(c.Args[1])
						if strings.HasPrefix(a, "big.NewInt(") && strings.HasPrefix(b, "big.NewInt(") {
							res = "some (" + strings.TrimSuffix(strings.TrimPrefix(a, "big.NewInt("), ")") + ", " +
								strings.TrimSuffix(strings.TrimPrefix(b, "big.NewInt("), ")") + ")"
						}
					}
					return true
				})
			}
			o.Facts["exp:"+file] = res
			return res
		}
		o.Lean.WriteString("def btcListenerScale : Option (Nat × Nat) := " + exp("chains/btc/listener/deposit-handler.go", "BtcDepositHandler", "HandleDeposit") + "\n")
		o.Lean.WriteString("def btcExecutorScale : Option (Nat × Nat) := " + exp("chains/btc/executor/message-handler.go", "", "ERC20MessageHandler") + "\n")
	}
}
