package main

import (
	"go/ast"
	"go/token"
	"strconv"
	"strings"
)

// C01: constants the byte-level model relies on. Located by SHAPE; `none` (unavailable) when the anchor is out of reach.
//   optionalRevertGas : Option Nat        the integer constant added to the optional message's fee word in Erc20DepositHandler
//                       (the operand of `big.NewInt(<const or literal>)` inside an `….Add(…)` of HandleDeposit), resolved through
//                       package-level constants
//   min<Handler> : Option Nat             the handler's first calldata-length guard `len(<[]byte parameter>) < N` (either spelling)
//   btcListenerScale / btcExecutorScale : Option (Nat × Nat)   base and exponent of `….Exp(big.NewInt(b), big.NewInt(e), nil)`
func init() {
	extractors["C01"] = func(o *Out) {
		// ---- revert gas
		f := o.ParseFile("chains/evm/listener/depositHandlers/erc20.go")
		consts := c06Consts(f)
		gas, gasOK := 0, false
		if fd := FindFunc(f, "Erc20DepositHandler", "HandleDeposit"); fd != nil {
			Walk(fd.Body, func(n ast.Node) bool {
				c, ok := n.(*ast.CallExpr)
				if !ok || gasOK {
					return true
				}
				sel, ok := c.Fun.(*ast.SelectorExpr)
				if !ok || sel.Sel.Name != "Add" {
					return true
				}
				for _, a := range c.Args {
					if ac, ok := a.(*ast.CallExpr); ok && Src(ac.Fun) == "big.NewInt" && len(ac.Args) == 1 {
						if v, ok := c01Int(ac.Args[0], consts); ok {
							gas, gasOK = v, true
						}
					}
				}
				return true
			})
		}
		if !gasOK {
			o.Unavailable("optionalRevertGas", "no `….Add(…, big.NewInt(<integer constant>))` found in Erc20DepositHandler.HandleDeposit")
		}
		o.Facts["OPTIONAL_REVERT_GAS"] = gas
		o.Lean.WriteString("def optionalRevertGas : Option Nat := " + LeanOpt(gasOK, c06itoa(gas)) + "\n\n")

		// ---- first calldata-length guard of each handler
		minLen := func(def, file, recv, fn string) {
			pf := o.ParseFile(file)
			cs := c06Consts(pf)
			fd := FindFunc(pf, recv, fn)
			n, ok := 0, false
			if fd != nil {
				// []byte parameters
				params := []string{}
				for _, fl := range fd.Type.Params.List {
					if Src(fl.Type) == "[]byte" {
						for _, nm := range fl.Names {
							params = append(params, nm.Name)
						}
					}
				}
				for _, st := range fd.Body.List {
					is, isIf := st.(*ast.IfStmt)
					if !isIf {
						continue
					}
					for _, p := range params {
						if v, found := c06LenBelow(is.Cond, "len("+p+")", cs); found && !ok {
							n, ok = v, true
						}
					}
					if ok {
						break
					}
				}
			}
			if !ok {
				o.Unavailable(def, "no top-level `if len(<[]byte parameter>) < N` found in "+fn+" of "+file)
			}
			o.Facts["minlen:"+def] = n
			o.Lean.WriteString("def " + def + " : Option Nat := " + LeanOpt(ok, c06itoa(n)) + "\n")
		}
		minLen("minErc20", "chains/evm/listener/depositHandlers/erc20.go", "Erc20DepositHandler", "HandleDeposit")
		minLen("minErc721", "chains/evm/listener/depositHandlers/erc721.go", "Erc721DepositHandler", "HandleDeposit")
		minLen("minGeneric", "chains/evm/listener/depositHandlers/permissionless.go", "PermissionlessGenericDepositHandler", "HandleDeposit")
		minLen("minSubstrate", "chains/substrate/listener/deposit-handler.go", "", "FungibleTransferHandler")
		o.Lean.WriteString("\n")

		// ---- Exp(big.NewInt(b), big.NewInt(e), nil) in the two Bitcoin handlers
		exp := func(def, file, recv, fn string) {
			pf := o.ParseFile(file)
			cs := c06Consts(pf)
			fd := FindFunc(pf, recv, fn)
			b, e, ok := 0, 0, false
			if fd != nil {
				Walk(fd.Body, func(n ast.Node) bool {
					c, isCall := n.(*ast.CallExpr)
					if !isCall || len(c.Args) != 3 {
						return true
					}
					if sel, isSel := c.Fun.(*ast.SelectorExpr); !isSel || sel.Sel.Name != "Exp" {
						return true
					}
					a0, ok0 := c.Args[0].(*ast.CallExpr)
					a1, ok1 := c.Args[1].(*ast.CallExpr)
					if ok0 && ok1 && Src(a0.Fun) == "big.NewInt" && Src(a1.Fun) == "big.NewInt" && len(a0.Args) == 1 && len(a1.Args) == 1 {
						bv, okb := c01Int(a0.Args[0], cs)
						ev, oke := c01Int(a1.Args[0], cs)
						if okb && oke {
							b, e, ok = bv, ev, true
						}
					}
					return true
				})
			}
			if !ok {
				o.Unavailable(def, "no `….Exp(big.NewInt(b), big.NewInt(e), nil)` with integer constants found in "+fn+" of "+file)
			}
			o.Facts["exp:"+def] = []int{b, e}
			o.Lean.WriteString("def " + def + " : Option (Nat × Nat) := " + LeanOpt(ok, c06itoa(b)+", "+c06itoa(e)) + "\n")
		}
		exp("btcListenerScale", "chains/btc/listener/deposit-handler.go", "BtcDepositHandler", "HandleDeposit")
		exp("btcExecutorScale", "chains/btc/executor/message-handler.go", "", "ERC20MessageHandler")
	}
}

// c01Int: integer literal, or identifier of a package-level integer constant of the same file, possibly parenthesised / int64(...)
func c01Int(e ast.Expr, consts map[string]int) (int, bool) {
	switch x := e.(type) {
	case *ast.ParenExpr:
		return c01Int(x.X, consts)
	case *ast.BasicLit:
		if x.Kind == token.INT {
			v, err := strconv.Atoi(strings.ReplaceAll(x.Value, "_", ""))
			return v, err == nil
		}
	case *ast.Ident:
		v, ok := consts[x.Name]
		return v, ok
	case *ast.CallExpr:
		if len(x.Args) == 1 && (Src(x.Fun) == "int64" || Src(x.Fun) == "int") {
			return c01Int(x.Args[0], consts)
		}
	}
	return 0, false
}
