package main

// Shape-based location and translation of the confirmation guards (C04; the helpers are also used by C05/C19).
//
// A guard is an `if` whose condition compares two *big.Int values with Cmp. It is NOT located by the names of locals,
// receivers or unexported helpers: every leaf of the condition is classified by what it IS —
//   a field of the receiver                         -> conf (or k if the field name says "interval")
//   a parameter of the function                      -> the role the guard spec gives to parameters
//   X.LatestBlock()                                  -> head        (exported API of the clients)
//   X.Height / X.….Header.Number                     -> head / finalized head   (exported fields of the node's answers)
//   X.BlockHeight / X.BlockNumber / X.DepositOnBlockHeight(.Int)  -> the retried height (exported message/event fields)
// locals are replaced by their defining expressions (`:=` anywhere before the guard, `=` / `x.Add(a,b)` statements in
// the guard's own block), one level of same-file helper calls is followed with the parameters substituted.
// Comparison forms understood: `x.Cmp(y) <op> <-1|0|1>` with any of == != < <= > >=, either side, `!`, `&&`, `||`.
// Whether the condition is the REJECT (sleep / error / skip) or the ACCEPT condition is read off the branches.

import (
	"go/ast"
	"go/token"
	"strconv"
	"strings"
)

type guardSpec struct {
	roles map[string]string // role -> Lean variable (roles: head, fin, h, conf, k, param)
}

type gctx struct {
	file   *ast.File
	fd     *ast.FuncDecl
	recv   string
	params map[string]bool
	defs   map[string]ast.Expr
	subst  map[string]ast.Expr // helper parameter -> caller expression
	parent *gctx
}

func newGctx(file *ast.File, fd *ast.FuncDecl) *gctx {
	c := &gctx{file: file, fd: fd, params: map[string]bool{}, defs: map[string]ast.Expr{}}
	if fd.Recv != nil && len(fd.Recv.List) == 1 && len(fd.Recv.List[0].Names) == 1 {
		c.recv = fd.Recv.List[0].Names[0].Name
	}
	for _, p := range fd.Type.Params.List {
		for _, n := range p.Names {
			c.params[n.Name] = true
		}
	}
	return c
}

// stmtLists calls f on every statement list under n (blocks, case clauses, select clauses).
func stmtLists(n ast.Node, f func([]ast.Stmt)) {
	Walk(n, func(m ast.Node) bool {
		switch b := m.(type) {
		case *ast.BlockStmt:
			f(b.List)
		case *ast.CaseClause:
			f(b.Body)
		case *ast.CommClause:
			f(b.Body)
		}
		return true
	})
}

// collectDefs records what the locals stand for at the position of the guard.
func (c *gctx) collectDefs(guard *ast.IfStmt) {
	c.defs = map[string]ast.Expr{}
	type def struct {
		pos token.Pos
		e   ast.Expr
	}
	best := map[string]def{}
	put := func(name string, pos token.Pos, e ast.Expr) {
		if pos < guard.Pos() && (best[name].e == nil || pos > best[name].pos) {
			best[name] = def{pos, e}
		}
	}
	assign := func(s *ast.AssignStmt) {
		if len(s.Lhs) == len(s.Rhs) {
			for i, l := range s.Lhs {
				if id, ok := l.(*ast.Ident); ok {
					put(id.Name, s.Pos(), s.Rhs[i])
				}
			}
		} else if len(s.Rhs) == 1 {
			if id, ok := s.Lhs[0].(*ast.Ident); ok {
				put(id.Name, s.Pos(), s.Rhs[0])
			}
		}
	}
	// `:=` anywhere before the guard
	Walk(c.fd.Body, func(m ast.Node) bool {
		if s, ok := m.(*ast.AssignStmt); ok && s.Tok == token.DEFINE {
			assign(s)
		}
		if d, ok := m.(*ast.DeclStmt); ok {
			if g, ok := d.Decl.(*ast.GenDecl); ok {
				for _, sp := range g.Specs {
					if v, ok := sp.(*ast.ValueSpec); ok && len(v.Names) == len(v.Values) {
						for i, n := range v.Names {
							put(n.Name, d.Pos(), v.Values[i])
						}
					}
				}
			}
		}
		return true
	})
	// `=` and `x.Add(a, b)` statements of the guard's own block
	stmtLists(c.fd.Body, func(list []ast.Stmt) {
		own := false
		for _, st := range list {
			if st == ast.Stmt(guard) {
				own = true
			}
		}
		if !own {
			return
		}
		for _, st := range list {
			switch s := st.(type) {
			case *ast.AssignStmt:
				if s.Tok == token.ASSIGN {
					assign(s)
				}
			case *ast.ExprStmt:
				if call, ok := s.X.(*ast.CallExpr); ok {
					if sel, ok := call.Fun.(*ast.SelectorExpr); ok && (sel.Sel.Name == "Add" || sel.Sel.Name == "Sub" || sel.Sel.Name == "Set") {
						if id, ok := sel.X.(*ast.Ident); ok {
							put(id.Name, s.Pos(), call)
						}
					}
				}
			}
		}
	})
	// the guard's own init statement (`if x := …; cond`) and package-level constants
	if a, ok := guard.Init.(*ast.AssignStmt); ok && len(a.Lhs) == len(a.Rhs) {
		for i, l := range a.Lhs {
			if id, ok := l.(*ast.Ident); ok {
				best[id.Name] = def{a.Pos(), a.Rhs[i]}
			}
		}
	}
	if c.file != nil {
		for _, d := range c.file.Decls {
			if g, ok := d.(*ast.GenDecl); ok && g.Tok == token.CONST {
				for _, sp := range g.Specs {
					if v, ok := sp.(*ast.ValueSpec); ok && len(v.Names) == len(v.Values) {
						for i, n := range v.Names {
							if best[n.Name].e == nil {
								best[n.Name] = def{0, v.Values[i]}
							}
						}
					}
				}
			}
		}
	}
	for k, v := range best {
		c.defs[k] = v.e
	}
}

// term translates a *big.Int / integer expression into a Lean Int term over the roles of spec.
func (c *gctx) term(e ast.Expr, spec guardSpec, depth int) (string, bool) {
	if depth > 12 {
		return "0", false
	}
	role := func(r string) (string, bool) {
		v, ok := spec.roles[r]
		return v, ok
	}
	switch x := e.(type) {
	case *ast.ParenExpr:
		return c.term(x.X, spec, depth+1)
	case *ast.StarExpr:
		return c.term(x.X, spec, depth+1)
	case *ast.UnaryExpr:
		if x.Op == token.AND {
			return c.term(x.X, spec, depth+1)
		}
	case *ast.BasicLit:
		if x.Kind == token.INT {
			return x.Value, true
		}
	case *ast.Ident:
		if s, ok := c.subst[x.Name]; ok && c.parent != nil {
			return c.parent.term(s, spec, depth+1)
		}
		if d, ok := c.defs[x.Name]; ok {
			return c.term(d, spec, depth+1)
		}
		if c.params[x.Name] {
			return role("param")
		}
	case *ast.SelectorExpr:
		if id, ok := x.X.(*ast.Ident); ok && id.Name == c.recv && c.recv != "" {
			if strings.Contains(strings.ToLower(x.Sel.Name), "interval") {
				return role("k")
			}
			return role("conf")
		}
		switch x.Sel.Name {
		case "Height":
			return role("head")
		case "Number":
			return role("fin")
		case "BlockHeight", "BlockNumber", "DepositOnBlockHeight":
			return role("h")
		case "Int":
			return c.term(x.X, spec, depth+1)
		}
	case *ast.CallExpr:
		fun := Src(x.Fun)
		if (fun == "big.NewInt" || fun == "int64" || fun == "uint64" || fun == "types.NewU128") && len(x.Args) == 1 {
			return c.term(x.Args[0], spec, depth+1)
		}
		if sel, ok := x.Fun.(*ast.SelectorExpr); ok {
			switch sel.Sel.Name {
			case "Add", "Sub":
				if len(x.Args) == 2 {
					a, ok1 := c.term(x.Args[0], spec, depth+1)
					b, ok2 := c.term(x.Args[1], spec, depth+1)
					op := map[string]string{"Add": "+", "Sub": "-"}[sel.Sel.Name]
					return "(" + a + " " + op + " " + b + ")", ok1 && ok2
				}
			case "Set":
				if len(x.Args) == 1 {
					return c.term(x.Args[0], spec, depth+1)
				}
			case "Int64", "Uint64":
				if len(x.Args) == 0 {
					return c.term(sel.X, spec, depth+1)
				}
			case "LatestBlock":
				return role("head")
			}
		}
		// a same-file helper that computes the value: follow it one level (its last `return <non-nil>, …`)
		if depth < 6 {
			name := ""
			switch f := x.Fun.(type) {
			case *ast.Ident:
				name = f.Name
			case *ast.SelectorExpr:
				if id, ok := f.X.(*ast.Ident); ok && id.Name == c.recv && c.recv != "" {
					name = f.Sel.Name
				}
			}
			if name != "" && c.file != nil {
				for _, d := range c.file.Decls {
					h, ok := d.(*ast.FuncDecl)
					if !ok || h.Name.Name != name || h.Body == nil || h == c.fd {
						continue
					}
					var ret *ast.ReturnStmt
					Walk(h.Body, func(n ast.Node) bool {
						if r, ok := n.(*ast.ReturnStmt); ok && len(r.Results) >= 1 && Src(r.Results[0]) != "nil" {
							ret = r
						}
						return true
					})
					if ret == nil {
						continue
					}
					hc := newGctx(c.file, h)
					hc.parent = c
					hc.subst = map[string]ast.Expr{}
					i := 0
					for _, p := range h.Type.Params.List {
						for _, pn := range p.Names {
							if i < len(x.Args) {
								hc.subst[pn.Name] = x.Args[i]
							}
							i++
						}
					}
					hc.collectDefsAt(ret.Pos())
					return hc.term(ret.Results[0], spec, depth+6)
				}
			}
		}
	}
	return "0", false
}

// cmpSet: which outcomes of x.Cmp(y) (-1, 0, 1) satisfy `cmp <op> lit`
func cmpSet(op token.Token, lit int, litLeft bool) (lt, eq, gt bool, ok bool) {
	sat := func(v int) bool {
		a, b := v, lit
		if litLeft {
			a, b = lit, v
		}
		switch op {
		case token.EQL:
			return a == b
		case token.NEQ:
			return a != b
		case token.LSS:
			return a < b
		case token.LEQ:
			return a <= b
		case token.GTR:
			return a > b
		case token.GEQ:
			return a >= b
		}
		return false
	}
	switch op {
	case token.EQL, token.NEQ, token.LSS, token.LEQ, token.GTR, token.GEQ:
		return sat(-1), sat(0), sat(1), true
	}
	return false, false, false, false
}

func (c *gctx) intLit(e ast.Expr) (int, bool) {
	if id, ok := e.(*ast.Ident); ok {
		if d, ok := c.defs[id.Name]; ok {
			return intLit(d)
		}
	}
	return intLit(e)
}

func intLit(e ast.Expr) (int, bool) {
	neg := false
	if u, ok := e.(*ast.UnaryExpr); ok && u.Op == token.SUB {
		neg = true
		e = u.X
	}
	if p, ok := e.(*ast.ParenExpr); ok {
		return intLit(p.X)
	}
	if l, ok := e.(*ast.BasicLit); ok && l.Kind == token.INT {
		v, err := strconv.Atoi(l.Value)
		if err != nil {
			return 0, false
		}
		if neg {
			v = -v
		}
		return v, true
	}
	return 0, false
}

func cmpCallC04(e ast.Expr) (*ast.CallExpr, bool) {
	if p, ok := e.(*ast.ParenExpr); ok {
		return cmpCallC04(p.X)
	}
	call, ok := e.(*ast.CallExpr)
	if !ok {
		return nil, false
	}
	sel, ok := call.Fun.(*ast.SelectorExpr)
	if !ok || sel.Sel.Name != "Cmp" || len(call.Args) != 1 {
		return nil, false
	}
	return call, true
}

// cond translates a boolean condition over Cmp comparisons into a Lean Bool.
func (c *gctx) cond(e ast.Expr, spec guardSpec) (string, bool) {
	switch x := e.(type) {
	case *ast.ParenExpr:
		return c.cond(x.X, spec)
	case *ast.UnaryExpr:
		if x.Op == token.NOT {
			s, ok := c.cond(x.X, spec)
			return "(!" + s + ")", ok
		}
	case *ast.Ident:
		if d, ok := c.defs[x.Name]; ok {
			return c.cond(d, spec)
		}
	case *ast.BinaryExpr:
		if x.Op == token.LAND || x.Op == token.LOR {
			a, ok1 := c.cond(x.X, spec)
			b, ok2 := c.cond(x.Y, spec)
			op := "&&"
			if x.Op == token.LOR {
				op = "||"
			}
			return "(" + a + " " + op + " " + b + ")", ok1 && ok2
		}
		var call *ast.CallExpr
		var lit int
		litLeft := false
		if cc, ok := cmpCallC04(x.X); ok {
			if v, ok := c.intLit(x.Y); ok {
				call, lit = cc, v
			}
		} else if cc, ok := cmpCallC04(x.Y); ok {
			if v, ok := c.intLit(x.X); ok {
				call, lit, litLeft = cc, v, true
			}
		}
		if call == nil {
			return "false", false
		}
		lt, eq, gt, ok := cmpSet(x.Op, lit, litLeft)
		if !ok {
			return "false", false
		}
		a, ok1 := c.term(call.Fun.(*ast.SelectorExpr).X, spec, 0)
		b, ok2 := c.term(call.Args[0], spec, 0)
		parts := []string{}
		if lt {
			parts = append(parts, "decide ("+a+" < "+b+")")
		}
		if eq {
			parts = append(parts, "decide ("+a+" = "+b+")")
		}
		if gt {
			parts = append(parts, "decide ("+a+" > "+b+")")
		}
		if len(parts) == 0 {
			return "false", ok1 && ok2
		}
		return "(" + strings.Join(parts, " || ") + ")", ok1 && ok2
	}
	return "false", false
}

func hasCmpNode(n ast.Node) bool {
	found := false
	Walk(n, func(m ast.Node) bool {
		if c, ok := m.(*ast.CallExpr); ok {
			if _, ok := cmpCallC04(c); ok {
				found = true
			}
		}
		return true
	})
	return found
}

func hasCmp(e ast.Expr) bool {
	found := false
	Walk(e, func(n ast.Node) bool {
		if c, ok := n.(*ast.CallExpr); ok {
			if _, ok := cmpCallC04(c); ok {
				found = true
			}
		}
		return true
	})
	return found
}

// terminates: does the block end the handling of the request / the iteration (return, continue, break, goto)?
func terminates(b *ast.BlockStmt) bool {
	if b == nil || len(b.List) == 0 {
		return false
	}
	switch s := b.List[len(b.List)-1].(type) {
	case *ast.ReturnStmt, *ast.BranchStmt:
		return true
	case *ast.ExprStmt:
		_ = s
	}
	return false
}

// processes: does the block go on to read / hand on the block (so the condition is the ACCEPT condition)?
func processes(n ast.Node) bool {
	found := false
	Walk(n, func(m ast.Node) bool {
		if c, ok := m.(*ast.CallExpr); ok {
			if sel, ok := c.Fun.(*ast.SelectorExpr); ok {
				switch sel.Sel.Name {
				case "ProcessDeposits", "HandleEvents", "GetBlockHash", "GetBlockEvents":
					found = true
				}
			}
		}
		return true
	})
	return found
}

// rejectCond finds the guard in fd (or one level down in a same-file helper) and returns the REJECT condition as a
// Lean Bool, the Go source of the located condition, and whether it was located and translated.
func rejectCond(file *ast.File, fd *ast.FuncDecl, spec guardSpec) (string, string, bool) {
	if file == nil || fd == nil {
		return "false", "", false
	}
	c := newGctx(file, fd)
	if s, src, ok := c.rejectHere(spec); ok {
		return s, src, true
	}
	// one level of same-file helper calls
	res, rsrc, rok := "false", "", false
	Walk(fd.Body, func(n ast.Node) bool {
		call, ok := n.(*ast.CallExpr)
		if !ok || rok {
			return true
		}
		name := ""
		switch f := call.Fun.(type) {
		case *ast.Ident:
			name = f.Name
		case *ast.SelectorExpr:
			if id, ok := f.X.(*ast.Ident); ok && id.Name == c.recv {
				name = f.Sel.Name
			}
		}
		if name == "" {
			return true
		}
		for _, d := range file.Decls {
			h, ok := d.(*ast.FuncDecl)
			if !ok || h.Name.Name != name || h.Body == nil || h == fd {
				continue
			}
			hc := newGctx(file, h)
			hc.parent = c
			hc.subst = map[string]ast.Expr{}
			// the caller's locals at the call site
			fake := &ast.IfStmt{If: call.Pos()}
			c.collectDefsAt(fake.If)
			i := 0
			for _, p := range h.Type.Params.List {
				for _, pn := range p.Names {
					if i < len(call.Args) {
						hc.subst[pn.Name] = call.Args[i]
					}
					i++
				}
			}
			if s, src, ok := hc.rejectHere(spec); ok {
				res, rsrc, rok = s, src+" (in helper "+name+")", true
			}
		}
		return true
	})
	return res, rsrc, rok
}

// collectDefsAt: like collectDefs for a position that is not an `if` of the function (a call site)
func (c *gctx) collectDefsAt(pos token.Pos) {
	var enclosing *ast.IfStmt
	// use a synthetic guard at that position; its own block is the innermost statement list containing pos
	enclosing = &ast.IfStmt{If: pos}
	save := c.defs
	c.defs = map[string]ast.Expr{}
	type def struct {
		pos token.Pos
		e   ast.Expr
	}
	best := map[string]def{}
	Walk(c.fd.Body, func(m ast.Node) bool {
		if s, ok := m.(*ast.AssignStmt); ok && s.Pos() < pos {
			if len(s.Lhs) == len(s.Rhs) {
				for i, l := range s.Lhs {
					if id, ok := l.(*ast.Ident); ok && (s.Tok == token.DEFINE || best[id.Name].e == nil) {
						if best[id.Name].e == nil || s.Pos() > best[id.Name].pos {
							best[id.Name] = def{s.Pos(), s.Rhs[i]}
						}
					}
				}
			} else if len(s.Rhs) == 1 {
				if id, ok := s.Lhs[0].(*ast.Ident); ok && s.Tok == token.DEFINE {
					if best[id.Name].e == nil || s.Pos() > best[id.Name].pos {
						best[id.Name] = def{s.Pos(), s.Rhs[0]}
					}
				}
			}
		}
		return true
	})
	_ = enclosing
	_ = save
	for k, v := range best {
		c.defs[k] = v.e
	}
}

func (c *gctx) rejectHere(spec guardSpec) (string, string, bool) {
	var res, src string
	found := false
	Walk(c.fd.Body, func(n ast.Node) bool {
		s, ok := n.(*ast.IfStmt)
		if !ok || found {
			return true
		}
		if !hasCmp(s.Cond) && !(s.Init != nil && hasCmpNode(s.Init)) {
			return true
		}
		c.collectDefs(s)
		t, ok := c.cond(s.Cond, spec)
		if !ok {
			return true
		}
		var elseBlock *ast.BlockStmt
		if b, ok := s.Else.(*ast.BlockStmt); ok {
			elseBlock = b
		}
		switch {
		case processes(s.Body) && !processes(elseBlock):
			t = "(!" + t + ")" // the condition lets the request through
		case terminates(s.Body):
			// reject / sleep / skip condition as written
		case elseBlock != nil && terminates(elseBlock):
			t = "(!" + t + ")"
		default:
			return true
		}
		res, src, found = t, Src(s.Cond), true
		return true
	})
	return res, src, found
}

// findMethod: the method `name` of `recv`; if that name is gone, nothing (exported entry points keep their names)
func findMethod(f *ast.File, recv, name string) *ast.FuncDecl { return FindFunc(f, recv, name) }
