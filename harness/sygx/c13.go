package main

import (
	"go/ast"
	"strings"
)

// C13: facts behaviour cannot cheaply reveal
//   - comm/communication.go: the struct tag of WrappedMessage.From
//   - comm/p2p/libp2p.go: in ProcessMessagesFromStream, the remote peer comes from the connection and `From` is overwritten
//     AFTER unmarshalling and BEFORE subscribers are looked up
//   - comm/p2p/gater.go: what each of the five hooks returns
//   - topology/topology.go: order of the steps of NetworkTopology and the hash comparison
//   - chains/evm/listener/eventHandlers/tss.go: order of the steps of RefreshEventHandler.HandleEvents, which event's hash is used
func init() {
	extractors["C13"] = func(o *Out) {
		w := &o.Lean
		// calls (by callee source text) in source order, restricted to the interesting ones
		seq := func(fd *ast.FuncDecl, want map[string]string) []string {
			out := []string{}
			if fd == nil {
				return out
			}
			type hit struct {
				pos int
				s   string
			}
			hits := []hit{}
			Walk(fd.Body, func(n ast.Node) bool {
				switch x := n.(type) {
				case *ast.CallExpr:
					if tag, ok := want[Src(x.Fun)]; ok {
						hits = append(hits, hit{int(x.Pos()), tag})
					}
				case *ast.AssignStmt:
					for _, l := range x.Lhs {
						if tag, ok := want["="+Src(l)]; ok {
							hits = append(hits, hit{int(x.Pos()), tag + ":" + Src(x.Rhs[0])})
						}
					}
				case *ast.IfStmt:
					if tag, ok := want["if "+Src(x.Cond)]; ok {
						hits = append(hits, hit{int(x.Pos()), tag})
					}
				}
				return true
			})
			for i := 1; i < len(hits); i++ {
				for j := i; j > 0 && hits[j].pos < hits[j-1].pos; j-- {
					hits[j], hits[j-1] = hits[j-1], hits[j]
				}
			}
			for _, h := range hits {
				out = append(out, h.s)
			}
			return out
		}
		// ---- From tag
		cf := o.ParseFile("comm/communication.go")
		tag := ""
		if cf != nil {
			Walk(cf, func(n ast.Node) bool {
				if ts, ok := n.(*ast.TypeSpec); ok && ts.Name.Name == "WrappedMessage" {
					if st, ok := ts.Type.(*ast.StructType); ok {
						for _, f := range st.Fields.List {
							for _, nm := range f.Names {
								if nm.Name == "From" && f.Tag != nil {
									tag = strings.Trim(f.Tag.Value, "`")
								}
							}
						}
					}
				}
				return true
			})
		}
		w.WriteString("def fromTag : String := " + LeanStr(tag) + "\n")
		// ---- ProcessMessagesFromStream
		lf := o.ParseFile("comm/p2p/libp2p.go")
		ps := seq(FindFunc(lf, "Libp2pCommunication", "ProcessMessagesFromStream"), map[string]string{
			"=remotePeerID": "remote", "json.Unmarshal": "unmarshal", "=wrappedMsg.From": "from", "c.GetSubscribers": "subscribers"})
		w.WriteString("def processSteps : List String := " + LeanStrList(ps) + "\n")
		// ---- gater
		gf := o.ParseFile("comm/p2p/gater.go")
		rets := []string{}
		for _, m := range []string{"InterceptPeerDial", "InterceptSecured", "InterceptAddrDial", "InterceptAccept", "InterceptUpgraded"} {
			fd := FindFunc(gf, "ConnectionGate", m)
			r := "?"
			if fd != nil && len(fd.Body.List) == 1 {
				if rs, ok := fd.Body.List[0].(*ast.ReturnStmt); ok {
					xs := []string{}
					for _, e := range rs.Results {
						xs = append(xs, Src(e))
					}
					r = strings.Join(xs, ", ")
				}
			}
			rets = append(rets, m+": "+r)
		}
		w.WriteString("def gaterReturns : List String := " + LeanStrList(rets) + "\n")
		tf := o.ParseFile("topology/topology.go")
		allowed := "?"
		if fd := FindFunc(tf, "NetworkTopology", "IsAllowedPeer"); fd != nil {
			allowed = Src(fd.Body)
		}
		w.WriteString("def isAllowedPeer : String := " + LeanStr(allowed) + "\n")
		// ---- NetworkTopology
		nt := seq(FindFunc(tf, "TopologyProvider", "NetworkTopology"), map[string]string{
			"t.fetcher.Get": "fetch", "io.ReadAll": "read", "strings.TrimSuffix": "trim", "hex.DecodeString": "hexdecode",
			"sha256.New": "sha256", "hex.EncodeToString": "hexencode", `if hash != "" && eh != hash`: "compare",
			"t.decrypter.Decrypt": "decrypt", "json.Unmarshal": "unmarshal", "ProcessRawTopology": "process"})
		w.WriteString("def providerSteps : List String := " + LeanStrList(nt) + "\n")
		// ---- HandleEvents
		hf := o.ParseFile("chains/evm/listener/eventHandlers/tss.go")
		he := seq(FindFunc(hf, "RefreshEventHandler", "HandleEvents"), map[string]string{
			"eh.eventListener.FetchRefreshEvents": "events", "=hash": "hash", `if hash == ""`: "empty-check",
			"eh.topologyProvider.NetworkTopology": "provider", "eh.topologyStore.StoreTopology": "store",
			"eh.connectionGate.SetTopology": "gate", "p2p.LoadPeers": "peers", "eh.coordinator.Execute": "resharing"})
		w.WriteString("def refreshSteps : List String := " + LeanStrList(he) + "\n")
		o.Facts["refresh_steps"] = he
		o.Facts["provider_steps"] = nt
	}
}
