package main

import (
	"go/ast"
	"go/token"
	"sort"
	"strings"
)

// C13: facts behaviour cannot cheaply reveal. Every fact is an Option (`none` = anchor not found in an understood shape;
// the correspondence ops then carry the clause alone). Located by SHAPE — exported type/field/method names of the
// repository's API and of the libraries (WrappedMessage.From, RemotePeer, json.Unmarshal, GetSubscribers, IsAllowedPeer,
// Decrypt, FetchRefreshEvents, NetworkTopology, StoreTopology, SetTopology, LoadPeers), statement forms, relations between
// the identifiers that occur — never names of locals / receivers / unexported helpers, never log or error wording.
//   fromTag        the json struct tag of WrappedMessage.From
//   processSteps   ProcessMessagesFromStream: relative order of {unmarshal, From := <the connection's RemotePeer>, subscribers}
//   gater          per hook: "member" (returns IsAllowedPeer of its peer parameter) | "true"
//   providerSteps  NetworkTopology: relative order of {compare with the announced hash, decrypt, unmarshal}
//   refreshSteps   HandleEvents: which event's hash ("last"), relative order of {events, empty-check, provider, store, gate, peers}
func init() {
	extractors["C13"] = func(o *Out) {
		w := &o.Lean
		type hit struct {
			pos int
			s   string
		}
		ordered := func(hs []hit) []string {
			sort.Slice(hs, func(i, j int) bool { return hs[i].pos < hs[j].pos })
			out := []string{}
			for _, h := range hs {
				out = append(out, h.s)
			}
			return out
		}
		// ---------------------------------------------------------------- From tag
		cf := o.ParseFile("comm/communication.go")
		tag, tagOK := "", false
		if cf != nil {
			Walk(cf, func(n ast.Node) bool {
				if ts, ok := n.(*ast.TypeSpec); ok && ts.Name.Name == "WrappedMessage" {
					if st, ok := ts.Type.(*ast.StructType); ok {
						for _, f := range st.Fields.List {
							for _, nm := range f.Names {
								if nm.Name == "From" {
									tagOK = true
									if f.Tag != nil {
										// the json key only: `json:"-"` -> "-"
										t := strings.Trim(f.Tag.Value, "`")
										if i := strings.Index(t, `json:"`); i >= 0 {
											rest := t[i+6:]
											if j := strings.Index(rest, `"`); j >= 0 {
												tag = rest[:j]
											}
										}
									}
								}
							}
						}
					}
				}
				return true
			})
		}
		if !tagOK {
			o.Unavailable("fromTag", "type WrappedMessage with a field From not found")
		}
		w.WriteString("/-- the json key of `WrappedMessage.From` (\"\" = no json tag) -/\ndef fromTag : Option String := " + LeanOpt(tagOK, LeanStr(tag)) + "\n")

		// ---------------------------------------------------------------- ProcessMessagesFromStream
		lf := o.ParseFile("comm/p2p/libp2p.go")
		var steps []string
		stepsOK := false
		for _, fd := range a2FuncsCalling(lf, "GetSubscribers") {
			remoteVar := ""
			isRemote := func(e ast.Expr) bool {
				if c, ok := e.(*ast.CallExpr); ok && a2Method(c) == "RemotePeer" {
					return true
				}
				return remoteVar != "" && a2Ident(e) == remoteVar
			}
			hs := []hit{}
			msgVar := ""
			Walk(fd.Body, func(n ast.Node) bool {
				switch x := n.(type) {
				case *ast.AssignStmt:
					if len(x.Lhs) == 1 && len(x.Rhs) == 1 {
						if c, ok := x.Rhs[0].(*ast.CallExpr); ok && a2Method(c) == "RemotePeer" && a2Ident(x.Lhs[0]) != "" {
							remoteVar = a2Ident(x.Lhs[0])
						}
						if sel, ok := x.Lhs[0].(*ast.SelectorExpr); ok && sel.Sel.Name == "From" {
							if isRemote(x.Rhs[0]) {
								hs = append(hs, hit{int(x.Pos()), "from:=remote"})
							} else {
								hs = append(hs, hit{int(x.Pos()), "from:=other"})
							}
							msgVar = a2Ident(sel.X)
						}
					}
				case *ast.CallExpr:
					if a2Qualified(x) == "json.Unmarshal" {
						hs = append(hs, hit{int(x.Pos()), "unmarshal"})
					}
					if a2Method(x) == "GetSubscribers" {
						hs = append(hs, hit{int(x.Pos()), "subscribers"})
					}
				}
				return true
			})
			steps = ordered(hs)
			stepsOK = msgVar != "" && len(steps) >= 3
			break
		}
		if !stepsOK {
			o.Unavailable("processSteps", "no function with json.Unmarshal, an assignment to <msg>.From and GetSubscribers as direct statements")
		}
		w.WriteString("/-- ProcessMessagesFromStream: source order of unmarshal / `From :=` (remote = the connection's RemotePeer()) / subscriber lookup -/\n")
		w.WriteString("def processSteps : Option (List String) := " + LeanOpt(stepsOK, LeanStrList(steps)) + "\n")

		// ---------------------------------------------------------------- gater
		gf := o.ParseFile("comm/p2p/gater.go")
		hooks := []string{"InterceptPeerDial", "InterceptSecured", "InterceptAddrDial", "InterceptAccept", "InterceptUpgraded"}
		rets := [][2]string{}
		gaterOK := gf != nil
		for _, m := range hooks {
			fd := FindFunc(gf, "ConnectionGate", m)
			kind := ""
			if fd != nil && fd.Body != nil {
				// the peer parameter: the one of type peer.ID
				peerParam := ""
				for _, p := range fd.Type.Params.List {
					if Src(p.Type) == "peer.ID" && len(p.Names) == 1 {
						peerParam = p.Names[0].Name
					}
				}
				// what decides: a single `return <expr>[, …]`, or `x = <expr>; …; return x` with only logging in between
				var decide ast.Expr
				plain := true
				named := ""
				if fd.Type.Results != nil && len(fd.Type.Results.List) > 0 && len(fd.Type.Results.List[0].Names) == 1 {
					named = fd.Type.Results.List[0].Names[0].Name
				}
				for _, st := range fd.Body.List {
					switch s := st.(type) {
					case *ast.ReturnStmt:
						if len(s.Results) >= 1 {
							if id := a2Ident(s.Results[0]); id != "" && id != "true" && id != "false" && decide != nil {
								// returns the variable assigned before
							} else {
								decide = s.Results[0]
							}
						}
					case *ast.AssignStmt:
						if len(s.Lhs) == 1 && len(s.Rhs) == 1 && (a2Ident(s.Lhs[0]) == named || s.Tok == token.DEFINE) && decide == nil {
							decide = s.Rhs[0]
						} else {
							plain = false
						}
					case *ast.IfStmt:
						// an if that only logs (no return, no assignment) does not decide anything
						Walk(s, func(n ast.Node) bool {
							switch n.(type) {
							case *ast.ReturnStmt, *ast.AssignStmt:
								plain = false
							}
							return true
						})
					case *ast.ExprStmt:
					default:
						plain = false
					}
				}
				if plain && decide != nil {
					if c, ok := decide.(*ast.CallExpr); ok && a2Method(c) == "IsAllowedPeer" && len(c.Args) == 1 && peerParam != "" && a2Ident(c.Args[0]) == peerParam {
						kind = "member"
					} else if a2Ident(decide) == "true" {
						kind = "true"
					} else if a2Ident(decide) == "false" {
						kind = "false"
					}
				}
			}
			if kind == "" {
				gaterOK = false
			}
			rets = append(rets, [2]string{m, kind})
		}
		if !gaterOK {
			o.Unavailable("gater", "a hook of ConnectionGate is missing or decides in a shape not understood (not a plain return of IsAllowedPeer(<peer param>) / true)")
		}
		w.WriteString("/-- what each hook of ConnectionGate returns: \"member\" = IsAllowedPeer of its peer parameter, \"true\" -/\n")
		w.WriteString("def gater : Option (List (String × String)) := " + LeanOpt(gaterOK, a2LeanPairs(rets)) + "\n")

		// ---------------------------------------------------------------- NetworkTopology
		tf := o.ParseFile("topology/topology.go")
		var psteps []string
		pOK := false
		for _, fd := range a2FuncsCalling(tf, "Decrypt") {
			if fd.Recv == nil || fd.Type.Params == nil {
				continue
			}
			hashParam := ""
			for _, p := range fd.Type.Params.List {
				if Src(p.Type) == "string" && len(p.Names) == 1 {
					hashParam = p.Names[0].Name
				}
			}
			hs := []hit{}
			Walk(fd.Body, func(n ast.Node) bool {
				switch x := n.(type) {
				case *ast.IfStmt:
					// the comparison with the announced hash: a condition that contains `<something> != <hash param>` (either
					// order) and whose body returns
					cmp := false
					Walk(x.Cond, func(m ast.Node) bool {
						if be, ok := m.(*ast.BinaryExpr); ok && be.Op == token.NEQ && hashParam != "" {
							l, r := a2Ident(be.X), a2Ident(be.Y)
							if (l == hashParam && r != "" && r != hashParam) || (r == hashParam && l != "" && l != hashParam) {
								cmp = true
							}
						}
						return true
					})
					rets := false
					Walk(x.Body, func(m ast.Node) bool {
						if _, ok := m.(*ast.ReturnStmt); ok {
							rets = true
						}
						return true
					})
					if cmp && rets {
						hs = append(hs, hit{int(x.Pos()), "compare"})
					}
				case *ast.CallExpr:
					switch {
					case a2Method(x) == "Decrypt":
						hs = append(hs, hit{int(x.Pos()), "decrypt"})
					case a2Qualified(x) == "json.Unmarshal":
						hs = append(hs, hit{int(x.Pos()), "unmarshal"})
					case a2Qualified(x) == "hex.DecodeString":
						hs = append(hs, hit{int(x.Pos()), "hexdecode"})
					}
				}
				return true
			})
			psteps = ordered(hs)
			has := map[string]bool{}
			for _, s := range psteps {
				has[s] = true
			}
			pOK = hashParam != "" && has["compare"] && has["decrypt"] && has["hexdecode"]
			break
		}
		if !pOK {
			o.Unavailable("providerSteps", "no method with a string parameter that hex-decodes, compares `x != <that parameter>` in a returning if, and calls Decrypt")
		}
		w.WriteString("/-- NetworkTopology: source order of hex decoding / the returning comparison with the announced hash / Decrypt / json.Unmarshal -/\n")
		w.WriteString("def providerSteps : Option (List String) := " + LeanOpt(pOK, LeanStrList(psteps)) + "\n")

		// ---------------------------------------------------------------- HandleEvents of the refresh handler
		hf := o.ParseFile("chains/evm/listener/eventHandlers/tss.go")
		var rsteps []string
		which := ""
		rOK := false
		for _, fd := range a2FuncsCalling(hf, "FetchRefreshEvents") {
			hs := []hit{}
			hashVar, evVar := "", ""
			// `X[len(X)-1]` / `X[0]`
			pick := func(e ast.Expr) string {
				ix, ok := e.(*ast.IndexExpr)
				if !ok {
					return ""
				}
				s := strings.ReplaceAll(Src(ix.Index), " ", "")
				switch {
				case s == "len("+Src(ix.X)+")-1":
					return "last"
				case s == "0":
					return "first"
				}
				return "other"
			}
			Walk(fd.Body, func(n ast.Node) bool {
				switch x := n.(type) {
				case *ast.AssignStmt:
					if len(x.Lhs) == 1 && len(x.Rhs) == 1 && a2Ident(x.Lhs[0]) != "" {
						if p := pick(x.Rhs[0]); p != "" { // ev := events[len-1]
							evVar, which = a2Ident(x.Lhs[0]), p
						}
						if sel, ok := x.Rhs[0].(*ast.SelectorExpr); ok && sel.Sel.Name == "Hash" {
							if p := pick(sel.X); p != "" {
								which = p
								hashVar = a2Ident(x.Lhs[0])
							} else if evVar != "" && a2Ident(sel.X) == evVar {
								hashVar = a2Ident(x.Lhs[0])
							}
						}
					}
				case *ast.IfStmt:
					c := strings.ReplaceAll(Src(x.Cond), " ", "")
					if hashVar != "" && (c == hashVar+"==\"\"" || c == "\"\"=="+hashVar || c == "len("+hashVar+")==0" || c == "0==len("+hashVar+")") {
						hs = append(hs, hit{int(x.Pos()), "empty-check"})
					}
				case *ast.CallExpr:
					switch a2Method(x) {
					case "FetchRefreshEvents":
						hs = append(hs, hit{int(x.Pos()), "events"})
					case "NetworkTopology":
						if len(x.Args) == 1 && a2Ident(x.Args[0]) == hashVar && hashVar != "" {
							hs = append(hs, hit{int(x.Pos()), "provider"})
						}
					case "StoreTopology":
						hs = append(hs, hit{int(x.Pos()), "store"})
					case "SetTopology":
						hs = append(hs, hit{int(x.Pos()), "gate"})
					case "LoadPeers":
						hs = append(hs, hit{int(x.Pos()), "peers"})
					}
				}
				return true
			})
			rsteps = ordered(hs)
			rOK = which != "" && len(rsteps) == 6
			break
		}
		if !rOK {
			o.Unavailable("refreshSteps", "HandleEvents: event selection / empty check / NetworkTopology(<hash>) / StoreTopology / SetTopology / LoadPeers not all found as direct statements")
		}
		w.WriteString("/-- HandleEvents: which refresh event's hash is used, and the source order of the located steps -/\n")
		w.WriteString("def refreshSteps : Option (String × List String) := " + LeanOpt(rOK, "("+LeanStr(which)+", "+LeanStrList(rsteps)+")") + "\n")
		o.Facts["refresh_steps"] = rsteps
		o.Facts["provider_steps"] = psteps
	}
}
