package main

import (
	"go/ast"
	"go/token"
	"strconv"
	"strings"
)

// statusNames maps the Go status constants to the numeric codes used in the generated Lean definitions
// (0 missing, 1 pending, 2 failed, 3 executed).
func c3StatusNames(v string) map[string]string {
	return map[string]string{v: "s", "store.MissingProp": "0", "store.PendingProp": "1", "store.FailedProp": "2", "store.ExecutedProp": "3"}
}

// c3LoopOrder classifies the top-level statements of the (first) `for … range` loop of fd whose body calls
// IsProposalExecuted: "lookup", "err-return", "skip-executed", "append:<target>"; other statements are ignored.
func c3LoopOrder(fd *ast.FuncDecl) []string {
	order := []string{}
	if fd == nil {
		return order
	}
	done := false
	Walk(fd.Body, func(n ast.Node) bool {
		rs, ok := n.(*ast.RangeStmt)
		if !ok || done {
			return !done
		}
		if !strings.Contains(Src(rs.Body), "IsProposalExecuted(") {
			return true
		}
		done = true
		for _, st := range rs.Body.List {
			switch s := st.(type) {
			case *ast.AssignStmt:
				src := Src(s)
				if strings.Contains(src, "IsProposalExecuted(") {
					order = append(order, "lookup")
				} else if len(s.Rhs) == 1 && strings.HasPrefix(Src(s.Rhs[0]), "append(") && (s.Tok == token.ASSIGN) {
					order = append(order, "append:"+Src(s.Lhs[0]))
				}
			case *ast.IfStmt:
				cond := Src(s.Cond)
				body := Src(s.Body)
				if cond == "err != nil" && strings.Contains(body, "return") {
					order = append(order, "err-return")
				} else if cond == "isExecuted" && strings.Contains(body, "continue") {
					order = append(order, "skip-executed")
				} else {
					order = append(order, "if:"+cond)
				}
			}
		}
		return false
	})
	return order
}

// c3LockTrace walks the body of fd in source order, tracking `<mutex>.Lock()` / `<mutex>.Unlock()` statements
// (function literals are not entered). It reports: a `defer <mutex>.Unlock()` directly after the Lock and before any
// return; for every return statement whether the mutex is held there when deferred calls are ignored; whether it
// is held when control falls off the end. Branch bodies start from the state before the branch and do not
// change the state after it (a branch that unlocks and returns is therefore seen correctly).
func c3LockTrace(fd *ast.FuncDecl, mutex string) (deferred bool, returnsHeld []bool, endHeld bool, locks int) {
	if fd == nil {
		return false, nil, true, 0
	}
	sawReturn := false
	var block func(list []ast.Stmt, held bool) bool
	block = func(list []ast.Stmt, held bool) bool {
		for _, st := range list {
			switch s := st.(type) {
			case *ast.ExprStmt:
				switch Src(s.X) {
				case mutex + ".Lock()":
					held = true
					locks++
				case mutex + ".Unlock()":
					held = false
				}
			case *ast.DeferStmt:
				if Src(s.Call) == mutex+".Unlock()" && held && !sawReturn {
					deferred = true
				}
			case *ast.ReturnStmt:
				sawReturn = true
				returnsHeld = append(returnsHeld, held)
			case *ast.IfStmt:
				block(s.Body.List, held)
				if s.Else != nil {
					if b, ok := s.Else.(*ast.BlockStmt); ok {
						block(b.List, held)
					} else if i, ok := s.Else.(*ast.IfStmt); ok {
						block([]ast.Stmt{i}, held)
					}
				}
			case *ast.ForStmt:
				block(s.Body.List, held)
			case *ast.RangeStmt:
				block(s.Body.List, held)
			case *ast.BlockStmt:
				held = block(s.List, held)
			case *ast.SwitchStmt:
				for _, c := range s.Body.List {
					if cc, ok := c.(*ast.CaseClause); ok {
						block(cc.Body, held)
					}
				}
			}
		}
		return held
	}
	endHeld = block(fd.Body.List, false)
	return
}

func leanBoolList(bs []bool) string {
	xs := []string{}
	for _, b := range bs {
		if b {
			xs = append(xs, "true")
		} else {
			xs = append(xs, "false")
		}
	}
	return "[" + strings.Join(xs, ", ") + "]"
}

func leanBool(b bool) string {
	if b {
		return "true"
	}
	return "false"
}

// c3IfWithBody finds the first `if` in fd whose body (printed) contains `needle`; returns its condition.
func c3IfWithBody(fd *ast.FuncDecl, needle string) ast.Expr {
	var out ast.Expr
	if fd == nil {
		return nil
	}
	Walk(fd.Body, func(n ast.Node) bool {
		if out != nil {
			return false
		}
		if s, ok := n.(*ast.IfStmt); ok && strings.Contains(Src(s.Body), needle) {
			out = s.Cond
			return false
		}
		return true
	})
	return out
}

func itoa(i int) string { return strconv.Itoa(i) }
