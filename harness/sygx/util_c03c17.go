package main

// Helpers of the C03 / C17 extractors. Anchors are located by SHAPE, never by the names of locals, receivers or
// unexported helpers: variable names are derived from the statements themselves (the "executed" flag is whatever the
// first result of the `<x>.IsProposalExecuted(…)` assignment is called, the status is whatever the first result of the
// `<x>.PropStatus(…)` assignment is called …), a method whose name is gone is found by receiver + signature, `if` chains
// and `switch` statements over the same value are translated to the same Lean term.

import (
	"go/ast"
	"go/token"
	"strconv"
	"strings"
)

func itoa(i int) string { return strconv.Itoa(i) }

func leanBool(b bool) string {
	if b {
		return "true"
	}
	return "false"
}

func leanBoolList(bs []bool) string {
	xs := []string{}
	for _, b := range bs {
		xs = append(xs, leanBool(b))
	}
	return "[" + strings.Join(xs, ", ") + "]"
}

// c3StatusCodes: the store's status constants as the numeric codes of the generated Lean definitions
// (0 missing, 1 pending, 2 failed, 3 executed); with and without the package qualifier.
var c3StatusCodes = map[string]int{"MissingProp": 0, "PendingProp": 1, "FailedProp": 2, "ExecutedProp": 3}

func c3StatusCode(e ast.Expr) (int, bool) {
	s := Src(e)
	if i := strings.LastIndex(s, "."); i >= 0 {
		s = s[i+1:]
	}
	c, ok := c3StatusCodes[s]
	return c, ok
}

func c3StatusNames(v string) map[string]string {
	m := map[string]string{v: "s"}
	for n, c := range c3StatusCodes {
		m["store."+n] = itoa(c)
		m[n] = itoa(c)
	}
	return m
}

// c3Method finds method `name` of receiver type `recv`; if the name is gone, the single method of that receiver for
// which `shape` holds (so that renaming an unexported helper does not lose the anchor).
func c3Method(f *ast.File, recv, name string, shape func(*ast.FuncDecl) bool) *ast.FuncDecl {
	if fd := FindFunc(f, recv, name); fd != nil {
		return fd
	}
	if f == nil || shape == nil {
		return nil
	}
	var found *ast.FuncDecl
	n := 0
	for _, d := range f.Decls {
		fd, ok := d.(*ast.FuncDecl)
		if !ok || fd.Body == nil {
			continue
		}
		if recv == "" && fd.Recv != nil || recv != "" && (fd.Recv == nil || !strings.HasSuffix(Src(fd.Recv.List[0].Type), recv)) {
			continue
		}
		if shape(fd) {
			found = fd
			n++
		}
	}
	if n == 1 {
		return found
	}
	return nil
}

func c3RecvName(fd *ast.FuncDecl) string {
	if fd != nil && fd.Recv != nil && len(fd.Recv.List) == 1 && len(fd.Recv.List[0].Names) == 1 {
		return fd.Recv.List[0].Names[0].Name
	}
	return ""
}

// c3Calls reports whether the printed node contains a call of a method/function called `name` (`.name(` or `name(`).
func c3Calls(n ast.Node, name string) bool {
	found := false
	Walk(n, func(m ast.Node) bool {
		if c, ok := m.(*ast.CallExpr); ok {
			switch fn := c.Fun.(type) {
			case *ast.SelectorExpr:
				if fn.Sel.Name == name {
					found = true
				}
			case *ast.Ident:
				if fn.Name == name {
					found = true
				}
			}
		}
		return !found
	})
	return found
}

func c3ParamTypes(fd *ast.FuncDecl) []string {
	ts := []string{}
	if fd == nil || fd.Type.Params == nil {
		return ts
	}
	for _, p := range fd.Type.Params.List {
		k := len(p.Names)
		if k == 0 {
			k = 1
		}
		for i := 0; i < k; i++ {
			ts = append(ts, Src(p.Type))
		}
	}
	return ts
}

// c3Results: the result types of fd joined by ", " ("" for none)
func c3Results(fd *ast.FuncDecl) string {
	ts := []string{}
	if fd == nil || fd.Type.Results == nil {
		return ""
	}
	for _, p := range fd.Type.Results.List {
		k := len(p.Names)
		if k == 0 {
			k = 1
		}
		for i := 0; i < k; i++ {
			ts = append(ts, Src(p.Type))
		}
	}
	return strings.Join(ts, ", ")
}

func c3ParamNames(fd *ast.FuncDecl) []string {
	ns := []string{}
	if fd == nil || fd.Type.Params == nil {
		return ns
	}
	for _, p := range fd.Type.Params.List {
		if len(p.Names) == 0 {
			ns = append(ns, "_")
		}
		for _, n := range p.Names {
			ns = append(ns, n.Name)
		}
	}
	return ns
}

// loopBody returns the body of a `for … range` or a 3-clause `for`, the ranged expression (range X / i < len(X)) and,
// for an indexed loop, the element variable bound by a leading `v := X[i]` (otherwise the range value).
func c3Loop(n ast.Node) (body *ast.BlockStmt, over string, ok bool) {
	switch l := n.(type) {
	case *ast.RangeStmt:
		return l.Body, Src(l.X), true
	case *ast.ForStmt:
		if b, isB := l.Cond.(*ast.BinaryExpr); isB && (b.Op == token.LSS || b.Op == token.GTR) {
			for _, side := range []ast.Expr{b.X, b.Y} {
				if c, isC := side.(*ast.CallExpr); isC && Src(c.Fun) == "len" && len(c.Args) == 1 {
					return l.Body, Src(c.Args[0]), true
				}
			}
		}
		return l.Body, "", true
	}
	return nil, "", false
}

// c3FilterOrder normalises the executed-filter of a collecting loop: the first loop of fd whose body assigns the
// results of a `.IsProposalExecuted(` call. Result tags, in source order:
//   lookup, err-return (if <err> != nil { return … }), skip-executed (if <exec> { continue }  — or the guard
//   `if !<exec> { … append … }`, which is reported as skip-executed followed by append), append (X = append(X, …)).
// Returns ok=false when the loop is not found or a tag cannot be identified (e.g. the lookup moved into a helper).
// target = the slice expression the proposals are collected into.
func c3FilterOrder(f *ast.File, fd *ast.FuncDecl) (order []string, target string, ok bool) {
	if fd == nil {
		return nil, "", false
	}
	// the lookup itself, or (one level) a same-file helper returning (bool, error) that performs it
	isLookup := func(a *ast.AssignStmt) bool {
		if c3Calls(a, "IsProposalExecuted") {
			return true
		}
		if len(a.Rhs) != 1 || f == nil {
			return false
		}
		c, isC := a.Rhs[0].(*ast.CallExpr)
		if !isC {
			return false
		}
		name := ""
		switch fn := c.Fun.(type) {
		case *ast.SelectorExpr:
			name = fn.Sel.Name
		case *ast.Ident:
			name = fn.Name
		}
		for _, d := range f.Decls {
			if h, isF := d.(*ast.FuncDecl); isF && h.Name.Name == name && h.Body != nil && c3Results(h) == "bool, error" && c3Calls(h.Body, "IsProposalExecuted") {
				return true
			}
		}
		return false
	}
	var body *ast.BlockStmt
	Walk(fd.Body, func(n ast.Node) bool {
		if body != nil {
			return false
		}
		if b, _, isLoop := c3Loop(n); isLoop && b != nil {
			for _, st := range b.List {
				if a, isA := st.(*ast.AssignStmt); isA && isLookup(a) {
					body = b
					return false
				}
			}
		}
		return true
	})
	if body == nil {
		return nil, "", false
	}
	execVar, errVar := "", ""
	appendOf := func(st ast.Stmt) (string, bool) {
		a, isA := st.(*ast.AssignStmt)
		if !isA || len(a.Lhs) != 1 || len(a.Rhs) != 1 {
			return "", false
		}
		c, isC := a.Rhs[0].(*ast.CallExpr)
		if !isC || Src(c.Fun) != "append" || len(c.Args) < 2 || Src(c.Args[0]) != Src(a.Lhs[0]) {
			return "", false
		}
		return Src(a.Lhs[0]), true
	}
	isNot := func(e ast.Expr, v string) bool {
		u, isU := e.(*ast.UnaryExpr)
		return isU && u.Op == token.NOT && Src(u.X) == v
	}
	for _, st := range body.List {
		switch s := st.(type) {
		case *ast.AssignStmt:
			if isLookup(s) && len(s.Lhs) == 2 {
				execVar, errVar = Src(s.Lhs[0]), Src(s.Lhs[1])
				order = append(order, "lookup")
			} else if t, isApp := appendOf(s); isApp && execVar != "" {
				order = append(order, "append")
				target = t
			} else if t, isApp := appendOf(s); isApp {
				// collected before the lookup
				order = append(order, "append")
				target = t
			}
		case *ast.IfStmt:
			if execVar == "" {
				continue
			}
			cond := Src(s.Cond)
			switch {
			case (cond == errVar+" != nil" || cond == "nil != "+errVar) && c3HasReturn(s.Body):
				order = append(order, "err-return")
			case cond == execVar && c3HasBranch(s.Body, token.CONTINUE) && s.Else == nil:
				order = append(order, "skip-executed")
			case cond == execVar && c3HasBranch(s.Body, token.CONTINUE) && s.Else != nil:
				// if exec { continue } else { … append … }
				order = append(order, "skip-executed")
				if eb, isB := s.Else.(*ast.BlockStmt); isB {
					for _, st2 := range eb.List {
						if t, isApp := appendOf(st2); isApp {
							order = append(order, "append")
							target = t
						}
					}
				}
			case isNot(s.Cond, execVar):
				for _, st2 := range s.Body.List {
					if t, isApp := appendOf(st2); isApp {
						order = append(order, "skip-executed", "append")
						target = t
					}
				}
			}
		}
	}
	has := map[string]bool{}
	for _, t := range order {
		has[t] = true
	}
	if !(has["lookup"] && has["err-return"] && has["skip-executed"] && has["append"]) {
		return order, target, false
	}
	return order, target, true
}

func c3HasReturn(b *ast.BlockStmt) bool {
	for _, st := range b.List {
		if _, ok := st.(*ast.ReturnStmt); ok {
			return true
		}
	}
	return false
}

func c3HasBranch(b *ast.BlockStmt, tok token.Token) bool {
	for _, st := range b.List {
		if br, ok := st.(*ast.BranchStmt); ok && br.Tok == tok {
			return true
		}
	}
	return false
}

// c3ReturnsBoolFirst: the block's (last) return statement returns the literal `want` as its first value.
func c3ReturnsBoolFirst(stmts []ast.Stmt, want string) bool {
	for _, st := range stmts {
		if r, ok := st.(*ast.ReturnStmt); ok && len(r.Results) >= 1 && Src(r.Results[0]) == want {
			return true
		}
	}
	return false
}

// c3StatusDecision translates "for which status does the function do <pick>?" into a Lean Bool over the status code
// `s`, from an `if` chain or a `switch` over the status variable (the first result of the `.PropStatus(` call).
// pick(stmts) says whether a branch body is the one asked for. Handles `if c { pick }`, `switch v { case A, B: pick }`
// and a `default:` that picks (the negation of all other cases). ok=false if nothing was found.
func c3StatusDecision(fd *ast.FuncDecl, pick func([]ast.Stmt) bool) (string, bool) {
	if fd == nil {
		return "false", false
	}
	statusVar := ""
	Walk(fd.Body, func(n ast.Node) bool {
		if a, ok := n.(*ast.AssignStmt); ok && statusVar == "" && c3Calls(a, "PropStatus") && len(a.Lhs) >= 1 {
			statusVar = Src(a.Lhs[0])
		}
		return true
	})
	if statusVar == "" {
		return "false", false
	}
	names := c3StatusNames(statusVar)
	terms := []string{}
	ok := true
	found := false
	Walk(fd.Body, func(n ast.Node) bool {
		switch s := n.(type) {
		case *ast.IfStmt:
			if strings.Contains(Src(s.Cond), statusVar) && pick(s.Body.List) {
				t, tok := LeanExpr(s.Cond, names)
				terms = append(terms, t)
				ok = ok && tok
				found = true
			}
		case *ast.SwitchStmt:
			if s.Tag == nil || Src(s.Tag) != statusVar {
				return true
			}
			others := []string{}
			for _, c := range s.Body.List {
				cc := c.(*ast.CaseClause)
				eqs := []string{}
				for _, e := range cc.List {
					code, cok := c3StatusCode(e)
					ok = ok && cok
					eqs = append(eqs, "decide (s = "+itoa(code)+")")
				}
				if cc.List == nil { // default
					if pick(cc.Body) {
						found = true
						terms = append(terms, "DEFAULT")
					}
					continue
				}
				if pick(cc.Body) {
					found = true
					terms = append(terms, eqs...)
				} else {
					others = append(others, eqs...)
				}
			}
			for i, t := range terms {
				if t == "DEFAULT" {
					if len(others) == 0 {
						terms[i] = "true"
					} else {
						terms[i] = "(!(" + strings.Join(others, " || ") + "))"
					}
				}
			}
			return false
		}
		return true
	})
	if !found || !ok {
		return "false", false
	}
	return "(" + strings.Join(terms, " || ") + ")", true
}

// c3LockTrace walks the body of fd in source order, tracking `<mutex>.Lock()` / `<mutex>.Unlock()` statements
// (function literals are not entered). It reports: a `defer <mutex>.Unlock()` directly after the Lock and before any
// return; for every return statement whether the mutex is held there when deferred calls are ignored; whether it
// is held when control falls off the end. Branch bodies start from the state before the branch and do not
// change the state after it (a branch that unlocks and returns is therefore seen correctly).
//
// helpers: one level of same-file helper calls is followed — `<recv>.<h>()` counts as Lock / Unlock when method h of the
// same receiver type consists of exactly that one statement on the same mutex field (see c3LockHelpers).
func c3LockTrace(fd *ast.FuncDecl, mutex string, helpers map[string]string) (deferred bool, returnsHeld []bool, endHeld bool, locks int) {
	if fd == nil {
		return false, nil, true, 0
	}
	recv := c3RecvName(fd)
	kind := func(call string) string {
		switch call {
		case mutex + ".Lock()":
			return "lock"
		case mutex + ".Unlock()":
			return "unlock"
		}
		for h, k := range helpers {
			if call == recv+"."+h+"()" {
				return k
			}
		}
		return ""
	}
	sawReturn := false
	var block func(list []ast.Stmt, held bool) bool
	block = func(list []ast.Stmt, held bool) bool {
		for _, st := range list {
			switch s := st.(type) {
			case *ast.ExprStmt:
				switch kind(Src(s.X)) {
				case "lock":
					held = true
					locks++
				case "unlock":
					held = false
				}
			case *ast.DeferStmt:
				if kind(Src(s.Call)) == "unlock" && held && !sawReturn {
					deferred = true
				}
			case *ast.ReturnStmt:
				sawReturn = true
				returnsHeld = append(returnsHeld, held)
			case *ast.IfStmt:
				block(s.Body.List, held)
				if s.Else != nil {
					if b, ok := s.Else.(*ast.BlockStmt); ok {
						block(b.List, held)
					} else if i, ok := s.Else.(*ast.IfStmt); ok {
						block([]ast.Stmt{i}, held)
					}
				}
			case *ast.ForStmt:
				block(s.Body.List, held)
			case *ast.RangeStmt:
				block(s.Body.List, held)
			case *ast.BlockStmt:
				held = block(s.List, held)
			case *ast.SwitchStmt:
				for _, c := range s.Body.List {
					if cc, ok := c.(*ast.CaseClause); ok {
						block(cc.Body, held)
					}
				}
			}
		}
		return held
	}
	endHeld = block(fd.Body.List, false)
	return
}

// c3LockHelpers: methods of receiver type `typ` whose body is exactly `<r>.<field>.Lock()` or `<r>.<field>.Unlock()`.
func c3LockHelpers(f *ast.File, typ, field string) map[string]string {
	out := map[string]string{}
	if f == nil {
		return out
	}
	for _, d := range f.Decls {
		fd, ok := d.(*ast.FuncDecl)
		if !ok || fd.Recv == nil || fd.Body == nil || len(fd.Body.List) != 1 || !strings.HasSuffix(Src(fd.Recv.List[0].Type), typ) {
			continue
		}
		if es, ok := fd.Body.List[0].(*ast.ExprStmt); ok {
			switch Src(es.X) {
			case c3RecvName(fd) + "." + field + ".Lock()":
				out[fd.Name.Name] = "lock"
			case c3RecvName(fd) + "." + field + ".Unlock()":
				out[fd.Name.Name] = "unlock"
			}
		}
	}
	return out
}

// c3MutexField: the name of the (single) field of struct `typ` in f whose type is sync.Mutex.
func c3MutexField(f *ast.File, typ string) string {
	name, n := "", 0
	if f == nil {
		return ""
	}
	Walk(f, func(nd ast.Node) bool {
		ts, ok := nd.(*ast.TypeSpec)
		if !ok || ts.Name.Name != typ {
			return true
		}
		if st, ok := ts.Type.(*ast.StructType); ok {
			for _, fl := range st.Fields.List {
				if Src(fl.Type) == "sync.Mutex" {
					for _, nm := range fl.Names {
						name = nm.Name
						n++
					}
				}
			}
		}
		return false
	})
	if n == 1 {
		return name
	}
	return ""
}
