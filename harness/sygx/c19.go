package main

import (
	"go/ast"
	"strings"
)

// C19: the wiring facts of C05 (alignment of every start block goes through CalculateStartingBlock in the evm and
// substrate branches) plus, for the Bitcoin credit: inside ProcessDeposits no `range` over the resources map decides
// which resource is tried first — the per-transaction loop ranges over a slice that was sorted with sort.Slice.
func init() {
	extractors["C19"] = func(o *Out) {
		extractors["C05"](o)
		f := o.ParseFile("chains/btc/listener/event-handlers.go")
		fd := FindFunc(f, "FungibleTransferEventHandler", "ProcessDeposits")
		sorted, innerOverMap, innerOverSlice := false, false, false
		sortedName := ""
		if fd != nil {
			Walk(fd.Body, func(n ast.Node) bool {
				if c, ok := n.(*ast.CallExpr); ok && Src(c.Fun) == "sort.Slice" && len(c.Args) == 2 {
					sorted = true
					sortedName = Src(c.Args[0])
				}
				return true
			})
			// the loop that calls DecodeDepositEvent
			Walk(fd.Body, func(n ast.Node) bool {
				rs, ok := n.(*ast.RangeStmt)
				if !ok || !strings.Contains(Src(rs.Body), "DecodeDepositEvent(") || strings.Contains(Src(rs.X), "evts") {
					return true
				}
				if Src(rs.X) == "eh.resources" {
					innerOverMap = true
				}
				if sortedName != "" && Src(rs.X) == sortedName {
					innerOverSlice = true
				}
				return true
			})
		}
		o.Facts["btc_resources_sorted"] = sorted
		o.Facts["btc_match_loop_over_map"] = innerOverMap
		o.Facts["btc_match_loop_over_sorted_slice"] = innerOverSlice
		b := func(x bool) string {
			if x {
				return "true"
			}
			return "false"
		}
		o.Lean.WriteString("def btcMatchLoopOverSortedSlice : Bool := " + b(sorted && innerOverSlice && !innerOverMap) + "\n")
		// message id format strings
		for _, it := range [][3]string{{"chains/evm/listener/eventHandlers/deposit.go", "DepositEventHandler", "evmDepositFmt"},
			{"chains/substrate/listener/event-handlers.go", "FungibleTransferEventHandler", "subDepositFmt"},
			{"chains/btc/listener/deposit-handler.go", "BtcDepositHandler", "btcDepositFmt"}} {
			ff := o.ParseFile(it[0])
			fmtS, args := "", ""
			meth := "ProcessDeposits"
			if it[2] == "btcDepositFmt" {
				meth = "HandleDeposit"
			}
			if d := FindFunc(ff, it[1], meth); d != nil {
				Walk(d.Body, func(n ast.Node) bool {
					if as, ok := n.(*ast.AssignStmt); ok && len(as.Lhs) == 1 && Src(as.Lhs[0]) == "messageID" {
						if c, ok := as.Rhs[0].(*ast.CallExpr); ok && Src(c.Fun) == "fmt.Sprintf" && len(c.Args) >= 2 {
							fmtS = strings.Trim(Src(c.Args[0]), "\"")
							xs := []string{}
							for _, a := range c.Args[1:] {
								xs = append(xs, Src(a))
							}
							args = strings.Join(xs, ",")
						}
					}
					return true
				})
			}
			o.Facts[it[2]] = fmtS + " <- " + args
			o.Lean.WriteString("def " + it[2] + " : String × String := (" + LeanStr(fmtS) + ", " + LeanStr(args) + ")\n")
		}
		// every other id derivation: `<var> := fmt.Sprintf(fmt, args…)` / `<var> := hex.EncodeToString(x)` inside a method
		sprintf := func(file, recv, meth, variable string) (string, string) {
			ff := o.ParseFile(file)
			fmtS, args := "", ""
			if d := FindFunc(ff, recv, meth); d != nil {
				Walk(d.Body, func(n ast.Node) bool {
					if as, ok := n.(*ast.AssignStmt); ok && len(as.Lhs) == 1 && Src(as.Lhs[0]) == variable && len(as.Rhs) == 1 {
						if c, ok := as.Rhs[0].(*ast.CallExpr); ok {
							xs := []string{}
							switch Src(c.Fun) {
							case "fmt.Sprintf":
								fmtS = strings.Trim(Src(c.Args[0]), "\"")
								for _, a := range c.Args[1:] {
									xs = append(xs, Src(a))
								}
							default:
								fmtS = Src(c.Fun)
								for _, a := range c.Args {
									xs = append(xs, Src(a))
								}
							}
							args = strings.Join(xs, ",")
						}
					}
					return true
				})
			}
			return fmtS, args
		}
		for _, it := range [][5]string{
			{"chains/evm/listener/eventHandlers/retry.go", "RetryV1EventHandler", "HandleEvents", "messageID", "evmRetryV1Fmt"},
			{"chains/evm/listener/eventHandlers/retry.go", "RetryV2EventHandler", "HandleEvents", "messageID", "evmRetryV2Fmt"},
			{"chains/substrate/listener/event-handlers.go", "RetryEventHandler", "HandleEvents", "messageID", "subRetryFmt"},
		} {
			f1, a1 := sprintf(it[0], it[1], it[2], it[3])
			o.Facts[it[4]] = f1 + " <- " + a1
			o.Lean.WriteString("def " + it[4] + " : String × String := (" + LeanStr(f1) + ", " + LeanStr(a1) + ")\n")
		}
		// BTC executor: the transfer-wide id is the FIRST assignment to sessionID in executeResourceProps, the per-input id
		// the one inside the loop over tx.TxIn; Substrate executor: NewSigning(msg, messageID, messageID, …)
		bf := o.ParseFile("chains/btc/executor/executor.go")
		all := []string{}
		if d := FindFunc(bf, "Executor", "executeResourceProps"); d != nil {
			Walk(d.Body, func(n ast.Node) bool {
				if as, ok := n.(*ast.AssignStmt); ok && len(as.Lhs) == 1 && Src(as.Lhs[0]) == "sessionID" {
					all = append(all, Src(as.Rhs[0]))
				}
				return true
			})
		}
		o.Facts["btc_session_assignments"] = all
		o.Lean.WriteString("def btcSessionAssignments : List String := " + LeanStrList(all) + "\n")
		sf := o.ParseFile("chains/substrate/executor/executor.go")
		sargs := []string{}
		smsg := ""
		if d := FindFunc(sf, "Executor", "Execute"); d != nil {
			Walk(d.Body, func(n ast.Node) bool {
				if c, ok := n.(*ast.CallExpr); ok && Src(c.Fun) == "signing.NewSigning" && len(c.Args) >= 3 {
					sargs = []string{Src(c.Args[1]), Src(c.Args[2])}
				}
				if as, ok := n.(*ast.AssignStmt); ok && len(as.Lhs) == 1 && Src(as.Lhs[0]) == "messageID" {
					smsg = Src(as.Rhs[0])
				}
				return true
			})
		}
		sargs = append([]string{smsg}, sargs...)
		o.Facts["sub_session_args"] = sargs
		o.Lean.WriteString("def subSessionArgs : List String := " + LeanStrList(sargs) + "\n")
	}
}
