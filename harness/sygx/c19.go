package main

import (
	"go/ast"
	"go/token"
	"strings"
)

// C19: the wiring facts of C05 (every start block goes through CalculateStartingBlock in the evm and substrate
// branches) plus, located by SHAPE:
//   * every message-id / session-id derivation: the format string of the fmt.Sprintf that builds it and its arguments
//     NORMALISED to what they are — `p<i>` the i-th parameter of the exported method, `recv:<type>` a field of the
//     receiver (by its type), `.<Field>` an exported field of some value, `local` anything computed locally,
//     `hex(…)` for hex.EncodeToString — so that renaming a receiver, a local or an unexported helper, or moving the
//     two statements into a same-file helper (one level is followed, parameters substituted) does not change the fact;
//   * the Bitcoin matching loop: the loop that calls DecodeDepositEvent ranges (range or indexed) over the slice that
//     was handed to sort.Slice, not over a map field of the receiver.
// Everything is an Option; `none` = not located (T-tie unavailable for that fact).

type c19Ctx struct {
	file   *ast.File
	fd     *ast.FuncDecl   // the method whose parameters are p0, p1, …
	recv   string
	pidx   map[string]int
	ftypes map[string]string // receiver struct field -> type
	inner  *gctx             // where the expression lives (fd itself or a helper)
	subst  map[string]ast.Expr
}

func newC19Ctx(file *ast.File, fd *ast.FuncDecl) *c19Ctx {
	c := &c19Ctx{file: file, fd: fd, pidx: map[string]int{}, ftypes: map[string]string{}}
	g := newGctx(file, fd)
	c.recv, c.inner = g.recv, g
	i := 0
	for _, p := range fd.Type.Params.List {
		for _, n := range p.Names {
			c.pidx[n.Name] = i
			i++
		}
	}
	if fd.Recv != nil && len(fd.Recv.List) == 1 {
		t := fd.Recv.List[0].Type
		if s, ok := t.(*ast.StarExpr); ok {
			t = s.X
		}
		tn := Src(t)
		for _, d := range file.Decls {
			if gd, ok := d.(*ast.GenDecl); ok {
				for _, sp := range gd.Specs {
					if ts, ok := sp.(*ast.TypeSpec); ok && ts.Name.Name == tn {
						if st, ok := ts.Type.(*ast.StructType); ok {
							for _, fl := range st.Fields.List {
								for _, n := range fl.Names {
									c.ftypes[n.Name] = Src(fl.Type)
								}
							}
						}
					}
				}
			}
		}
	}
	return c
}

// norm: what an id argument IS (see the file comment)
func (c *c19Ctx) norm(e ast.Expr, depth int) string {
	if depth > 8 {
		return "local"
	}
	switch x := e.(type) {
	case *ast.ParenExpr:
		return c.norm(x.X, depth+1)
	case *ast.Ident:
		if s, ok := c.subst[x.Name]; ok { // a helper's parameter: what the caller passed
			outer := *c
			outer.subst = nil
			outer.inner = newGctx(c.file, c.fd)
			return outer.norm(s, depth+1)
		}
		if c.subst == nil {
			if i, ok := c.pidx[x.Name]; ok && !c.shadowed(x) {
				return "p" + itoaS(i)
			}
		}
		if d, ok := c.inner.defs[x.Name]; ok {
			if call, ok := d.(*ast.CallExpr); ok {
				switch c05FunName(call.Fun) {
				case "CalcTaprootSignatureHash":
					return "sighash"
				case "EncodeToString", "Sprintf":
					return c.norm(d, depth+1)
				}
				return "local"
			}
			return c.norm(d, depth+1)
		}
		return "local"
	case *ast.SelectorExpr:
		if id, ok := x.X.(*ast.Ident); ok && id.Name == c.innerRecv() && id.Name != "" {
			if t, ok := c.ftypes[x.Sel.Name]; ok {
				return "recv:" + t
			}
			return "recv"
		}
		if ast.IsExported(x.Sel.Name) {
			base := ""
			if ix, ok := x.X.(*ast.IndexExpr); ok {
				base = "[" + Src(ix.Index) + "]"
			}
			return base + "." + x.Sel.Name
		}
		return "local"
	case *ast.SliceExpr:
		return c.norm(x.X, depth+1)
	case *ast.CallExpr:
		if c05FunName(x.Fun) == "EncodeToString" && len(x.Args) == 1 {
			return "hex(" + c.norm(x.Args[0], depth+1) + ")"
		}
		if c05FunName(x.Fun) == "Sprintf" && len(x.Args) >= 1 {
			xs := []string{}
			for _, a := range x.Args[1:] {
				xs = append(xs, c.norm(a, depth+1))
			}
			return "fmt(" + strings.Trim(Src(x.Args[0]), "\"") + ";" + strings.Join(xs, ",") + ")"
		}
		return "local"
	}
	return "local"
}

func (c *c19Ctx) innerRecv() string { return c.inner.recv }

// shadowed: is this identifier a parameter of an enclosing function literal rather than of the method?
func (c *c19Ctx) shadowed(id *ast.Ident) bool {
	sh := false
	Walk(c.fd.Body, func(n ast.Node) bool {
		fl, ok := n.(*ast.FuncLit)
		if !ok || !(fl.Pos() <= id.Pos() && id.Pos() <= fl.End()) {
			return true
		}
		for _, p := range fl.Type.Params.List {
			for _, nm := range p.Names {
				if nm.Name == id.Name {
					sh = true
				}
			}
		}
		return true
	})
	return sh
}

func itoaS(i int) string {
	if i == 0 {
		return "0"
	}
	s := ""
	for i > 0 {
		s = string(rune('0'+i%10)) + s
		i /= 10
	}
	return s
}

// sprintfIn: the fmt.Sprintf calls in body whose format (a literal) satisfies want
func sprintfIn(body ast.Node, want func(string) bool) []*ast.CallExpr {
	out := []*ast.CallExpr{}
	Walk(body, func(n ast.Node) bool {
		if c, ok := n.(*ast.CallExpr); ok && Src(c.Fun) == "fmt.Sprintf" && len(c.Args) >= 1 {
			if l, ok := c.Args[0].(*ast.BasicLit); ok && l.Kind == token.STRING && want(strings.Trim(l.Value, "\"`")) {
				out = append(out, c)
			}
		}
		return true
	})
	return out
}

// idFormat: the id-building Sprintf of method fd (or of a same-file helper it calls, one level), normalised
func idFormat(file *ast.File, fd *ast.FuncDecl, want func(string) bool) (string, string, bool) {
	if file == nil || fd == nil {
		return "", "", false
	}
	c := newC19Ctx(file, fd)
	render := func(cc *c19Ctx, call *ast.CallExpr) (string, string) {
		cc.inner.collectDefsAt(call.Pos())
		xs := []string{}
		for _, a := range call.Args[1:] {
			xs = append(xs, cc.norm(a, 0))
		}
		return strings.Trim(Src(call.Args[0]), "\"`"), strings.Join(xs, ",")
	}
	if cs := sprintfIn(fd.Body, want); len(cs) == 1 {
		f, a := render(c, cs[0])
		return f, a, true
	} else if len(cs) > 1 {
		return "", "", false
	}
	// one level of same-file helpers
	var resF, resA string
	n := 0
	Walk(fd.Body, func(m ast.Node) bool {
		call, ok := m.(*ast.CallExpr)
		if !ok {
			return true
		}
		name := ""
		switch f := call.Fun.(type) {
		case *ast.Ident:
			name = f.Name
		case *ast.SelectorExpr:
			if id, ok := f.X.(*ast.Ident); ok && id.Name == c.recv {
				name = f.Sel.Name
			}
		}
		if name == "" {
			return true
		}
		for _, d := range file.Decls {
			h, ok := d.(*ast.FuncDecl)
			if !ok || h.Name.Name != name || h.Body == nil || h == fd {
				continue
			}
			cs := sprintfIn(h.Body, want)
			if len(cs) != 1 {
				continue
			}
			hc := newC19Ctx(file, fd)
			hc.inner = newGctx(file, h)
			hc.subst = map[string]ast.Expr{}
			i := 0
			for _, p := range h.Type.Params.List {
				for _, pn := range p.Names {
					if i < len(call.Args) {
						hc.subst[pn.Name] = call.Args[i]
					}
					i++
				}
			}
			resF, resA = render(hc, cs[0])
			n++
		}
		return true
	})
	return resF, resA, n == 1
}

func init() {
	extractors["C19"] = func(o *Out) {
		extractors["C05"](o)
		pair := func(name, f, a string, ok bool, why string) {
			o.Facts[name] = f + " <- " + a
			if !ok {
				o.Unavailable(name, why)
			}
			o.Lean.WriteString("def " + name + " : Option (String × String) := " + LeanOpt(ok, LeanStr(f)+", "+LeanStr(a)) + "\n")
		}
		has := func(sub string) func(string) bool { return func(s string) bool { return strings.Contains(s, sub) } }
		// message ids
		for _, it := range [][4]string{
			{"chains/evm/listener/eventHandlers/deposit.go", "DepositEventHandler", "ProcessDeposits", "evmDepositFmt"},
			{"chains/substrate/listener/event-handlers.go", "FungibleTransferEventHandler", "ProcessDeposits", "subDepositFmt"},
			{"chains/btc/listener/deposit-handler.go", "BtcDepositHandler", "HandleDeposit", "btcDepositFmt"},
			{"chains/evm/listener/eventHandlers/retry.go", "RetryV1EventHandler", "HandleEvents", "evmRetryV1Fmt"},
			{"chains/evm/listener/eventHandlers/retry.go", "RetryV2EventHandler", "HandleEvents", "evmRetryV2Fmt"},
			{"chains/substrate/listener/event-handlers.go", "RetryEventHandler", "HandleEvents", "subRetryFmt"},
		} {
			ff := o.ParseFile(it[0])
			f, a, ok := idFormat(ff, FindFunc(ff, it[1], it[2]), has("%d-%d"))
			pair(it[3], f, a, ok, "the fmt.Sprintf that builds the message id was not located in "+it[1]+"."+it[2]+" or one helper level below")
		}
		// Bitcoin executor: the method of Executor that calls NewSigning (found by that call, its own name may change)
		bf := o.ParseFile("chains/btc/executor/executor.go")
		var bm *ast.FuncDecl
		if bf != nil {
			for _, d := range bf.Decls {
				if m, ok := d.(*ast.FuncDecl); ok && m.Recv != nil && m.Body != nil && c05CallsNamed(m.Body, "NewSigning") {
					bm = m
				}
			}
		}
		f1, a1, ok1 := idFormat(bf, bm, has("%s-%s"))
		pair("btcTransferSession", f1, a1, ok1, "the transfer-wide session id Sprintf was not located")
		perInput, okIn := "", false
		if bm != nil {
			c := newC19Ctx(bf, bm)
			Walk(bm.Body, func(n ast.Node) bool {
				if call, ok := n.(*ast.CallExpr); ok && c05FunName(call.Fun) == "NewSigning" && len(call.Args) >= 5 {
					c.inner.collectDefsAt(call.Pos())
					perInput, okIn = c.norm(call.Args[4], 0), true
				}
				return true
			})
		}
		o.Facts["btcInputSession"] = perInput
		if !okIn {
			o.Unavailable("btcInputSession", "the frost NewSigning call of the Bitcoin executor was not located")
		}
		o.Lean.WriteString("def btcInputSession : Option String := " + LeanOpt(okIn, LeanStr(perInput)) + "\n")
		// Substrate executor: message id and session id handed to NewSigning
		sf := o.ParseFile("chains/substrate/executor/executor.go")
		sa, okS := "", false
		if fd := FindFunc(sf, "Executor", "Execute"); fd != nil {
			c := newC19Ctx(sf, fd)
			Walk(fd.Body, func(n ast.Node) bool {
				if call, ok := n.(*ast.CallExpr); ok && c05FunName(call.Fun) == "NewSigning" && len(call.Args) >= 3 {
					c.inner.collectDefsAt(call.Pos())
					sa, okS = c.norm(call.Args[1], 0)+","+c.norm(call.Args[2], 0), true
				}
				return true
			})
		}
		o.Facts["subSessionArgs"] = sa
		if !okS {
			o.Unavailable("subSessionArgs", "the NewSigning call of the Substrate executor was not located")
		}
		o.Lean.WriteString("def subSessionArgs : Option String := " + LeanOpt(okS, LeanStr(sa)) + "\n")
		// Bitcoin matching loop
		lf := o.ParseFile("chains/btc/listener/event-handlers.go")
		located, sorted := false, false
		if fd := FindFunc(lf, "FungibleTransferEventHandler", "ProcessDeposits"); fd != nil {
			g := newGctx(lf, fd)
			sortedName := ""
			Walk(fd.Body, func(n ast.Node) bool {
				if c, ok := n.(*ast.CallExpr); ok && (Src(c.Fun) == "sort.Slice" || Src(c.Fun) == "sort.SliceStable" || Src(c.Fun) == "slices.SortFunc") && len(c.Args) == 2 {
					sortedName = Src(c.Args[0])
				}
				return true
			})
			overSorted := func(x ast.Expr) bool { return sortedName != "" && Src(x) == sortedName }
			Walk(fd.Body, func(n ast.Node) bool {
				switch l := n.(type) {
				case *ast.RangeStmt:
					if !c05CallsNamed(l.Body, "DecodeDepositEvent") || c05CallsNamed(l.Body, "CalculateNonce") && false {
						return true
					}
					// the innermost loop that contains the call decides
					inner := false
					Walk(l.Body, func(m ast.Node) bool {
						switch k := m.(type) {
						case *ast.RangeStmt:
							if c05CallsNamed(k.Body, "DecodeDepositEvent") {
								inner = true
							}
						case *ast.ForStmt:
							if c05CallsNamed(k.Body, "DecodeDepositEvent") {
								inner = true
							}
						}
						return true
					})
					if inner {
						return true
					}
					located = true
					if overSorted(l.X) {
						sorted = true
					} else if s, ok := l.X.(*ast.SelectorExpr); ok && Src(s.X) == g.recv {
						sorted = false // ranges over a field of the receiver: the resources map
					} else {
						located = false
					}
				case *ast.ForStmt:
					inner := false
					Walk(l.Body, func(m ast.Node) bool {
						switch k := m.(type) {
						case *ast.RangeStmt:
							if c05CallsNamed(k.Body, "DecodeDepositEvent") {
								inner = true
							}
						case *ast.ForStmt:
							if c05CallsNamed(k.Body, "DecodeDepositEvent") {
								inner = true
							}
						}
						return true
					})
					if inner || !c05CallsNamed(l.Body, "DecodeDepositEvent") {
						return true
					}
					located = true
					sorted = sortedName != "" && l.Cond != nil && strings.Contains(Src(l.Cond), "len("+sortedName+")")
				}
				return true
			})
		}
		o.Facts["btc_match_loop"] = map[string]bool{"located": located, "over_sorted_slice": sorted}
		if !located {
			o.Unavailable("btcMatchLoopOverSortedSlice", "the loop that calls DecodeDepositEvent was not located in ProcessDeposits")
		}
		sb := "false"
		if sorted {
			sb = "true"
		}
		o.Lean.WriteString("def btcMatchLoopOverSortedSlice : Option Bool := " + LeanOpt(located, sb) + "\n")
	}
}
