package main

import (
	"go/ast"
	"go/token"
	"strings"
)

// C08: source facts that decide the orchestration clauses and that a quick run cannot always exhibit:
//   - tss/ecdsa/resharing Run: the argument list of tss.NewReSharingParameters
//   - tss/ecdsa/resharing, tss/frost/resharing NewResharing: where the constructor's threshold goes
//   - tss/ecdsa/signing Run: the coordinator flag is ASSIGNED, unconditionally, as a top-level statement
//   - chains/btc/executor executeResourceProps: inside the per-input loop the session id is re-declared as the hex of that
//     input's signing hash, and what NewSigning is given
func init() {
	extractors["C08"] = func(o *Out) {
		args := func(c *ast.CallExpr) []string {
			out := []string{}
			for _, a := range c.Args {
				out = append(out, Src(a))
			}
			return out
		}
		findCall := func(n ast.Node, fun string) *ast.CallExpr {
			var res *ast.CallExpr
			Walk(n, func(m ast.Node) bool {
				if c, ok := m.(*ast.CallExpr); ok && res == nil && Src(c.Fun) == fun {
					res = c
				}
				return true
			})
			return res
		}
		// 1. resharing parameters
		rf := o.ParseFile("tss/ecdsa/resharing/resharing.go")
		rsArgs := []string{}
		if fd := FindFunc(rf, "Resharing", "Run"); fd != nil {
			if c := findCall(fd.Body, "tss.NewReSharingParameters"); c != nil {
				rsArgs = args(c)
			}
		}
		o.Facts["resharing_params_args"] = rsArgs
		o.Lean.WriteString("/-- arguments of `tss.NewReSharingParameters(…)` in ecdsa `Resharing.Run`, in order -/\n")
		o.Lean.WriteString("def reshareArgs : List String := " + LeanStrList(rsArgs) + "\n\n")
		// 2. where the constructor's threshold goes
		ctor := func(file string) []string {
			out := []string{}
			f := o.ParseFile(file)
			if fd := FindFunc(f, "", "NewResharing"); fd != nil {
				Walk(fd.Body, func(n ast.Node) bool {
					switch x := n.(type) {
					case *ast.KeyValueExpr:
						if Src(x.Value) == "threshold" {
							out = append(out, Src(x.Key)+": threshold")
						}
					case *ast.AssignStmt:
						if x.Tok == token.ASSIGN && len(x.Rhs) == 1 && Src(x.Rhs[0]) == "threshold" {
							out = append(out, Src(x.Lhs[0])+" = threshold")
						}
					}
					return true
				})
			}
			return out
		}
		e, fr := ctor("tss/ecdsa/resharing/resharing.go"), ctor("tss/frost/resharing/resharing.go")
		o.Facts["ecdsa_newresharing_threshold"] = e
		o.Facts["frost_newresharing_threshold"] = fr
		o.Lean.WriteString("/-- uses of the constructor argument `threshold` in ecdsa / frost `NewResharing` -/\n")
		o.Lean.WriteString("def ecdsaCtorThreshold : List String := " + LeanStrList(e) + "\n")
		o.Lean.WriteString("def frostCtorThreshold : List String := " + LeanStrList(fr) + "\n")
		// frost Run passes r.key.Key (whose Threshold the constructor set) to RefreshTaproot
		ff := o.ParseFile("tss/frost/resharing/resharing.go")
		refresh := []string{}
		if fd := FindFunc(ff, "Resharing", "Run"); fd != nil {
			if c := findCall(fd.Body, "frost.RefreshTaproot"); c != nil && len(c.Args) > 0 {
				refresh = append(refresh, Src(c.Args[0]))
			}
		}
		o.Lean.WriteString("def frostRefreshConfig : List String := " + LeanStrList(refresh) + "\n\n")
		// 3. the coordinator flag in ecdsa signing Run
		sf := o.ParseFile("tss/ecdsa/signing/signing.go")
		flag := []string{}
		if fd := FindFunc(sf, "Signing", "Run"); fd != nil {
			for _, st := range fd.Body.List { // top-level statements only: an assignment under an `if` does not count
				if a, ok := st.(*ast.AssignStmt); ok && len(a.Lhs) == 1 && Src(a.Lhs[0]) == "s.coordinator" {
					flag = append(flag, Src(a))
				}
			}
			Walk(fd.Body, func(n ast.Node) bool {
				if a, ok := n.(*ast.AssignStmt); ok && len(a.Lhs) == 1 && Src(a.Lhs[0]) == "s.coordinator" {
					flag = append(flag, "any:"+Src(a))
				}
				return true
			})
		}
		o.Facts["signing_run_coordinator_assignments"] = flag
		o.Lean.WriteString("/-- assignments to `s.coordinator` in ecdsa `Signing.Run`: top-level ones, then (prefixed `any:`) all of them -/\n")
		o.Lean.WriteString("def coordinatorAssignments : List String := " + LeanStrList(flag) + "\n\n")
		// 4. per-input session id in the BTC executor
		bf := o.ParseFile("chains/btc/executor/executor.go")
		loopDecl, signArgs := []string{}, []string{}
		if fd := FindFunc(bf, "Executor", "executeResourceProps"); fd != nil {
			Walk(fd.Body, func(n ast.Node) bool {
				rs, ok := n.(*ast.RangeStmt)
				if !ok || Src(rs.X) != "tx.TxIn" {
					return true
				}
				for _, st := range rs.Body.List {
					if a, ok := st.(*ast.AssignStmt); ok && a.Tok == token.DEFINE && len(a.Lhs) >= 1 {
						names := []string{}
						for _, l := range a.Lhs {
							names = append(names, Src(l))
						}
						loopDecl = append(loopDecl, strings.Join(names, ",")+" := "+Src(a.Rhs[0]))
					}
				}
				if c := findCall(rs.Body, "signing.NewSigning"); c != nil {
					signArgs = args(c)
				}
				return false
			})
		}
		o.Facts["btc_loop_declarations"] = loopDecl
		o.Facts["btc_newsigning_args"] = signArgs
		o.Lean.WriteString("/-- `:=` declarations at the top of the body of `for i := range tx.TxIn` in executeResourceProps -/\n")
		o.Lean.WriteString("def btcLoopDecls : List String := " + LeanStrList(loopDecl) + "\n")
		o.Lean.WriteString("/-- arguments of `signing.NewSigning(…)` in that loop -/\n")
		o.Lean.WriteString("def btcNewSigningArgs : List String := " + LeanStrList(signArgs) + "\n")
	}
}
