package main

import (
	"go/ast"
	"go/token"
	"strings"
)

// C08: source facts that decide orchestration clauses and that a quick run cannot always exhibit. All are located by SHAPE
// and reported by ROLE (never by the names of locals, receivers or unexported fields / helpers):
//   reshareRoles     tss/ecdsa/resharing Run: what the four numeric arguments of tss.NewReSharingParameters are
//   ctorThreshold    NewResharing (ecdsa, frost): the constructor's int parameter is what Run later passes as the new threshold
//   coordinatorFlag  tss/ecdsa/signing Run: how the bool parameter reaches the receiver's field
//   btcSession       chains/btc/executor executeResourceProps: what signing.NewSigning gets for each input
func init() {
	extractors["C08"] = func(o *Out) {
		recvName := func(fd *ast.FuncDecl) string {
			if fd != nil && fd.Recv != nil && len(fd.Recv.List) == 1 && len(fd.Recv.List[0].Names) == 1 {
				return fd.Recv.List[0].Names[0].Name
			}
			return ""
		}
		// the method of <recvType> called name, or (name gone) the only one with the given parameter-list text
		findMethod := func(f *ast.File, recvType, name, params string) *ast.FuncDecl {
			if fd := FindFunc(f, recvType, name); fd != nil {
				return fd
			}
			var hit *ast.FuncDecl
			n := 0
			if f != nil {
				for _, d := range f.Decls {
					if m, ok := d.(*ast.FuncDecl); ok && m.Recv != nil && strings.HasSuffix(Src(m.Recv.List[0].Type), recvType) && Src(m.Type.Params) == params {
						hit = m
						n++
					}
				}
			}
			if n == 1 {
				return hit
			}
			return nil
		}
		firstCall := func(n ast.Node, match func(c *ast.CallExpr) bool) *ast.CallExpr {
			var res *ast.CallExpr
			Walk(n, func(m ast.Node) bool {
				if c, ok := m.(*ast.CallExpr); ok && res == nil && match(c) {
					res = c
				}
				return true
			})
			return res
		}
		// definitions `x := <expr>` / `x, err := <expr>` / `x = <expr>` of identifiers inside a body (last one wins)
		defs := func(body ast.Node) map[string]ast.Expr {
			m := map[string]ast.Expr{}
			Walk(body, func(n ast.Node) bool {
				if a, ok := n.(*ast.AssignStmt); ok && len(a.Rhs) == 1 && len(a.Lhs) >= 1 {
					if id, ok := a.Lhs[0].(*ast.Ident); ok {
						m[id.Name] = a.Rhs[0]
					}
				}
				return true
			})
			return m
		}
		callFun := func(e ast.Expr) (string, []ast.Expr) {
			if c, ok := e.(*ast.CallExpr); ok {
				return Src(c.Fun), c.Args
			}
			return "", nil
		}
		intParam := func(fd *ast.FuncDecl, typ string) string { // the only parameter of that type
			name, n := "", 0
			for _, f := range fd.Type.Params.List {
				if Src(f.Type) == typ {
					for _, id := range f.Names {
						name = id.Name
						n++
					}
				}
			}
			if n == 1 {
				return name
			}
			return ""
		}

		// ---------------------------------------------------------------- 1. resharing parameters (ecdsa)
		rf := o.ParseFile("tss/ecdsa/resharing/resharing.go")
		ctor := FindFunc(rf, "", "NewResharing")
		// the field of Resharing that the constructor fills from its int parameter
		ctorField := func(f *ast.File, c *ast.FuncDecl) string {
			if c == nil {
				return ""
			}
			p := intParam(c, "int")
			field := ""
			Walk(c.Body, func(n ast.Node) bool {
				if kv, ok := n.(*ast.KeyValueExpr); ok && p != "" && Src(kv.Value) == p {
					if id, ok := kv.Key.(*ast.Ident); ok && id.Name != "Threshold" {
						field = id.Name
					}
				}
				return true
			})
			return field
		}
		ownField := ctorField(rf, ctor)
		roles := []string{}
		rolesOK := false
		if run := FindFunc(rf, "Resharing", "Run"); run != nil {
			rv := recvName(run)
			d := defs(run.Body)
			if c := firstCall(run.Body, func(c *ast.CallExpr) bool { return Src(c.Fun) == "tss.NewReSharingParameters" }); c != nil && len(c.Args) == 8 {
				// the party lists behind the two peer contexts
				ctxParties := func(e ast.Expr) string {
					if id, ok := e.(*ast.Ident); ok {
						if fn, args := callFun(d[id.Name]); fn == "tss.NewPeerContext" && len(args) == 1 {
							return Src(args[0])
						}
					}
					return ""
				}
				oldP, newP := ctxParties(c.Args[1]), ctxParties(c.Args[2])
				// the start-parameter variable: the one whose `.OldSubset` the old parties are built from
				spVar := ""
				if fn, args := callFun(d[oldP]); strings.HasSuffix(fn, "PartiesFromPeers") && len(args) == 1 {
					if sel, ok := args[0].(*ast.SelectorExpr); ok && sel.Sel.Name == "OldSubset" {
						spVar = Src(sel.X)
					}
				}
				role := func(e ast.Expr) string {
					s := Src(e)
					switch {
					case oldP != "" && s == "len("+oldP+")":
						return "old-count"
					case newP != "" && s == "len("+newP+")":
						return "new-count"
					case spVar != "" && s == spVar+".OldThreshold":
						return "announced-old-threshold"
					case rv != "" && ownField != "" && s == rv+"."+ownField:
						return "own-new-threshold"
					}
					return "other"
				}
				if oldP != "" && newP != "" && spVar != "" && ownField != "" {
					rolesOK = true
					for _, a := range c.Args[4:8] {
						roles = append(roles, role(a))
					}
				}
			}
		}
		if !rolesOK {
			o.Unavailable("reshareRoles", "NewReSharingParameters call / the definitions of its peer contexts / the constructor's threshold field not located")
		}
		o.Facts["reshare_roles"] = roles
		o.Lean.WriteString("/-- ecdsa `Resharing.Run`: the roles of arguments 5–8 of `tss.NewReSharingParameters` (party count, threshold, new party\n    count, new threshold) -/\n")
		o.Lean.WriteString("def reshareRoles : Option (List String) := " + LeanOpt(rolesOK, LeanStrList(roles)) + "\n\n")

		// ---------------------------------------------------------------- 2. frost: where the constructor's threshold goes
		ff := o.ParseFile("tss/frost/resharing/resharing.go")
		fctor := FindFunc(ff, "", "NewResharing")
		frostOK := false
		frostFacts := []string{}
		if fctor != nil {
			p := intParam(fctor, "int")
			keyVar := ""
			Walk(fctor.Body, func(n ast.Node) bool { // `<key>.Key.Threshold = <param>`
				if a, ok := n.(*ast.AssignStmt); ok && a.Tok == token.ASSIGN && len(a.Lhs) == 1 && len(a.Rhs) == 1 && p != "" && Src(a.Rhs[0]) == p {
					if s := Src(a.Lhs[0]); strings.HasSuffix(s, ".Key.Threshold") {
						keyVar = strings.TrimSuffix(s, ".Key.Threshold")
					}
				}
				return true
			})
			field := ctorField(ff, fctor)
			// the field of the struct the key variable is stored in
			keyField := ""
			Walk(fctor.Body, func(n ast.Node) bool {
				if kv, ok := n.(*ast.KeyValueExpr); ok && keyVar != "" && Src(kv.Value) == keyVar {
					if id, ok := kv.Key.(*ast.Ident); ok {
						keyField = id.Name
					}
				}
				return true
			})
			if run := FindFunc(ff, "Resharing", "Run"); run != nil && p != "" {
				rv := recvName(run)
				if c := firstCall(run.Body, func(c *ast.CallExpr) bool { return Src(c.Fun) == "frost.RefreshTaproot" }); c != nil && len(c.Args) >= 1 {
					frostOK = true
					if keyVar != "" {
						frostFacts = append(frostFacts, "config-threshold-set")
					}
					if field != "" {
						frostFacts = append(frostFacts, "stored-threshold-field-set")
					}
					if keyField != "" && rv != "" && Src(c.Args[0]) == rv+"."+keyField+".Key" {
						frostFacts = append(frostFacts, "refresh-uses-that-config")
					}
				}
			}
		}
		if !frostOK {
			o.Unavailable("frostThreshold", "frost NewResharing / the RefreshTaproot call in Run not located")
		}
		o.Lean.WriteString("/-- frost resharing: the constructor's int parameter is written into the key configuration, kept in a field of the process,\n    and Run hands that configuration to `frost.RefreshTaproot` -/\n")
		o.Lean.WriteString("def frostThreshold : Option (List String) := " + LeanOpt(frostOK, LeanStrList(frostFacts)) + "\n\n")

		// ---------------------------------------------------------------- 3. the coordinator flag in ecdsa signing Run
		sf := o.ParseFile("tss/ecdsa/signing/signing.go")
		flag := ""
		flagOK := false
		if run := findMethod(sf, "Signing", "Run", "(ctx context.Context, coordinator bool, resultChn chan interface{}, params []byte)"); run != nil {
			rv := recvName(run)
			bp := intParam(run, "bool")
			top, nested := 0, 0
			if rv != "" && bp != "" {
				isFlagAssign := func(a *ast.AssignStmt) bool {
					if len(a.Lhs) != 1 || len(a.Rhs) != 1 {
						return false
					}
					sel, ok := a.Lhs[0].(*ast.SelectorExpr)
					return ok && Src(sel.X) == rv && (Src(a.Rhs[0]) == bp || Src(a.Rhs[0]) == "true" || Src(a.Rhs[0]) == "false")
				}
				for _, st := range run.Body.List {
					if a, ok := st.(*ast.AssignStmt); ok && isFlagAssign(a) && Src(a.Rhs[0]) == bp {
						top++
					}
				}
				Walk(run.Body, func(n ast.Node) bool {
					if a, ok := n.(*ast.AssignStmt); ok && isFlagAssign(a) {
						nested++
					}
					return true
				})
				if nested > 0 { // located (if nothing assigns the flag here it was moved elsewhere: unavailable)
					flagOK = true
					if top == 1 && nested == 1 {
						flag = "assigned-unconditionally-once"
					} else {
						flag = "conditional-or-repeated"
					}
				}
			}
		}
		if !flagOK {
			o.Unavailable("coordinatorFlag", "no assignment of Run's bool parameter to a field of the receiver found in ecdsa Signing.Run")
		}
		o.Lean.WriteString("/-- ecdsa `Signing.Run`: how its bool parameter reaches the receiver's coordinator field -/\n")
		o.Lean.WriteString("def coordinatorFlag : Option String := " + LeanOpt(flagOK, LeanStr(flag)) + "\n\n")

		// ---------------------------------------------------------------- 4. per-input session in the BTC executor
		bf := o.ParseFile("chains/btc/executor/executor.go")
		sess := []string{}
		sessOK := false
		if fd := findMethod(bf, "Executor", "executeResourceProps", "(props []*BtcTransferProposal, resource config.Resource, messageID string)"); fd != nil {
			var loopBody *ast.BlockStmt
			Walk(fd.Body, func(n ast.Node) bool { // the loop (range or 3-clause for) that contains the NewSigning call
				var body *ast.BlockStmt
				switch l := n.(type) {
				case *ast.RangeStmt:
					body = l.Body
				case *ast.ForStmt:
					body = l.Body
				}
				if body != nil && firstCall(body, func(c *ast.CallExpr) bool { return strings.HasSuffix(Src(c.Fun), ".NewSigning") }) != nil {
					loopBody = body
				}
				return true
			})
			if loopBody != nil {
				d := defs(loopBody) // definitions INSIDE the loop body only
				c := firstCall(loopBody, func(c *ast.CallExpr) bool { return strings.HasSuffix(Src(c.Fun), ".NewSigning") })
				if len(c.Args) == 8 {
					sessOK = true
					msg, sid := Src(c.Args[1]), Src(c.Args[4])
					if fn, _ := callFun(d[msg]); fn == "txscript.CalcTaprootSignatureHash" {
						sess = append(sess, "msg=this-input's-signature-hash")
					} else {
						sess = append(sess, "msg=other")
					}
					if strings.HasSuffix(Src(c.Args[2]), ".Tweak") {
						sess = append(sess, "tweak=resource-tweak")
					} else {
						sess = append(sess, "tweak=other")
					}
					if fn, args := callFun(d[sid]); fn == "hex.EncodeToString" && len(args) == 1 && Src(args[0]) == msg {
						sess = append(sess, "session=hex(msg),per-input")
					} else {
						sess = append(sess, "session=other")
					}
				}
			}
		}
		if !sessOK {
			o.Unavailable("btcSession", "executeResourceProps / the loop calling signing.NewSigning not located")
		}
		o.Facts["btc_session"] = sess
		o.Lean.WriteString("/-- BTC `executeResourceProps`, inside the per-input loop: what `signing.NewSigning` is given as message, tweak and session id -/\n")
		o.Lean.WriteString("def btcSession : Option (List String) := " + LeanOpt(sessOK, LeanStrList(sess)) + "\n")
	}
}
