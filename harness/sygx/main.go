// sygx — the translator / fact extractor (T-tie). Reads /repo's CURRENT working tree with go/parser and
// regenerates lean/SygmaModel/Generated/<Cxx>.lean plus work/<Cxx>.facts.json. Standard library only.
//
//	sygx <Cxx>|all
//
// Each property registers an extractor in its own file (c14.go, …). Facts have three states:
//   located + translated : the generated definition is `some <term>`; its obligation in Oblig/Cxx.lean must hold
//                          (stated semantically — an equivalent re-spelling of the source still satisfies it)
//   unavailable          : the anchor is not found or not of a shape the translator understands (o.Unavailable):
//                          the definition is `none`, the obligation is vacuous, bin/check prints T-TIE-UNAVAILABLE and
//                          the correspondence check carries the property alone — not a violation
//   located + different  : the obligation fails to check => bin/check reports it (VIOLATION … no-failing-input-found
//                          unless the correspondence also finds a failing input)
package main

import (
	"bytes"
	"crypto/sha256"
	"encoding/hex"
	"encoding/json"
	"fmt"
	"go/ast"
	"go/parser"
	"go/printer"
	"go/token"
	"os"
	"path/filepath"
	"sort"
	"strings"
)

type Out struct {
	Lean  strings.Builder        // body of the generated Lean file (inside namespace Sygma.Generated.<Cxx>)
	Facts map[string]interface{} // goes to work/<Cxx>.facts.json and into the evidence
	files map[string]bool
}

type Extractor func(o *Out)

// Unavailable records that the anchor of a fact could not be located in the current source, or has a shape the
// translator does not understand (a helper was extracted, a loop restructured …). The generated definition for such a
// fact is `none` (see LeanOpt) and its obligation holds vacuously: the T-tie for this fact is reported as unavailable by
// bin/check (line `T-TIE-UNAVAILABLE: …`, evidence `generated_facts.unavailable`) and the correspondence check carries
// the property alone. This is NOT a violation. A fact that IS located and translated must satisfy its obligation.
func (o *Out) Unavailable(fact, why string) {
	l, _ := o.Facts["unavailable"].([]string)
	o.Facts["unavailable"] = append(l, fact+": "+why)
}

// LeanOpt renders an optional Lean term: `some (<term>)` when ok, `none` otherwise.
func LeanOpt(ok bool, term string) string {
	if !ok {
		return "none"
	}
	return "some (" + term + ")"
}

var extractors = map[string]Extractor{}

func verifRoot() string {
	if v := os.Getenv("VERIF_ROOT"); v != "" {
		return v
	}
	return "/verif"
}
func repoRoot() string {
	if v := os.Getenv("REPO_ROOT"); v != "" {
		return v
	}
	return "/repo"
}

var fset = token.NewFileSet()

// ParseFile parses a file given relative to the repo root (or absolute, e.g. in the module cache).
func (o *Out) ParseFile(rel string) *ast.File {
	p := rel
	if !filepath.IsAbs(p) {
		p = filepath.Join(repoRoot(), rel)
	}
	src, err := os.ReadFile(p)
	if err != nil {
		o.Facts["missing:"+rel] = err.Error()
		return nil
	}
	h := sha256.Sum256(src)
	o.Facts["sha256:"+rel] = hex.EncodeToString(h[:8])
	f, err := parser.ParseFile(fset, p, src, parser.ParseComments)
	if err != nil {
		o.Facts["parse-error:"+rel] = err.Error()
		return nil
	}
	return f
}

// FindFunc returns the declaration of function `name`, or method `recv.name` (recv without *).
func FindFunc(f *ast.File, recv, name string) *ast.FuncDecl {
	if f == nil {
		return nil
	}
	for _, d := range f.Decls {
		fd, ok := d.(*ast.FuncDecl)
		if !ok || fd.Name.Name != name {
			continue
		}
		if recv == "" && fd.Recv == nil {
			return fd
		}
		if recv != "" && fd.Recv != nil && len(fd.Recv.List) == 1 {
			t := fd.Recv.List[0].Type
			if s, ok := t.(*ast.StarExpr); ok {
				t = s.X
			}
			if id, ok := t.(*ast.Ident); ok && id.Name == recv {
				return fd
			}
		}
	}
	return nil
}

// Src prints a node back to Go source (single line, spaces normalised).
func Src(n ast.Node) string {
	if n == nil {
		return ""
	}
	var b bytes.Buffer
	printer.Fprint(&b, fset, n)
	return strings.Join(strings.Fields(b.String()), " ")
}

// Walk visits every node under n.
func Walk(n ast.Node, f func(ast.Node) bool) {
	if n != nil {
		ast.Inspect(n, f)
	}
}

// LeanStr quotes a Go string as a Lean string literal.
func LeanStr(s string) string {
	r := strings.NewReplacer("\\", "\\\\", "\"", "\\\"", "\n", "\\n", "\t", "\\t")
	return "\"" + r.Replace(s) + "\""
}

func LeanStrList(xs []string) string {
	q := make([]string, len(xs))
	for i, x := range xs {
		q[i] = LeanStr(x)
	}
	return "[" + strings.Join(q, ", ") + "]"
}

// LeanExpr translates a Go boolean/integer expression into a Lean term.
// names maps Go sub-expressions (as printed by Src) to Lean variable names; integer literals, + - * / %,
// comparisons, && || ! and parentheses are translated structurally. ok=false if something is not covered.
// Arithmetic is emitted as written (no wrap-around); callers state the integer type of the variables.
func LeanExpr(e ast.Expr, names map[string]string) (string, bool) {
	if v, ok := names[Src(e)]; ok {
		return v, true
	}
	switch x := e.(type) {
	case *ast.ParenExpr:
		s, ok := LeanExpr(x.X, names)
		return "(" + s + ")", ok
	case *ast.BasicLit:
		if x.Kind == token.INT {
			return x.Value, true
		}
	case *ast.UnaryExpr:
		if x.Op == token.NOT {
			s, ok := LeanExpr(x.X, names)
			return "(!" + s + ")", ok
		}
	case *ast.BinaryExpr:
		l, ok1 := LeanExpr(x.X, names)
		r, ok2 := LeanExpr(x.Y, names)
		op := map[token.Token]string{token.ADD: "+", token.SUB: "-", token.MUL: "*", token.QUO: "/", token.REM: "%",
			token.LAND: "&&", token.LOR: "||"}[x.Op]
		cmp := map[token.Token]string{token.LSS: "<", token.LEQ: "≤", token.GTR: ">", token.GEQ: "≥", token.EQL: "=", token.NEQ: "≠"}[x.Op]
		if op != "" {
			return "(" + l + " " + op + " " + r + ")", ok1 && ok2
		}
		if cmp != "" {
			return "decide (" + l + " " + cmp + " " + r + ")", ok1 && ok2
		}
	}
	return "false", false
}

func main() {
	if len(os.Args) < 2 {
		fmt.Fprintln(os.Stderr, "usage: sygx <Cxx>|all")
		os.Exit(2)
	}
	if os.Args[1] == "sigs" { // sygx sigs <package dir>… : declared functions, methods and struct fields with their signatures
		dumpSigs(os.Args[2:])
		return
	}
	ids := []string{os.Args[1]}
	if os.Args[1] == "all" {
		ids = nil
		for k := range extractors {
			ids = append(ids, k)
		}
		sort.Strings(ids)
	}
	for _, id := range ids {
		ex, ok := extractors[id]
		if !ok {
			fmt.Fprintln(os.Stderr, "no extractor for", id)
			os.Exit(2)
		}
		o := &Out{Facts: map[string]interface{}{}}
		ex(o)
		lean := "/- GENERATED by harness/sygx from the repository's working tree on every run. Do not edit. -/\n" +
			"namespace Sygma.Generated." + id + "\n\n" + o.Lean.String() + "\nend Sygma.Generated." + id + "\n"
		p := filepath.Join(verifRoot(), "lean/SygmaModel/Generated", id+".lean")
		old, _ := os.ReadFile(p)
		if string(old) != lean { // keep mtime when unchanged so lake does not rebuild
			if err := os.WriteFile(p, []byte(lean), 0o644); err != nil {
				fmt.Fprintln(os.Stderr, err)
				os.Exit(1)
			}
		}
		os.MkdirAll(filepath.Join(verifRoot(), "work"), 0o755)
		js, _ := json.MarshalIndent(o.Facts, "", " ")
		os.WriteFile(filepath.Join(verifRoot(), "work", id+".facts.json"), js, 0o644)
	}
}

// dumpSigs prints, for every non-test Go file of the given directories (relative to the repo root), the declared
// functions/methods (receiver type, name, signature) and struct fields (struct, name, type) as JSON. Used by
// harness/hookfix.py to re-bind an accessor hook to an unexported declaration that was RENAMED (same receiver and
// signature / same struct and field type), which is a harmless refactor and must not break the harness build.
func dumpSigs(dirs []string) {
	type ent struct{ Kind, Recv, Name, Sig string }
	out := map[string][]ent{}
	for _, d := range dirs {
		files, _ := filepath.Glob(filepath.Join(repoRoot(), d, "*.go"))
		sort.Strings(files)
		for _, fn := range files {
			if strings.HasSuffix(fn, "_test.go") || strings.HasPrefix(filepath.Base(fn), "zz_verif_") {
				continue
			}
			f, err := parser.ParseFile(fset, fn, nil, 0)
			if err != nil {
				continue
			}
			for _, decl := range f.Decls {
				switch x := decl.(type) {
				case *ast.FuncDecl:
					e := ent{Kind: "func", Name: x.Name.Name, Sig: Src(x.Type)}
					if x.Recv != nil && len(x.Recv.List) == 1 {
						e.Kind = "method"
						e.Recv = strings.TrimPrefix(Src(x.Recv.List[0].Type), "*")
					}
					out[d] = append(out[d], e)
				case *ast.GenDecl:
					for _, sp := range x.Specs {
						if vs, ok := sp.(*ast.ValueSpec); ok { // package-level var / const: name, "<type>=<value>"
							for i, nm := range vs.Names {
								val := ""
								if i < len(vs.Values) {
									val = Src(vs.Values[i])
								}
								out[d] = append(out[d], ent{Kind: "var", Name: nm.Name, Sig: Src(vs.Type) + "=" + val})
							}
							continue
						}
						ts, ok := sp.(*ast.TypeSpec)
						if !ok {
							continue
						}
						st, ok := ts.Type.(*ast.StructType)
						if !ok {
							continue
						}
						for _, fl := range st.Fields.List {
							for _, nm := range fl.Names {
								out[d] = append(out[d], ent{Kind: "field", Recv: ts.Name.Name, Name: nm.Name, Sig: Src(fl.Type)})
							}
						}
					}
				}
			}
		}
	}
	js, _ := json.MarshalIndent(out, "", " ")
	fmt.Println(string(js))
}
