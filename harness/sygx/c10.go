package main

import (
	"go/ast"
	"go/token"
	"sort"
	"strings"
)

// C10 / C09 structural facts. Anchors are found by SHAPE (exported API names and the structure of statements), never
// by the names of locals, receivers or unexported helpers; a fact whose anchor has a shape the translator does not
// understand is reported `Unavailable` (generated `none`, obligation vacuous) — see the top comment of main.go.
//
// C10  per process kind: the PATHS through the constructor, Run and Stop, each as its sequence of lock-relevant events
//        L (LockKeyshare)  U (UnlockKeyshare)  dU (deferred UnlockKeyshare)  G (GetKeyshare)  W (`.Wait()`: the protocol runs)
//      and the way it leaves:  full | early (Run: left before the protocol ran) | ctorerr (constructor returns an error).
//      Paths are enumerated over the statement structure (if / else / return), so an unlock written out on every exit
//      is the same fact as a deferred one. The obligations (Oblig/C10.lean) are about these paths SEMANTICALLY: every
//      combination is balanced etc. — not an equality with a table.
//      Coordinator.Execute: are the processes stopped on the refusal branch and in the deferred exit block (a Stop
//      loop directly, or through ONE level of same-file helper); the three event handlers: constructor → Execute.
// C09  the admission prologue of Coordinator.Execute and every access to the pending map, located through the
//      struct's field TYPES (the sync.Mutex field, the map[string]bool field).

type c10kind struct{ name, file, ctor, recv string }

var c10kinds = []c10kind{
	{"ekeygen", "tss/ecdsa/keygen/keygen.go", "NewKeygen", "Keygen"},
	{"fkeygen", "tss/frost/keygen/keygen.go", "NewKeygen", "Keygen"},
	{"eresharing", "tss/ecdsa/resharing/resharing.go", "NewResharing", "Resharing"},
	{"fresharing", "tss/frost/resharing/resharing.go", "NewResharing", "Resharing"},
	{"esigning", "tss/ecdsa/signing/signing.go", "NewSigning", "Signing"},
	{"fsigning", "tss/frost/signing/signing.go", "NewSigning", "Signing"},
}

func selName(e ast.Expr) string {
	if c, ok := e.(*ast.CallExpr); ok {
		if s, ok := c.Fun.(*ast.SelectorExpr); ok {
			return s.Sel.Name
		}
	}
	return ""
}

// ---------------------------------------------------------------- path enumeration

type lpath struct {
	ev     []string
	exited bool
	exit   string // full | ctorerr (set when exited)
}

type penum struct {
	isCtor bool      // a constructor whose last result is an `error`
	bad    string    // why the function is not understood ("" = fine)
	file   *ast.File // for one level of same-file helpers
	depth  int
}

// helperEvents: the lock events of a same-file function / method that is called here, when its body is straight-line
// as far as the lock is concerned (one level only).
func (p *penum) helperEvents(c *ast.CallExpr) []string {
	if p.file == nil || p.depth > 0 {
		return nil
	}
	name := ""
	switch fn := c.Fun.(type) {
	case *ast.Ident:
		name = fn.Name
	case *ast.SelectorExpr:
		name = fn.Sel.Name
	}
	if name == "" || lockEv(name) != "" {
		return nil
	}
	for _, d := range p.file.Decls {
		fd, ok := d.(*ast.FuncDecl)
		if !ok || fd.Name.Name != name || fd.Body == nil {
			continue
		}
		if l, _ := hasLockOrReturn(fd.Body); !l {
			return nil
		}
		q := &penum{file: p.file, depth: 1}
		res := q.walk(fd.Body.List, []lpath{{}})
		// a `defer UnlockKeyshare()` inside the helper fires when the HELPER returns, not when its caller does
		distinct := map[string][]string{}
		for _, r := range res {
			ev, deferred := []string{}, 0
			for _, e := range r.ev {
				if e == "dU" {
					deferred++
				} else {
					ev = append(ev, e)
				}
			}
			for i := 0; i < deferred; i++ {
				ev = append(ev, "U")
			}
			distinct[strings.Join(ev, ",")] = ev
		}
		if q.bad != "" || len(distinct) != 1 {
			p.bad = "a helper whose paths differ in their key-share lock calls (" + name + ")"
			return nil
		}
		for _, ev := range distinct {
			return ev
		}
	}
	return nil
}

func lockEv(name string) string {
	switch name {
	case "LockKeyshare":
		return "L"
	case "UnlockKeyshare":
		return "U"
	case "GetKeyshare":
		return "G"
	case "Wait":
		return "W"
	}
	return ""
}

// exprEvents: lock-relevant calls inside an expression / simple statement, in source order. A lock call inside a
// function literal or a `go` statement is beyond the translator.
func (p *penum) exprEvents(n ast.Node) []string {
	ev := []string{}
	if n == nil {
		return ev
	}
	ast.Inspect(n, func(m ast.Node) bool {
		switch x := m.(type) {
		case *ast.FuncLit:
			ast.Inspect(x.Body, func(k ast.Node) bool {
				if c, ok := k.(*ast.CallExpr); ok {
					if e := lockEv(selName(c)); e == "L" || e == "U" {
						p.bad = "a key-share lock call inside a function literal"
					}
				}
				return true
			})
			return false
		case *ast.CallExpr:
			// arguments and receiver first (they are evaluated before the call)
			for _, a := range x.Args {
				ev = append(ev, p.exprEvents(a)...)
			}
			if s, ok := x.Fun.(*ast.SelectorExpr); ok {
				ev = append(ev, p.exprEvents(s.X)...)
			}
			if e := lockEv(selName(x)); e != "" {
				ev = append(ev, e)
			} else {
				ev = append(ev, p.helperEvents(x)...)
			}
			return false
		}
		return true
	})
	return ev
}

func hasLockOrReturn(n ast.Node) (lock, ret bool) {
	ast.Inspect(n, func(m ast.Node) bool {
		switch x := m.(type) {
		case *ast.FuncLit:
			return false
		case *ast.ReturnStmt:
			ret = true
		case *ast.CallExpr:
			if e := lockEv(selName(x)); e == "L" || e == "U" {
				lock = true
			}
		}
		return true
	})
	return
}

func clone(xs []string, more ...string) []string {
	out := make([]string, 0, len(xs)+len(more))
	out = append(out, xs...)
	return append(out, more...)
}

// walk runs the statement list on every path that is still inside the function.
func (p *penum) walk(stmts []ast.Stmt, in []lpath) []lpath {
	cur := in
	for _, st := range stmts {
		next := []lpath{}
		for _, pa := range cur {
			if pa.exited {
				next = append(next, pa)
				continue
			}
			next = append(next, p.stmt(st, pa)...)
		}
		cur = dedupe(next)
		if len(cur) > 256 {
			p.bad = "too many paths"
			return cur
		}
	}
	return cur
}

func (p *penum) stmt(st ast.Stmt, pa lpath) []lpath {
	switch s := st.(type) {
	case *ast.ReturnStmt:
		ev := clone(pa.ev)
		for _, r := range s.Results {
			ev = append(ev, p.exprEvents(r)...)
		}
		exit := "full"
		if p.isCtor && len(s.Results) > 0 {
			if id, ok := s.Results[len(s.Results)-1].(*ast.Ident); !ok || id.Name != "nil" {
				exit = "ctorerr"
			}
		}
		return []lpath{{ev: ev, exited: true, exit: exit}}
	case *ast.DeferStmt:
		switch lockEv(selName(s.Call)) {
		case "U":
			return []lpath{{ev: clone(pa.ev, "dU")}}
		case "L":
			p.bad = "a deferred LockKeyshare"
			return []lpath{pa}
		}
		if fl, ok := s.Call.Fun.(*ast.FuncLit); ok {
			if l, _ := hasLockOrReturn(fl.Body); l {
				// `defer func() { …UnlockKeyshare()… }()`: understood when the literal's body is straight-line
				n := 0
				for _, b := range fl.Body.List {
					if es, ok := b.(*ast.ExprStmt); ok && lockEv(selName(es.X)) == "U" {
						n++
					} else if l2, _ := hasLockOrReturn(b); l2 {
						p.bad = "a deferred function literal with conditional lock calls"
					}
				}
				ev := clone(pa.ev)
				for i := 0; i < n; i++ {
					ev = append(ev, "dU")
				}
				return []lpath{{ev: ev}}
			}
		}
		return []lpath{pa}
	case *ast.GoStmt:
		if l, _ := hasLockOrReturn(s.Call); l {
			p.bad = "a key-share lock call in a go statement"
		}
		if fl, ok := s.Call.Fun.(*ast.FuncLit); ok {
			ast.Inspect(fl.Body, func(k ast.Node) bool {
				if c, ok := k.(*ast.CallExpr); ok {
					if e := lockEv(selName(c)); e == "L" || e == "U" {
						p.bad = "a key-share lock call in a goroutine"
					}
				}
				return true
			})
		}
		return []lpath{pa}
	case *ast.IfStmt:
		pre := clone(pa.ev)
		if s.Init != nil {
			pre = append(pre, p.exprEvents(s.Init)...)
		}
		pre = append(pre, p.exprEvents(s.Cond)...)
		thenP := p.walk(s.Body.List, []lpath{{ev: clone(pre)}})
		var elseP []lpath
		switch e := s.Else.(type) {
		case nil:
			elseP = []lpath{{ev: clone(pre)}}
		case *ast.BlockStmt:
			elseP = p.walk(e.List, []lpath{{ev: clone(pre)}})
		case *ast.IfStmt:
			elseP = p.stmt(e, lpath{ev: clone(pre)})
		}
		return append(thenP, elseP...)
	case *ast.BlockStmt:
		return p.walk(s.List, []lpath{pa})
	case *ast.ForStmt, *ast.RangeStmt, *ast.SwitchStmt, *ast.TypeSwitchStmt, *ast.SelectStmt:
		l, r := hasLockOrReturn(st)
		if l {
			p.bad = "a key-share lock call inside a loop / switch / select"
			return []lpath{pa}
		}
		if r { // may leave here, may go on
			exit := "full"
			if p.isCtor {
				exit = "ctorerr"
			}
			return []lpath{{ev: clone(pa.ev, p.exprEvents(st)...), exited: true, exit: exit}, {ev: clone(pa.ev, p.exprEvents(st)...)}}
		}
		return []lpath{{ev: clone(pa.ev, p.exprEvents(st)...)}}
	default:
		return []lpath{{ev: clone(pa.ev, p.exprEvents(st)...)}}
	}
}

func dedupe(ps []lpath) []lpath {
	seen := map[string]bool{}
	out := []lpath{}
	for _, x := range ps {
		k := strings.Join(x.ev, ",") + "|" + x.exit
		if x.exited {
			k += "|x"
		}
		if !seen[k] {
			seen[k] = true
			out = append(out, x)
		}
	}
	return out
}

// funcPaths: (exit, events) of every path through fd. Run: a path that passed a Wait is `full`, one that did not `early`.
func funcPaths(f *ast.File, fd *ast.FuncDecl, role string) (paths [][2]string, why string) {
	if fd == nil || fd.Body == nil {
		return nil, "function not found"
	}
	returnsError := false
	if r := fd.Type.Results; r != nil && len(r.List) > 0 {
		returnsError = Src(r.List[len(r.List)-1].Type) == "error"
	}
	p := &penum{isCtor: role == "ctor" && returnsError, file: f}
	res := p.walk(fd.Body.List, []lpath{{}})
	if p.bad != "" {
		return nil, p.bad
	}
	seen := map[string]bool{}
	for _, x := range res {
		exit := x.exit
		if !x.exited {
			exit = "full" // fell off the end
		}
		if role == "run" {
			exit = "early"
			for _, e := range x.ev {
				if e == "W" {
					exit = "full"
				}
			}
		}
		if role == "stop" {
			exit = "full"
		}
		k := exit + ":" + strings.Join(x.ev, ",")
		if !seen[k] {
			seen[k] = true
			paths = append(paths, [2]string{exit, strings.Join(x.ev, ",")})
		}
	}
	sort.Slice(paths, func(i, j int) bool { return paths[i][0]+paths[i][1] < paths[j][0]+paths[j][1] })
	return paths, ""
}

func leanPaths(ps [][2]string) string {
	rows := []string{}
	for _, p := range ps {
		ev := []string{}
		if p[1] != "" {
			ev = strings.Split(p[1], ",")
		}
		rows = append(rows, "("+LeanStr(p[0])+", "+LeanStrList(ev)+")")
	}
	return "[" + strings.Join(rows, ", ") + "]"
}

// methodOf finds a method by name on a receiver type; if the name is gone, by receiver + signature.
func methodOf(f *ast.File, recv, name, sig string) *ast.FuncDecl {
	if fd := FindFunc(f, recv, name); fd != nil {
		return fd
	}
	if f == nil || sig == "" {
		return nil
	}
	var found *ast.FuncDecl
	for _, d := range f.Decls {
		m, ok := d.(*ast.FuncDecl)
		if !ok || m.Recv == nil || len(m.Recv.List) != 1 {
			continue
		}
		t := m.Recv.List[0].Type
		if s, ok := t.(*ast.StarExpr); ok {
			t = s.X
		}
		if id, ok := t.(*ast.Ident); ok && id.Name == recv && Src(m.Type) == sig {
			if found != nil {
				return nil // ambiguous
			}
			found = m
		}
	}
	return found
}

func init() {
	extractors["C10"] = func(o *Out) {
		o.Lean.WriteString("/-- per process kind: the paths (how it leaves, lock-relevant events in order) through the constructor, Run and\n    Stop; `none` = not located / not understood. See harness/sygx/c10.go. -/\n")
		o.Lean.WriteString("def procs : List (String × Option (List (String × List String) × List (String × List String) × List (String × List String))) := [\n")
		rows := []string{}
		for _, k := range c10kinds {
			f := o.ParseFile(k.file)
			c, why1 := funcPaths(f, FindFunc(f, "", k.ctor), "ctor")
			r, why2 := funcPaths(f, FindFunc(f, k.recv, "Run"), "run")
			s, why3 := funcPaths(f, FindFunc(f, k.recv, "Stop"), "stop")
			why := why1
			if why == "" {
				why = why2
			}
			if why == "" {
				why = why3
			}
			if why == "" {
				hasW := false
				for _, p := range r {
					if p[0] == "full" {
						hasW = true
					}
				}
				if !hasW {
					why = "Run has no path through a Wait() call (the protocol run is not located)"
				}
			}
			if why != "" {
				o.Unavailable("procs."+k.name, why)
				rows = append(rows, "  ("+LeanStr(k.name)+", none)")
				continue
			}
			o.Facts[k.name] = map[string]interface{}{"ctor": c, "run": r, "stop": s}
			rows = append(rows, "  ("+LeanStr(k.name)+", some ("+leanPaths(c)+",\n      "+leanPaths(r)+",\n      "+leanPaths(s)+"))")
		}
		o.Lean.WriteString(strings.Join(rows, ",\n") + "]\n\n")

		// the production entry points: what each event handler does from the process constructor on, in source order
		hf := o.ParseFile("chains/evm/listener/eventHandlers/tss.go")
		o.Lean.WriteString("/-- event handlers of chains/evm/listener/eventHandlers/tss.go, from the process constructor on, in source order:\n    new (New…(…) of a tss process) | execute (….Execute(ctx, processes, chan)) | stop (a Stop call) | ret (a return) -/\n")
		o.Lean.WriteString("def handlers : List (String × Option (List String)) := [\n")
		hrows := []string{}
		for _, recv := range []string{"KeygenEventHandler", "FrostKeygenEventHandler", "RefreshEventHandler"} {
			ev, ok := handlerEvents(methodOf(hf, recv, "HandleEvents", "func(startBlock *big.Int, endBlock *big.Int) error"))
			if !ok {
				o.Unavailable("handlers."+recv, "constructor → Execute not found as direct statements of the handler (moved into a helper?)")
			}
			o.Facts["handler:"+recv] = ev
			hrows = append(hrows, "  ("+LeanStr(recv)+", "+LeanOpt(ok, LeanStrList(ev))+")")
		}
		o.Lean.WriteString(strings.Join(hrows, ",\n") + "]\n\n")

		refusal, deferred := execFacts(o)
		o.Lean.WriteString("/-- `Coordinator.Execute`: the duplicate-refusal branch stops the processes (directly or through one helper) -/\n")
		o.Lean.WriteString("def refusalStops : Option Bool := " + refusal + "\n")
		o.Lean.WriteString("/-- `Coordinator.Execute`: the deferred exit block stops the processes -/\n")
		o.Lean.WriteString("def deferStops : Option Bool := " + deferred + "\n")
	}
	extractors["C09"] = c09facts
}

// ---------------------------------------------------------------- Coordinator facts (shared by C09 and C10)

// coordFields: the Coordinator struct's mutex field and its map[string]bool field, by TYPE.
func coordFields(f *ast.File) (lock, pending string) {
	if f == nil {
		return
	}
	for _, d := range f.Decls {
		gd, ok := d.(*ast.GenDecl)
		if !ok {
			continue
		}
		for _, sp := range gd.Specs {
			ts, ok := sp.(*ast.TypeSpec)
			if !ok || ts.Name.Name != "Coordinator" {
				continue
			}
			st, ok := ts.Type.(*ast.StructType)
			if !ok {
				continue
			}
			for _, fl := range st.Fields.List {
				t := Src(fl.Type)
				for _, n := range fl.Names {
					switch t {
					case "sync.Mutex", "*sync.Mutex", "sync.RWMutex", "*sync.RWMutex":
						lock = n.Name
					case "map[string]bool":
						pending = n.Name
					}
				}
			}
		}
	}
	return
}

// executeFunc: Coordinator.Execute, or — if renamed — the method of Coordinator taking (ctx, []TssProcess, chan interface{}).
func executeFunc(f *ast.File) *ast.FuncDecl {
	return methodOf(f, "Coordinator", "Execute", "func(ctx context.Context, tssProcesses []TssProcess, resultChn chan interface{}) error")
}

// callsStop: does n stop the processes — a `.Stop()` call inside, or a call to a same-file function whose body has one
// (one level)? unknown = there are calls to same-file helpers we did not look into further.
func callsStop(f *ast.File, n ast.Node) (stops bool) {
	if n == nil {
		return false
	}
	direct := false
	helpers := []*ast.FuncDecl{}
	ast.Inspect(n, func(m ast.Node) bool {
		c, ok := m.(*ast.CallExpr)
		if !ok {
			return true
		}
		if selName(c) == "Stop" {
			direct = true
		}
		name := ""
		switch fn := c.Fun.(type) {
		case *ast.Ident:
			name = fn.Name
		case *ast.SelectorExpr:
			name = fn.Sel.Name
		}
		for _, d := range f.Decls {
			if fd, ok := d.(*ast.FuncDecl); ok && fd.Name.Name == name && fd.Body != nil {
				helpers = append(helpers, fd)
			}
		}
		return true
	})
	if direct {
		return true
	}
	for _, h := range helpers {
		found := false
		ast.Inspect(h.Body, func(m ast.Node) bool {
			if c, ok := m.(*ast.CallExpr); ok && selName(c) == "Stop" {
				found = true
			}
			return true
		})
		if found {
			return true
		}
	}
	return false
}

func mentionsField(n ast.Node, field string) bool {
	found := false
	if n == nil || field == "" {
		return false
	}
	ast.Inspect(n, func(m ast.Node) bool {
		if s, ok := m.(*ast.SelectorExpr); ok && s.Sel.Name == field {
			found = true
		}
		return true
	})
	return found
}

func refersToAny(n ast.Node, names map[string]bool) bool {
	found := false
	if n == nil {
		return false
	}
	ast.Inspect(n, func(m ast.Node) bool {
		if id, ok := m.(*ast.Ident); ok && names[id.Name] {
			found = true
		}
		return true
	})
	return found
}

// touchesPending: n mentions the pending map itself, or calls (one level) a same-file function whose body does.
func touchesPending(f *ast.File, n ast.Node, pending string) bool {
	if n == nil {
		return false
	}
	if mentionsField(n, pending) {
		return true
	}
	found := false
	ast.Inspect(n, func(m ast.Node) bool {
		c, ok := m.(*ast.CallExpr)
		if !ok {
			return true
		}
		name := ""
		switch fn := c.Fun.(type) {
		case *ast.Ident:
			name = fn.Name
		case *ast.SelectorExpr:
			name = fn.Sel.Name
		}
		for _, d := range f.Decls {
			if fd, ok := d.(*ast.FuncDecl); ok && fd.Name.Name == name && fd.Body != nil && mentionsField(fd.Body, pending) {
				found = true
			}
		}
		return true
	})
	return found
}

// execFacts: Option Bool terms for refusalStops / deferStops.
func execFacts(o *Out) (refusal, deferred string) {
	refusal, deferred = "none", "none"
	f := o.ParseFile("tss/coordinator.go")
	fd := executeFunc(f)
	_, pending := coordFields(f)
	if fd == nil || pending == "" {
		o.Unavailable("refusalStops", "Coordinator.Execute or the pending map not located")
		o.Unavailable("deferStops", "Coordinator.Execute not located")
		return
	}
	locals := map[string]bool{}
	foundRefusal, foundDefer := false, false
	for _, st := range fd.Body.List {
		switch s := st.(type) {
		case *ast.AssignStmt:
			if touchesPending(f, s, pending) {
				for _, l := range s.Lhs {
					if id, ok := l.(*ast.Ident); ok {
						locals[id.Name] = true
					}
				}
			}
		case *ast.IfStmt:
			if !foundRefusal && (touchesPending(f, s.Cond, pending) || touchesPending(f, s.Init, pending) || refersToAny(s.Cond, locals)) {
				if _, r := hasLockOrReturn(s.Body); r {
					foundRefusal = true
					refusal = LeanOpt(true, boolLean(callsStop(f, s.Body)))
				}
			}
		case *ast.DeferStmt:
			if fl, ok := s.Call.Fun.(*ast.FuncLit); ok && touchesPending(f, fl.Body, pending) {
				foundDefer = true
				deferred = LeanOpt(true, boolLean(callsStop(f, fl.Body)))
			}
		}
	}
	if !foundRefusal {
		o.Unavailable("refusalStops", "the branch of Execute that refuses a pending session is not a direct `if` on the pending map")
	}
	if !foundDefer {
		o.Unavailable("deferStops", "the deferred block of Execute that clears the pending flag was not located")
	}
	return
}

func boolLean(b bool) string {
	if b {
		return "true"
	}
	return "false"
}

// handlerEvents: calls and returns of a HandleEvents body in source order, from the first process constructor on.
func handlerEvents(fd *ast.FuncDecl) ([]string, bool) {
	if fd == nil || fd.Body == nil {
		return nil, false
	}
	ev := []string{}
	started, executed, closure := false, false, false
	var visit func(n ast.Node)
	visit = func(n ast.Node) {
		ast.Inspect(n, func(m ast.Node) bool {
			switch x := m.(type) {
			case *ast.FuncLit:
				if started {
					closure = true
				}
				return false
			case *ast.ReturnStmt:
				for _, r := range x.Results {
					visit(r)
				}
				if started {
					ev = append(ev, "ret")
				}
				return false
			case *ast.CallExpr:
				for _, a := range x.Args {
					visit(a)
				}
				n := selName(x)
				switch {
				case n == "NewKeygen" || n == "NewResharing" || n == "NewSigning":
					started = true
					ev = append(ev, "new")
				case started && len(x.Args) == 3 && (n == "Execute" || strings.Contains(Src(x.Args[1]), "TssProcess")):
					executed = true
					ev = append(ev, "execute")
				case started && n == "Stop":
					ev = append(ev, "stop")
				}
				visit(x.Fun)
				return false
			}
			return true
		})
	}
	visit(fd.Body)
	return ev, started && executed && !closure
}

// ---------------------------------------------------------------- C09

func c09facts(o *Out) {
	f := o.ParseFile("tss/coordinator.go")
	fd := executeFunc(f)
	lock, pending := coordFields(f)
	ok := fd != nil && lock != "" && pending != ""
	ev, branch := []string{}, []string{}
	if ok {
		ev, branch, ok = admissionEvents(fd, lock, pending)
	}
	if !ok {
		o.Unavailable("admission", "test and set of the pending flag are not direct statements of Coordinator.Execute (or its mutex / map fields were not located)")
	}
	o.Facts["admission"] = ev
	o.Facts["refusal_branch"] = branch
	o.Lean.WriteString("/-- top-level events of `Coordinator.Execute` up to its `defer`: yield (the replay hook) | lock | unlock | set | test\n    (the `if` on the pending flag) | read (the flag read into a local) -/\n")
	o.Lean.WriteString("def admission : Option (List String) := " + LeanOpt(ok, LeanStrList(ev)) + "\n\n")
	o.Lean.WriteString("/-- what the refusing branch does: unlock | stop | ret -/\n")
	o.Lean.WriteString("def refusalBranch : Option (List String) := " + LeanOpt(ok, LeanStrList(branch)) + "\n\n")
	un, ok2 := unlockedAccesses(f, lock, pending)
	if !ok2 {
		o.Unavailable("unlockedAccesses", "the coordinator's mutex / pending-map fields were not located")
	}
	o.Facts["pending_accesses_outside_lock"] = un
	o.Lean.WriteString("/-- functions of tss/coordinator.go that touch the pending map at top level without holding the coordinator's mutex -/\n")
	o.Lean.WriteString("def unlockedAccesses : Option (List String) := " + LeanOpt(ok2, LeanStrList(un)) + "\n")
}

func lockCall(e ast.Expr, lock, method string) bool {
	c, ok := e.(*ast.CallExpr)
	if !ok {
		return false
	}
	s, ok := c.Fun.(*ast.SelectorExpr)
	if !ok || s.Sel.Name != method {
		return false
	}
	inner, ok := s.X.(*ast.SelectorExpr)
	return ok && inner.Sel.Name == lock
}

// admissionEvents: top-level statements of Execute before the first defer. ok = both a test and a set were found.
func admissionEvents(fd *ast.FuncDecl, lock, pending string) (ev, branch []string, ok bool) {
	locals := map[string]bool{}
	test, set := false, false
	for _, st := range fd.Body.List {
		if _, isDefer := st.(*ast.DeferStmt); isDefer {
			break
		}
		switch s := st.(type) {
		case *ast.ExprStmt:
			switch {
			case strings.HasPrefix(Src(s.X), "verifhook.Yield("):
				ev = append(ev, "yield")
			case lockCall(s.X, lock, "Lock"):
				ev = append(ev, "lock")
			case lockCall(s.X, lock, "Unlock"):
				ev = append(ev, "unlock")
			case mentionsField(s.X, pending):
				ev = append(ev, "other")
			}
		case *ast.AssignStmt:
			if len(s.Lhs) == 1 && mentionsField(s.Lhs[0], pending) {
				if len(s.Rhs) == 1 && Src(s.Rhs[0]) == "true" {
					ev = append(ev, "set")
					set = true
				} else {
					ev = append(ev, "other")
				}
			} else if mentionsField(s, pending) {
				ev = append(ev, "read")
				for _, l := range s.Lhs {
					if id, isId := l.(*ast.Ident); isId {
						locals[id.Name] = true
					}
				}
			}
		case *ast.IfStmt:
			if mentionsField(s.Cond, pending) || mentionsField(s.Init, pending) || refersToAny(s.Cond, locals) {
				test = true
				ev = append(ev, "test")
				for _, b := range s.Body.List {
					switch x := b.(type) {
					case *ast.ExprStmt:
						if lockCall(x.X, lock, "Unlock") {
							branch = append(branch, "unlock")
						}
					case *ast.ReturnStmt:
						branch = append(branch, "ret")
					}
				}
				if s.Else != nil && mentionsField(s.Else, pending) {
					ev = append(ev, "other")
				}
			}
		default:
			if mentionsField(st, pending) {
				ev = append(ev, "other")
			}
		}
	}
	_ = token.NoPos
	return ev, branch, test && set
}

// unlockedAccesses: in every function of tss/coordinator.go (deferred closures on their own), walk the statement lists
// in order and report an access to the pending map that is not between <x>.<lock>.Lock() and Unlock().
func unlockedAccesses(f *ast.File, lock, pending string) ([]string, bool) {
	out := []string{}
	if f == nil || lock == "" || pending == "" {
		return out, false
	}
	var scan func(name string, list []ast.Stmt, held bool) bool
	scan = func(name string, list []ast.Stmt, held bool) bool {
		for _, st := range list {
			if es, ok := st.(*ast.ExprStmt); ok {
				if lockCall(es.X, lock, "Lock") {
					held = true
					continue
				}
				if lockCall(es.X, lock, "Unlock") {
					held = false
					continue
				}
			}
			switch s := st.(type) {
			case *ast.IfStmt:
				if (mentionsField(s.Cond, pending) || mentionsField(s.Init, pending)) && !held {
					out = append(out, name)
				}
				scan(name, s.Body.List, held) // a branch that unlocks and returns does not change the state after the `if`
				continue
			case *ast.BlockStmt:
				held = scan(name, s.List, held)
				continue
			case *ast.DeferStmt:
				if lockCall(s.Call, lock, "Unlock") {
					continue // held until the function returns
				}
				if fl, ok := s.Call.Fun.(*ast.FuncLit); ok {
					scan(name+".defer", fl.Body.List, false)
				}
				continue
			}
			if mentionsField(st, pending) && !held {
				out = append(out, name)
			}
		}
		return held
	}
	for _, d := range f.Decls {
		if fd, ok := d.(*ast.FuncDecl); ok && fd.Body != nil && fd.Recv != nil {
			// (constructors build the map before the object is shared)
			scan(fd.Name.Name, fd.Body.List, false)
		}
	}
	return out, true
}
