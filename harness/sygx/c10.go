package main

import (
	"go/ast"
	"strings"
)

// C10 / C09 structural facts.
//
// C10: for each of the six MPC process kinds, the lock-relevant events of the constructor, Run and Stop in
// source order:  L (LockKeyshare)  U (UnlockKeyshare)  dU (deferred UnlockKeyshare)  G (GetKeyshare)
//                W (a `.Wait()` call: the protocol runs until it returns)
//                ret (a return nested in a block: conditional early exit; `rete` when a constructor returns an error there)
//                end (the function's final return / falling off the end)
//                ?x  (a lock call inside a closure or anything else the table cannot express)
// C09: the admission prologue of Coordinator.Execute as top-level events up to the `defer`.

type c10kind struct{ name, file, ctor, recv string }

var c10kinds = []c10kind{
	{"ekeygen", "tss/ecdsa/keygen/keygen.go", "NewKeygen", "Keygen"},
	{"fkeygen", "tss/frost/keygen/keygen.go", "NewKeygen", "Keygen"},
	{"eresharing", "tss/ecdsa/resharing/resharing.go", "NewResharing", "Resharing"},
	{"fresharing", "tss/frost/resharing/resharing.go", "NewResharing", "Resharing"},
	{"esigning", "tss/ecdsa/signing/signing.go", "NewSigning", "Signing"},
	{"fsigning", "tss/frost/signing/signing.go", "NewSigning", "Signing"},
}

func selName(e ast.Expr) string {
	if c, ok := e.(*ast.CallExpr); ok {
		if s, ok := c.Fun.(*ast.SelectorExpr); ok {
			return s.Sel.Name
		}
	}
	return ""
}

// lockEvents linearises a function body.
func lockEvents(fd *ast.FuncDecl, isCtor bool) []string {
	if fd == nil || fd.Body == nil {
		return []string{"?missing"}
	}
	ev := []string{}
	top := map[ast.Stmt]bool{}
	for _, s := range fd.Body.List {
		top[s] = true
	}
	var visit func(n ast.Node, inClosure bool)
	visit = func(n ast.Node, inClosure bool) {
		ast.Inspect(n, func(m ast.Node) bool {
			switch x := m.(type) {
			case *ast.FuncLit:
				if x != n {
					visit(x.Body, true)
					return false
				}
			case *ast.DeferStmt:
				switch selName(x.Call) {
				case "UnlockKeyshare":
					if inClosure {
						ev = append(ev, "?dU")
					} else {
						ev = append(ev, "dU")
					}
					return false
				case "LockKeyshare":
					ev = append(ev, "?dL")
					return false
				}
			case *ast.GoStmt:
				if n := selName(x.Call); n == "UnlockKeyshare" || n == "LockKeyshare" {
					ev = append(ev, "?go")
					return false
				}
			case *ast.CallExpr:
				p := ""
				if inClosure {
					p = "?"
				}
				switch selName(x) {
				case "LockKeyshare":
					ev = append(ev, p+"L")
				case "UnlockKeyshare":
					ev = append(ev, p+"U")
				case "GetKeyshare":
					ev = append(ev, "G")
				case "Wait":
					if !inClosure {
						ev = append(ev, "W")
					}
				}
			case *ast.ReturnStmt:
				if inClosure {
					return true
				}
				for _, r := range x.Results {
					visit(r, false)
				}
				if top[x] {
					ev = append(ev, "end")
				} else if isCtor && len(x.Results) > 0 && Src(x.Results[len(x.Results)-1]) != "nil" {
					ev = append(ev, "rete")
				} else {
					ev = append(ev, "ret")
				}
				return false
			}
			return true
		})
	}
	visit(fd.Body, false)
	if len(ev) == 0 || ev[len(ev)-1] != "end" {
		ev = append(ev, "end")
	}
	return ev
}

func init() {
	extractors["C10"] = func(o *Out) {
		o.Lean.WriteString("/-- (kind, constructor events, Run events, Stop events) in source order; see harness/sygx/c10.go -/\n")
		o.Lean.WriteString("def facts : List (String × List String × List String × List String) := [\n")
		rows := []string{}
		for _, k := range c10kinds {
			f := o.ParseFile(k.file)
			c := lockEvents(FindFunc(f, "", k.ctor), true)
			r := lockEvents(FindFunc(f, k.recv, "Run"), false)
			s := lockEvents(FindFunc(f, k.recv, "Stop"), false)
			o.Facts[k.name] = map[string][]string{"ctor": c, "run": r, "stop": s}
			rows = append(rows, "  ("+LeanStr(k.name)+", "+LeanStrList(c)+", "+LeanStrList(r)+", "+LeanStrList(s)+")")
		}
		o.Lean.WriteString(strings.Join(rows, ",\n") + "]\n\n")
		// the production entry points: what each event handler does from the constructor call on, in source order
		hf := o.ParseFile("chains/evm/listener/eventHandlers/tss.go")
		o.Lean.WriteString("/-- event handlers of chains/evm/listener/eventHandlers/tss.go: from the process constructor on, in source order:\n    new (NewKeygen/NewResharing) | execute (coordinator.Execute) | stop (a Stop call) | ret (a return) -/\n")
		o.Lean.WriteString("def handlers : List (String × List String) := [\n")
		hrows := []string{}
		for _, recv := range []string{"KeygenEventHandler", "FrostKeygenEventHandler", "RefreshEventHandler"} {
			ev := handlerEvents(FindFunc(hf, recv, "HandleEvents"))
			o.Facts["handler:"+recv] = ev
			hrows = append(hrows, "  ("+LeanStr(recv)+", "+LeanStrList(ev)+")")
		}
		o.Lean.WriteString(strings.Join(hrows, ",\n") + "]\n\n")
		// the coordinator: does the refusal branch stop the processes, does the deferred block
		refusal, deferred := execFacts(o)
		o.Lean.WriteString("/-- `Coordinator.Execute`: the duplicate-refusal branch calls Stop on the processes -/\n")
		o.Lean.WriteString("def refusalStops : Bool := " + boolLean(refusal) + "\n")
		o.Lean.WriteString("/-- `Coordinator.Execute`: the deferred exit block calls Stop on the processes -/\n")
		o.Lean.WriteString("def deferStops : Bool := " + boolLean(deferred) + "\n")
	}
	extractors["C09"] = func(o *Out) {
		branch := []string{}
		ev := admissionEvents(o, &branch)
		o.Facts["admission"] = ev
		o.Facts["refusal_branch"] = branch
		o.Lean.WriteString("/-- top-level events of `Coordinator.Execute` up to its `defer`: yield | lock | unlock | set | test (the `if` on\n    pendingProcesses) | read (pendingProcesses read outside an `if`) -/\n")
		o.Lean.WriteString("def admission : List String := " + LeanStrList(ev) + "\n\n")
		o.Lean.WriteString("/-- what the body of that `if` does: read (the flag is read in its condition) | unlock | stop | ret -/\n")
		o.Lean.WriteString("def refusalBranch : List String := " + LeanStrList(branch) + "\n\n")
		un := unlockedAccesses(o)
		o.Facts["pending_accesses_outside_lock"] = un
		o.Lean.WriteString("/-- functions of tss/coordinator.go that touch `pendingProcesses` at top level without holding processLock -/\n")
		o.Lean.WriteString("def unlockedAccesses : List String := " + LeanStrList(un) + "\n")
	}
}

func boolLean(b bool) string {
	if b {
		return "true"
	}
	return "false"
}

func containsCall(n ast.Node, name string) bool {
	found := false
	Walk(n, func(m ast.Node) bool {
		if c, ok := m.(*ast.CallExpr); ok && selName(c) == name {
			found = true
		}
		return true
	})
	return found
}

func mentions(n ast.Node, ident string) bool {
	found := false
	Walk(n, func(m ast.Node) bool {
		if s, ok := m.(*ast.SelectorExpr); ok && s.Sel.Name == ident {
			found = true
		}
		return true
	})
	return found
}

func execFacts(o *Out) (refusal, deferred bool) {
	f := o.ParseFile("tss/coordinator.go")
	fd := FindFunc(f, "Coordinator", "Execute")
	if fd == nil {
		return
	}
	for _, st := range fd.Body.List {
		switch s := st.(type) {
		case *ast.IfStmt:
			if mentions(s.Cond, "pendingProcesses") || mentions(s.Init, "pendingProcesses") {
				refusal = containsCall(s.Body, "Stop")
			}
		case *ast.DeferStmt:
			if containsCall(s.Call, "Stop") && !containsCall(s.Call, "ticker") {
				deferred = true
			}
		}
	}
	return
}

// admissionEvents: top-level statements of Execute before the first defer.
func admissionEvents(o *Out, branch *[]string) []string {
	f := o.ParseFile("tss/coordinator.go")
	fd := FindFunc(f, "Coordinator", "Execute")
	ev := []string{}
	if fd == nil {
		return []string{"?missing"}
	}
	for _, st := range fd.Body.List {
		if _, ok := st.(*ast.DeferStmt); ok {
			break
		}
		switch s := st.(type) {
		case *ast.ExprStmt:
			src := Src(s.X)
			switch {
			case strings.HasPrefix(src, "verifhook.Yield("):
				ev = append(ev, "yield")
			case src == "c.processLock.Lock()":
				ev = append(ev, "lock")
			case src == "c.processLock.Unlock()":
				ev = append(ev, "unlock")
			case mentions(s.X, "pendingProcesses"):
				ev = append(ev, "?"+src)
			}
		case *ast.AssignStmt:
			if len(s.Lhs) == 1 && strings.HasPrefix(Src(s.Lhs[0]), "c.pendingProcesses[") {
				if Src(s.Rhs[0]) == "true" {
					ev = append(ev, "set")
				} else {
					ev = append(ev, "?set:"+Src(s.Rhs[0]))
				}
			} else if mentions(s, "pendingProcesses") {
				ev = append(ev, "read")
			}
		case *ast.IfStmt:
			if mentions(s.Cond, "pendingProcesses") || mentions(s.Init, "pendingProcesses") || refersTo(s.Cond, "value") {
				inner := []string{}
				if mentions(s.Init, "pendingProcesses") || mentions(s.Cond, "pendingProcesses") {
					inner = append(inner, "read")
				}
				for _, b := range s.Body.List {
					switch x := b.(type) {
					case *ast.ExprStmt:
						if Src(x.X) == "c.processLock.Unlock()" {
							inner = append(inner, "unlock")
						}
					case *ast.ReturnStmt:
						inner = append(inner, "ret")
					case *ast.RangeStmt:
						if containsCall(x, "Stop") {
							inner = append(inner, "stop")
						}
					}
				}
				ev = append(ev, "test")
				*branch = append(*branch, inner...)
			}
		}
	}
	return ev
}

func refersTo(n ast.Node, name string) bool {
	found := false
	Walk(n, func(m ast.Node) bool {
		if id, ok := m.(*ast.Ident); ok && id.Name == name {
			found = true
		}
		return true
	})
	return found
}

// unlockedAccesses: in every function of tss/coordinator.go (closures included, each on its own), walk the statement
// lists in order and report a `pendingProcesses` access that is not between processLock.Lock() and Unlock().
func unlockedAccesses(o *Out) []string {
	f := o.ParseFile("tss/coordinator.go")
	out := []string{}
	if f == nil {
		return []string{"?missing"}
	}
	var scan func(name string, list []ast.Stmt, held bool) bool
	scan = func(name string, list []ast.Stmt, held bool) bool {
		for _, st := range list {
			if es, ok := st.(*ast.ExprStmt); ok {
				switch Src(es.X) {
				case "c.processLock.Lock()":
					held = true
					continue
				case "c.processLock.Unlock()":
					held = false
					continue
				}
			}
			switch s := st.(type) {
			case *ast.IfStmt:
				if (mentions(s.Cond, "pendingProcesses") || mentions(s.Init, "pendingProcesses")) && !held {
					out = append(out, name)
				}
				// a branch that unlocks and returns does not change the state after the `if`
				scan(name, s.Body.List, held)
				continue
			case *ast.BlockStmt:
				held = scan(name, s.List, held)
				continue
			case *ast.DeferStmt:
				if fl, ok := s.Call.Fun.(*ast.FuncLit); ok {
					scan(name+".defer", fl.Body.List, false)
				}
				continue
			case *ast.RangeStmt, *ast.ForStmt:
				if mentions(st, "pendingProcesses") && !held {
					out = append(out, name)
				}
				continue
			}
			if mentions(st, "pendingProcesses") && !held {
				out = append(out, name)
			}
		}
		return held
	}
	for _, d := range f.Decls {
		if fd, ok := d.(*ast.FuncDecl); ok && fd.Body != nil && fd.Name.Name != "NewCoordinator" {
			scan(fd.Name.Name, fd.Body.List, false)
		}
	}
	return out
}

// handlerEvents: calls and returns of a HandleEvents body in source order, from the first process constructor on.
func handlerEvents(fd *ast.FuncDecl) []string {
	if fd == nil || fd.Body == nil {
		return []string{"?missing"}
	}
	ev := []string{}
	started := false
	var visit func(n ast.Node)
	visit = func(n ast.Node) {
		ast.Inspect(n, func(m ast.Node) bool {
			switch x := m.(type) {
			case *ast.FuncLit:
				if started {
					ev = append(ev, "?closure")
				}
				return false
			case *ast.ReturnStmt:
				for _, r := range x.Results {
					visit(r)
				}
				if started {
					ev = append(ev, "ret")
				}
				return false
			case *ast.CallExpr:
				for _, a := range x.Args {
					visit(a)
				}
				switch selName(x) {
				case "NewKeygen", "NewResharing", "NewSigning":
					started = true
					ev = append(ev, "new")
				case "Execute":
					if started {
						ev = append(ev, "execute")
					}
				case "Stop":
					if started {
						ev = append(ev, "stop")
					}
				}
				visit(x.Fun)
				return false
			}
			return true
		})
	}
	visit(fd.Body)
	return ev
}
