package main

import (
	"go/ast"
	"go/token"
	"sort"
	"strings"
)

// C02: facts that behaviour cannot cheaply reveal or that one literal decides. Every fact is an Option: `none` when the
// anchor is not found in a shape the extractor understands (then the correspondence ops carry the clause alone).
// Anchors are found by SHAPE: keys of composite literals of go-ethereum's exported types (Types, PrimaryType, Domain/Name),
// the map literal with string keys, calls of exported functions/methods (ProposalsHash, SetBytes, NewSigning,
// ExecuteProposals, LeftPadBytes), never by names of locals, receivers or unexported helpers; constants are resolved.
//   types, primaryType, domainName, proposalKeys, messageKey, framing   chains/proposal.go (whole file: a helper may hold them)
//   evmVersion, palletVersion, palletContract                            the constants handed to chains.ProposalsHash
//   evmFlow, substrateFlow                                               Execute: what is hashed, what reaches NewSigning, what is watched
//   evmSig, substrateSig                                                 the signature assembly as data: (part, width) list
func init() {
	extractors["C02"] = func(o *Out) {
		w := &o.Lean
		// ---------------------------------------------------------------- chains/proposal.go
		f := o.ParseFile("chains/proposal.go")
		consts := a2Consts(f)
		type fld struct{ n, t string }
		types := map[string][]fld{}
		typesOK, typesSeen := true, false
		primary, primaryOK := "", false
		domName, domOK := "", false
		keys, keysOK := []string{}, false
		msgKey, msgOK := "", false
		frame, frameOK := "", false
		if f != nil {
			Walk(f, func(n ast.Node) bool {
				switch x := n.(type) {
				case *ast.KeyValueExpr:
					switch a2Ident(x.Key) {
					case "Types":
						cl, ok := x.Value.(*ast.CompositeLit)
						if !ok || typesSeen {
							return true
						}
						typesSeen = true
						for _, el := range cl.Elts {
							kv, ok := el.(*ast.KeyValueExpr)
							if !ok {
								typesOK = false
								continue
							}
							name, ok := a2Str(kv.Key, consts)
							fl, ok2 := kv.Value.(*ast.CompositeLit)
							if !ok || !ok2 {
								typesOK = false
								continue
							}
							types[name] = []fld{}
							for _, fe := range fl.Elts {
								fc, ok := fe.(*ast.CompositeLit)
								if !ok {
									typesOK = false
									continue
								}
								var one fld
								got := 0
								for i, p := range fc.Elts {
									if pkv, ok := p.(*ast.KeyValueExpr); ok {
										v, ok := a2Str(pkv.Value, consts)
										if !ok {
											typesOK = false
										}
										if a2Ident(pkv.Key) == "Name" {
											one.n = v
											got++
										}
										if a2Ident(pkv.Key) == "Type" {
											one.t = v
											got++
										}
									} else if v, ok := a2Str(p, consts); ok { // positional {name, type}
										if i == 0 {
											one.n = v
										} else {
											one.t = v
										}
										got++
									}
								}
								if got != 2 {
									typesOK = false
								}
								types[name] = append(types[name], one)
							}
						}
					case "PrimaryType":
						primary, primaryOK = a2Str(x.Value, consts)
					case "Domain":
						if cl, ok := x.Value.(*ast.CompositeLit); ok {
							for _, el := range cl.Elts {
								if kv, ok := el.(*ast.KeyValueExpr); ok && a2Ident(kv.Key) == "Name" {
									domName, domOK = a2Str(kv.Value, consts)
								}
							}
						}
					}
				case *ast.CompositeLit:
					t := Src(x.Type)
					if (t == "map[string]interface{}" || t == "map[string]any") && !keysOK && len(x.Elts) > 0 {
						keysOK = true
						for _, el := range x.Elts {
							if kv, ok := el.(*ast.KeyValueExpr); ok {
								k, ok := a2Str(kv.Key, consts)
								keysOK = keysOK && ok
								keys = append(keys, k)
							}
						}
					}
					if strings.HasSuffix(t, "TypedDataMessage") && len(x.Elts) == 1 {
						if kv, ok := x.Elts[0].(*ast.KeyValueExpr); ok {
							msgKey, msgOK = a2Str(kv.Key, consts)
						}
					}
				case *ast.CallExpr:
					if a2Qualified(x) == "fmt.Sprintf" && len(x.Args) == 3 {
						if s, ok := a2Str(x.Args[0], consts); ok && strings.HasPrefix(s, "\x19") {
							frame, frameOK = s, true
						}
					}
				}
				return true
			})
		}
		names := []string{}
		for n := range types {
			names = append(names, n)
		}
		sort.Strings(names)
		tt := []string{}
		for _, n := range names {
			fs := [][2]string{}
			for _, fl := range types[n] {
				fs = append(fs, [2]string{fl.n, fl.t})
			}
			tt = append(tt, "("+LeanStr(n)+", "+a2LeanPairs(fs)+")")
		}
		typesOK = typesOK && typesSeen
		if !typesOK {
			o.Unavailable("types", "no `Types:` composite literal of string literals/constants in chains/proposal.go")
		}
		w.WriteString("/-- the `apitypes.Types` literal (type name ↦ [(field name, field type)]), sorted by type name -/\n")
		w.WriteString("def types : Option (List (String × List (String × String))) := " + LeanOpt(typesOK, "["+strings.Join(tt, ",\n  ")+"]") + "\n\n")
		opt := func(name, doc string, ok bool, term, why string) {
			if !ok {
				o.Unavailable(name, why)
			}
			w.WriteString("/-- " + doc + " -/\ndef " + name + " : Option String := " + LeanOpt(ok, term) + "\n")
		}
		opt("primaryType", "`PrimaryType:` of the typed data", primaryOK, LeanStr(primary), "no `PrimaryType:` string in chains/proposal.go")
		opt("domainName", "`Name:` inside `Domain:`", domOK, LeanStr(domName), "no `Domain: …{Name: <string>}` in chains/proposal.go")
		opt("messageKey", "the single key of the `TypedDataMessage` literal", msgOK, LeanStr(msgKey), "no one-entry TypedDataMessage literal")
		opt("framing", "format string that frames the digest input (fmt.Sprintf with two arguments)", frameOK, a2LeanStrEsc(frame), "no fmt.Sprintf whose format starts with \\x19")
		if !keysOK {
			o.Unavailable("proposalKeys", "no map[string]interface{} literal with string keys")
		}
		w.WriteString("/-- keys of the per-proposal map literal, in source order -/\ndef proposalKeys : Option (List String) := " + LeanOpt(keysOK, LeanStrList(keys)) + "\n\n")

		// ---------------------------------------------------------------- constants handed to chains.ProposalsHash
		hashArgs := func(file *ast.File) (ver string, verOK bool, contract string, contractOK bool) {
			cs := a2Consts(file)
			if file == nil {
				return
			}
			Walk(file, func(n ast.Node) bool {
				if c, ok := n.(*ast.CallExpr); ok && a2Method(c) == "ProposalsHash" && len(c.Args) == 4 {
					ver, verOK = a2Str(c.Args[3], cs)
					contract, contractOK = a2Str(c.Args[2], cs)
				}
				return true
			})
			return
		}
		bf := o.ParseFile("chains/evm/calls/contracts/bridge/bridge.go")
		pf := o.ParseFile("chains/substrate/pallet/pallet.go")
		ev, evOK, _, _ := hashArgs(bf)
		pv, pvOK, pc, pcOK := hashArgs(pf)
		opt("evmVersion", "the version constant BridgeContract hands to chains.ProposalsHash", evOK, LeanStr(ev), "4th argument of the ProposalsHash call in bridge.go is not a string constant")
		opt("palletVersion", "the version constant Pallet hands to chains.ProposalsHash", pvOK, LeanStr(pv), "4th argument of the ProposalsHash call in pallet.go is not a string constant")
		opt("palletContract", "the verifying contract constant Pallet hands to chains.ProposalsHash", pcOK, LeanStr(pc), "3rd argument of the ProposalsHash call in pallet.go is not a string constant")
		w.WriteString("\n")

		// ---------------------------------------------------------------- executors
		flow := func(name, path string) {
			ef := o.ParseFile(path)
			ex := FindFunc(ef, "Executor", "Execute")
			hashVar, hashed, sbRecv, sbArg, signArg, watched := "", "", "", "", "", ""
			if ex != nil {
				recv := ""
				if ex.Recv != nil && len(ex.Recv.List) == 1 && len(ex.Recv.List[0].Names) == 1 {
					recv = ex.Recv.List[0].Names[0].Name
				}
				bestArgs := 0
				Walk(ex.Body, func(n ast.Node) bool {
					if as, ok := n.(*ast.AssignStmt); ok && len(as.Rhs) == 1 && len(as.Lhs) >= 1 {
						if c, ok := as.Rhs[0].(*ast.CallExpr); ok && a2Method(c) == "ProposalsHash" && len(c.Args) == 1 {
							hashVar, hashed = a2Ident(as.Lhs[0]), Src(c.Args[0])
						}
					}
					if c, ok := n.(*ast.CallExpr); ok {
						switch a2Method(c) {
						case "SetBytes":
							if sel, ok := c.Fun.(*ast.SelectorExpr); ok && len(c.Args) == 1 {
								sbRecv, sbArg = a2Ident(sel.X), a2Ident(c.Args[0])
							}
						case "NewSigning":
							if len(c.Args) > 0 {
								signArg = a2Ident(c.Args[0])
							}
						default:
							// the watcher: a call of a method of the same receiver with the most arguments (≥ 4)
							if sel, ok := c.Fun.(*ast.SelectorExpr); ok && recv != "" && a2Ident(sel.X) == recv && len(c.Args) >= 4 && len(c.Args) > bestArgs {
								bestArgs = len(c.Args)
								watched = Src(c.Args[2])
							}
						}
					}
					return true
				})
			}
			ok := hashVar != "" && hashed != "" && sbRecv != "" && sbArg != "" && signArg != "" && watched != ""
			if !ok {
				o.Unavailable(name, "Execute: hash assignment / SetBytes / NewSigning / watcher call not all found as direct statements")
			}
			w.WriteString("/-- Execute: [hash variable, hashed argument, SetBytes argument, SetBytes receiver, first argument of NewSigning, what the watcher is handed] -/\n")
			w.WriteString("def " + name + " : Option (List String) := " + LeanOpt(ok, LeanStrList([]string{hashVar, hashed, sbArg, sbRecv, signArg, watched})) + "\n")
			o.Facts[name] = []string{hashVar, hashed, sbArg, sbRecv, signArg, watched}
		}
		flow("evmFlow", "chains/evm/executor/executor.go")
		flow("substrateFlow", "chains/substrate/executor/executor.go")

		sigAsm := func(name, path string) {
			ef := o.ParseFile(path)
			cs := a2Consts(ef)
			parts := []string{}
			ok := false
			for _, fd := range a2FuncsCalling(ef, "LeftPadBytes") {
				buf := ""
				good := true
				for _, st := range fd.Body.List {
					as, isAs := st.(*ast.AssignStmt)
					if !isAs || len(as.Lhs) != 1 || len(as.Rhs) != 1 {
						continue
					}
					// X = append(X[:] | X, E...)
					if c, isCall := as.Rhs[0].(*ast.CallExpr); isCall && a2Ident(c.Fun) == "append" && len(c.Args) == 2 && c.Ellipsis != token.NoPos {
						if buf == "" {
							buf = a2Ident(as.Lhs[0])
						}
						switch e := c.Args[1].(type) {
						case *ast.CallExpr:
							if a2Method(e) == "LeftPadBytes" && len(e.Args) == 2 {
								which := ""
								if sel, ok := e.Args[0].(*ast.SelectorExpr); ok {
									which = sel.Sel.Name
								}
								n, okN := a2Int(e.Args[1], cs)
								good = good && okN && (which == "R" || which == "S")
								parts = append(parts, "("+LeanStr(which)+", "+utoa(n)+")")
							} else {
								good = false
							}
						case *ast.SelectorExpr:
							parts = append(parts, "("+LeanStr(e.Sel.Name)+", 0)")
						default:
							good = false
						}
						continue
					}
					// X[len(X)-1] += K   |   X[len(X)-1] = X[len(X)-1] + K
					if ix, isIx := as.Lhs[0].(*ast.IndexExpr); isIx && buf != "" && a2Ident(ix.X) == buf && strings.HasPrefix(Src(ix.Index), "len(") {
						var k ast.Expr
						if as.Tok == token.ADD_ASSIGN {
							k = as.Rhs[0]
						} else if be, isBe := as.Rhs[0].(*ast.BinaryExpr); isBe && be.Op == token.ADD && as.Tok == token.ASSIGN {
							k = be.Y
							if Src(be.Y) == Src(as.Lhs[0]) {
								k = be.X
							}
						}
						if k != nil {
							if n, okN := a2Int(k, cs); okN {
								parts = append(parts, "(\"last+\", "+utoa(n)+")")
							} else {
								good = false
							}
						}
					}
				}
				// the submission takes the assembled buffer
				Walk(fd.Body, func(n ast.Node) bool {
					if c, isCall := n.(*ast.CallExpr); isCall && a2Method(c) == "ExecuteProposals" && len(c.Args) >= 2 {
						if buf != "" && a2Ident(c.Args[1]) == buf {
							parts = append(parts, "(\"submit\", 0)")
						} else {
							parts = append(parts, "(\"submit-other\", 0)")
						}
					}
					return true
				})
				ok = good && buf != "" && len(parts) > 0
				break
			}
			if !ok {
				o.Unavailable(name, "signature assembly not found as direct append statements in the function that calls LeftPadBytes")
			}
			w.WriteString("/-- signature assembly as data: appended parts with their pad width, the addition to the last byte, the submission -/\n")
			w.WriteString("def " + name + " : Option (List (String × Nat)) := " + LeanOpt(ok, "["+strings.Join(parts, ", ")+"]") + "\n")
		}
		sigAsm("evmSig", "chains/evm/executor/executor.go")
		sigAsm("substrateSig", "chains/substrate/executor/executor.go")
	}
}

func utoa(n uint64) string {
	if n == 0 {
		return "0"
	}
	s := ""
	for n > 0 {
		s = string(rune('0'+n%10)) + s
		n /= 10
	}
	return s
}
