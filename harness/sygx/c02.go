package main

import (
	"go/ast"
	"go/token"
	"strconv"
	"strings"
)

// C02: facts that behaviour cannot cheaply reveal or that one literal decides
//   - chains/proposal.go: the EIP-712 `Types` table, primary type, domain name, where chain id / version / contract come
//     from, the keys and value expressions of the per-proposal map, the "\x19\x01%s%s" framing
//   - bridge.go / pallet.go: version constants, the pallet's verifying contract, the arguments handed to chains.ProposalsHash
//   - both executors: what is hashed, what reaches NewSigning, what is submitted, and the signature assembly statements
func init() {
	extractors["C02"] = func(o *Out) {
		w := &o.Lean
		// ---------------------------------------------------------------- chains/proposal.go
		f := o.ParseFile("chains/proposal.go")
		fd := FindFunc(f, "", "ProposalsHash")
		type fld struct{ n, t string }
		types := map[string][]fld{}
		typeOrder := []string{}
		primary, domName, domChain, domVer, domContract, frame := "", "", "", "", "", ""
		msgKeys := [][2]string{}
		msgTop := ""
		unq := func(e ast.Expr) string {
			if b, ok := e.(*ast.BasicLit); ok && b.Kind == token.STRING {
				s, err := strconv.Unquote(b.Value)
				if err == nil {
					return s
				}
			}
			return "?" + Src(e)
		}
		if fd != nil {
			Walk(fd.Body, func(n ast.Node) bool {
				switch x := n.(type) {
				case *ast.KeyValueExpr:
					switch Src(x.Key) {
					case "Types":
						if cl, ok := x.Value.(*ast.CompositeLit); ok {
							for _, el := range cl.Elts {
								kv, ok := el.(*ast.KeyValueExpr)
								if !ok {
									continue
								}
								name := unq(kv.Key)
								typeOrder = append(typeOrder, name)
								if fl, ok := kv.Value.(*ast.CompositeLit); ok {
									for _, fe := range fl.Elts {
										if fc, ok := fe.(*ast.CompositeLit); ok {
											var one fld
											for _, p := range fc.Elts {
												if pkv, ok := p.(*ast.KeyValueExpr); ok {
													if Src(pkv.Key) == "Name" {
														one.n = unq(pkv.Value)
													}
													if Src(pkv.Key) == "Type" {
														one.t = unq(pkv.Value)
													}
												}
											}
											types[name] = append(types[name], one)
										}
									}
								}
							}
						}
					case "PrimaryType":
						primary = unq(x.Value)
					case "Name":
						if _, isLit := x.Value.(*ast.BasicLit); isLit && domName == "" && strings.Contains(Src(x.Value), "Bridge") {
							domName = unq(x.Value)
						}
					case "ChainId":
						domChain = Src(x.Value)
					case "Version":
						domVer = Src(x.Value)
					case "VerifyingContract":
						domContract = Src(x.Value)
					}
				case *ast.CompositeLit:
					// map[string]interface{}{ "originDomainID": …, … }
					if Src(x.Type) == "map[string]interface{}" {
						for _, el := range x.Elts {
							if kv, ok := el.(*ast.KeyValueExpr); ok {
								msgKeys = append(msgKeys, [2]string{unq(kv.Key), Src(kv.Value)})
							}
						}
					}
					if Src(x.Type) == "apitypes.TypedDataMessage" {
						for _, el := range x.Elts {
							if kv, ok := el.(*ast.KeyValueExpr); ok {
								msgTop = unq(kv.Key) + "=" + Src(kv.Value)
							}
						}
					}
				case *ast.CallExpr:
					if Src(x.Fun) == "fmt.Sprintf" && len(x.Args) == 3 {
						frame = Src(x.Args[0]) + "|" + Src(x.Args[1]) + "|" + Src(x.Args[2])
					}
				}
				return true
			})
		}
		o.Facts["types_order_in_source"] = typeOrder
		o.Facts["primary"] = primary
		w.WriteString("/-- the `apitypes.Types` literal of chains/proposal.go (type name ↦ [(field name, field type)]), sorted by type name -/\n")
		w.WriteString("def types : List (String × List (String × String)) := [")
		names := append([]string{}, typeOrder...)
		sortStrings(names)
		for i, n := range names {
			if i > 0 {
				w.WriteString(",")
			}
			w.WriteString("\n  (" + LeanStr(n) + ", [")
			for j, fl := range types[n] {
				if j > 0 {
					w.WriteString(", ")
				}
				w.WriteString("(" + LeanStr(fl.n) + ", " + LeanStr(fl.t) + ")")
			}
			w.WriteString("])")
		}
		w.WriteString("]\n\n")
		w.WriteString("def primaryType : String := " + LeanStr(primary) + "\n")
		w.WriteString("def domainName : String := " + LeanStr(domName) + "\n")
		w.WriteString("/-- source expressions filling the domain: chain id, version, verifying contract -/\n")
		w.WriteString("def domainSources : List String := " + LeanStrList([]string{domChain, domVer, domContract}) + "\n")
		w.WriteString("/-- keys and value expressions of the per-proposal map, in source order -/\n")
		w.WriteString("def proposalMap : List (String × String) := [")
		for i, kv := range msgKeys {
			if i > 0 {
				w.WriteString(", ")
			}
			w.WriteString("(" + LeanStr(kv[0]) + ", " + LeanStr(kv[1]) + ")")
		}
		w.WriteString("]\n")
		w.WriteString("def message : String := " + LeanStr(msgTop) + "\n")
		w.WriteString("/-- `fmt.Sprintf(<format>, <a>, <b>)` that frames the digest input -/\n")
		w.WriteString("def framing : String := " + LeanStr(frame) + "\n\n")

		// ---------------------------------------------------------------- constants and call sites
		constOf := func(file *ast.File, name string) string {
			v := ""
			if file == nil {
				return v
			}
			for _, d := range file.Decls {
				if gd, ok := d.(*ast.GenDecl); ok && gd.Tok == token.CONST {
					for _, sp := range gd.Specs {
						if vs, ok := sp.(*ast.ValueSpec); ok {
							for i, id := range vs.Names {
								if id.Name == name && i < len(vs.Values) {
									v = unq(vs.Values[i])
								}
							}
						}
					}
				}
			}
			return v
		}
		callArgs := func(fn *ast.FuncDecl, callee string) string {
			r := ""
			if fn != nil {
				Walk(fn.Body, func(n ast.Node) bool {
					if c, ok := n.(*ast.CallExpr); ok && Src(c.Fun) == callee {
						as := []string{}
						for _, a := range c.Args {
							as = append(as, Src(a))
						}
						r = strings.Join(as, " | ")
					}
					return true
				})
			}
			return r
		}
		bf := o.ParseFile("chains/evm/calls/contracts/bridge/bridge.go")
		pf := o.ParseFile("chains/substrate/pallet/pallet.go")
		w.WriteString("def evmBridgeVersion : String := " + LeanStr(constOf(bf, "bridgeVersion")) + "\n")
		w.WriteString("def palletBridgeVersion : String := " + LeanStr(constOf(pf, "bridgeVersion")) + "\n")
		w.WriteString("def palletVerifyingContract : String := " + LeanStr(constOf(pf, "verifyingContract")) + "\n")
		w.WriteString("def evmHashCall : String := " + LeanStr(callArgs(FindFunc(bf, "BridgeContract", "ProposalsHash"), "chains.ProposalsHash")) + "\n")
		w.WriteString("def palletHashCall : String := " + LeanStr(callArgs(FindFunc(pf, "Pallet", "ProposalsHash"), "chains.ProposalsHash")) + "\n\n")

		// ---------------------------------------------------------------- executors: data flow digest → signing, batch → submission
		flow := func(path, execFn, submitFn, submitCallee string) (hashed, setBytes, signingMsg, submitted string, sig []string) {
			ef := o.ParseFile(path)
			ex := FindFunc(ef, "Executor", "Execute")
			if ex != nil {
				Walk(ex.Body, func(n ast.Node) bool {
					if as, ok := n.(*ast.AssignStmt); ok && len(as.Rhs) == 1 && len(as.Lhs) >= 1 {
						if c, ok := as.Rhs[0].(*ast.CallExpr); ok && Src(c.Fun) == "e.bridge.ProposalsHash" && len(c.Args) == 1 {
							hashed = Src(as.Lhs[0]) + "|" + Src(c.Args[0])
						}
					}
					if c, ok := n.(*ast.CallExpr); ok {
						switch Src(c.Fun) {
						case "msg.SetBytes":
							if len(c.Args) == 1 {
								setBytes = Src(c.Args[0])
							}
						case "signing.NewSigning":
							if len(c.Args) > 0 {
								signingMsg = Src(c.Args[0])
							}
						case "e.watchExecution":
							if len(c.Args) > 2 {
								submitted = Src(c.Args[2])
							}
						}
					}
					return true
				})
			}
			sf := FindFunc(ef, "Executor", submitFn)
			if sf != nil {
				for _, st := range sf.Body.List {
					switch s := st.(type) {
					case *ast.AssignStmt:
						if Src(s.Lhs[0]) == "sig" || strings.HasPrefix(Src(s.Lhs[0]), "sig[") {
							sig = append(sig, Src(s))
						}
					}
				}
				Walk(sf.Body, func(n ast.Node) bool {
					if c, ok := n.(*ast.CallExpr); ok && Src(c.Fun) == submitCallee && len(c.Args) >= 2 {
						sig = append(sig, "submit("+Src(c.Args[0])+", "+Src(c.Args[1])+")")
					}
					return true
				})
			}
			return
		}
		h, sb, sm, su, sg := flow("chains/evm/executor/executor.go", "Execute", "executeBatch", "e.bridge.ExecuteProposals")
		w.WriteString("/-- Execute: `<var>|<arg>` of `<var>, err := e.bridge.ProposalsHash(<arg>)`, argument of msg.SetBytes, first argument of NewSigning, what is handed to watchExecution for submission -/\n")
		w.WriteString("def evmFlow : List String := " + LeanStrList([]string{h, sb, sm, su}) + "\n")
		w.WriteString("def evmSig : List String := " + LeanStrList(sg) + "\n")
		h, sb, sm, su, sg = flow("chains/substrate/executor/executor.go", "Execute", "executeProposal", "e.bridge.ExecuteProposals")
		w.WriteString("def substrateFlow : List String := " + LeanStrList([]string{h, sb, sm, su}) + "\n")
		w.WriteString("def substrateSig : List String := " + LeanStrList(sg) + "\n")
		o.Facts["evm_flow"] = []string{h, sb, sm, su}
	}
}

func sortStrings(xs []string) {
	for i := 1; i < len(xs); i++ {
		for j := i; j > 0 && xs[j] < xs[j-1]; j-- {
			xs[j], xs[j-1] = xs[j-1], xs[j]
		}
	}
}
