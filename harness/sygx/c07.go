package main

import (
	"go/ast"
	"strings"
)

// C07: decision expressions the property hinges on, as source text (regenerated on every run):
//   - SortablePeerSlice.Less: the comparison it returns and what the two hashes are taken of
//   - the sender guards of waitForStart (initiate, start) and watchExecution (fail)
//   - the admission test of a ready message in initiate
//   - the Ready test of both Signing types
func init() {
	extractors["C07"] = func(o *Out) {
		sortF := o.ParseFile("tss/util/sort.go")
		lessRet, hashes := "", []string{}
		if fd := FindFunc(sortF, "SortablePeerSlice", "Less"); fd != nil {
			Walk(fd.Body, func(n ast.Node) bool {
				switch s := n.(type) {
				case *ast.ReturnStmt:
					if len(s.Results) == 1 {
						lessRet = Src(s.Results[0])
					}
				case *ast.AssignStmt:
					if len(s.Lhs) == 1 && len(s.Rhs) == 1 && strings.HasSuffix(Src(s.Lhs[0]), "Hash") {
						hashes = append(hashes, Src(s.Lhs[0])+"="+Src(s.Rhs[0]))
					}
				}
				return true
			})
		}
		co := o.ParseFile("tss/coordinator.go")
		conds := func(recv, fn, mention string) []string {
			out := []string{}
			if fd := FindFunc(co, recv, fn); fd != nil {
				Walk(fd.Body, func(n ast.Node) bool {
					if is, ok := n.(*ast.IfStmt); ok && strings.Contains(Src(is.Cond), mention) {
						out = append(out, Src(is.Cond))
					}
					return true
				})
			}
			return out
		}
		ready := []string{}
		for _, p := range []string{"tss/ecdsa/signing/signing.go", "tss/frost/signing/signing.go"} {
			if fd := FindFunc(o.ParseFile(p), "Signing", "Ready"); fd != nil {
				Walk(fd.Body, func(n ast.Node) bool {
					if rs, ok := n.(*ast.ReturnStmt); ok && len(rs.Results) == 2 {
						ready = append(ready, Src(rs.Results[0]))
					}
					return true
				})
			}
		}
		wait := conds("Coordinator", "waitForStart", "coordinator")
		watch := conds("Coordinator", "watchExecution", "coordinator")
		admit := conds("Coordinator", "initiate", "wMsg.From")
		o.Facts["less_return"] = lessRet
		o.Facts["less_hashes"] = hashes
		o.Facts["wait_guards"] = wait
		o.Facts["watch_guards"] = watch
		o.Facts["ready_admission"] = admit
		o.Facts["ready_tests"] = ready
		o.Lean.WriteString("def lessReturn : String := " + LeanStr(lessRet) + "\n")
		o.Lean.WriteString("def lessHashes : List String := " + LeanStrList(hashes) + "\n")
		o.Lean.WriteString("def waitGuards : List String := " + LeanStrList(wait) + "\n")
		o.Lean.WriteString("def watchGuards : List String := " + LeanStrList(watch) + "\n")
		o.Lean.WriteString("def readyAdmission : List String := " + LeanStrList(admit) + "\n")
		o.Lean.WriteString("def readyTests : List String := " + LeanStrList(ready) + "\n")
	}
}
