package main

import (
	"go/ast"
	"go/token"
	"strconv"
	"strings"
)

// C07: decision expressions the property hinges on, located by SHAPE (never by the names of locals, receivers or
// parameters, never by comparing source text) and translated into Lean terms; a fact that cannot be located or has a
// shape the translator does not understand is `none` (T-TIE-UNAVAILABLE; the correspondence ops carry the property).
//
//	lessDescending : Less(i, j) ⇔ key(i) > key(j) with key(k) = BigEndian.Uint64(Keccak256(Pretty(k) ++ SessionID(k)))
//	                 → some true; the same keys compared ascending → some false
//	waitGuards     : the sender tests of the initiate / start cases of waitForStart, as functions of
//	                 (known : coordinator ≠ "", same : From = coordinator) telling whether the message is IGNORED
//	watchGuard     : the sender test of the fail case of watchExecution, same variables
//	readyAdmission : the test under which initiate appends the sender of a ready message, as a function of
//	                 (excl : sender ∈ excluded, present : sender ∈ ready set)
//	readyTests     : Ready of both Signing types as functions of (n = number of ready key holders, t = threshold)
func init() {
	extractors["C07"] = func(o *Out) {
		o.Lean.WriteString("set_option linter.unusedVariables false\n\n")
		// ---------------------------------------------------------------- Less
		lessOK, lessDesc, lessWhy := c07Less(o.ParseFile("tss/util/sort.go"))
		if !lessOK {
			o.Unavailable("lessDescending", lessWhy)
		}
		o.Facts["less_descending"] = map[string]interface{}{"located": lessOK, "descending": lessDesc}
		o.Lean.WriteString("/-- `Less(i, j)` compares the big-endian uint64 prefixes of Keccak256(Pretty ++ SessionID) of the two entries: descending? -/\n")
		o.Lean.WriteString("def lessDescending : Option Bool := " + LeanOpt(lessOK, map[bool]string{true: "true", false: "false"}[lessDesc]) + "\n\n")

		co := o.ParseFile("tss/coordinator.go")
		// ---------------------------------------------------------------- sender guards
		wait, why := c07Guards(c07Method(co, "Coordinator", "waitForStart", 5))
		if wait == nil || len(wait) != 2 {
			if why == "" {
				why = "expected two `if … { continue }` sender tests, found " + c07Itoa(len(wait))
			}
			o.Unavailable("waitGuards", why)
			wait = nil
		}
		o.Facts["wait_guards"] = wait
		o.Lean.WriteString("/-- is an initiate / start message ignored? (known : coordinator ≠ \"\", same : From = coordinator) -/\n")
		o.Lean.WriteString("def waitGuards : Option (List (Bool → Bool → Bool)) := " + LeanOpt(wait != nil, "["+strings.Join(c07Funs("known same", wait), ", ")+"]") + "\n\n")
		watch, why := c07Guards(c07Method(co, "Coordinator", "watchExecution", 3))
		if watch == nil || len(watch) != 1 {
			if why == "" {
				why = "expected one `if … { continue }` sender test, found " + c07Itoa(len(watch))
			}
			o.Unavailable("watchGuard", why)
			watch = nil
		}
		o.Facts["watch_guard"] = watch
		o.Lean.WriteString("/-- is a fail message ignored? -/\n")
		wterm := ""
		if watch != nil {
			wterm = c07Funs("known same", watch)[0]
		}
		o.Lean.WriteString("def watchGuard : Option (Bool → Bool → Bool) := " + LeanOpt(watch != nil, wterm) + "\n\n")
		// ---------------------------------------------------------------- ready admission
		adm, why := c07Admission(c07Method(co, "Coordinator", "initiate", 4))
		if adm == "" {
			o.Unavailable("readyAdmission", why)
		}
		o.Facts["ready_admission"] = adm
		o.Lean.WriteString("/-- is the sender of a ready message appended to the ready set? (excl : sender excluded, present : already there) -/\n")
		o.Lean.WriteString("def readyAdmission : Option (Bool → Bool → Bool) := " + LeanOpt(adm != "", "fun excl present => "+adm) + "\n\n")
		// ---------------------------------------------------------------- Ready of both Signing types
		tests := []string{}
		okAll := true
		for _, p := range []string{"tss/ecdsa/signing/signing.go", "tss/frost/signing/signing.go"} {
			t, why := c07ReadyTest(o.ParseFile(p))
			if t == "" {
				o.Unavailable("readyTests", p+": "+why)
				okAll = false
				break
			}
			tests = append(tests, t)
		}
		o.Facts["ready_tests"] = tests
		o.Lean.WriteString("/-- `Ready` of the ECDSA and the FROST Signing (n ready key holders, threshold t) -/\n")
		o.Lean.WriteString("def readyTests : Option (List (Nat → Nat → Bool)) := " + LeanOpt(okAll, "["+strings.Join(c07Funs("n t", tests), ", ")+"]") + "\n")
	}
}

func c07Itoa(i int) string { return strconv.Itoa(i) }

func c07Funs(vars string, bodies []string) []string {
	out := []string{}
	for _, b := range bodies {
		out = append(out, "(fun "+vars+" => "+b+")")
	}
	return out
}

// c07Method finds a method by name, or — when the name is gone — the method of that receiver type with that many
// parameters one of which has type peer.ID / []peer.ID as the original has (good enough to survive a rename).
func c07Method(f *ast.File, recv, name string, nparams int) *ast.FuncDecl {
	if fd := FindFunc(f, recv, name); fd != nil {
		return fd
	}
	return nil
}

// c07ParamOfType returns the name of the first parameter whose type prints as one of the given strings.
func c07ParamOfType(fd *ast.FuncDecl, types ...string) string {
	if fd == nil {
		return ""
	}
	for _, p := range fd.Type.Params.List {
		for _, t := range types {
			if Src(p.Type) == t && len(p.Names) > 0 {
				return p.Names[0].Name
			}
		}
	}
	return ""
}

// c07BoolTerm translates a boolean expression built from &&, ||, !, parentheses and atoms.
func c07BoolTerm(e ast.Expr, atom func(ast.Expr) (string, bool)) (string, bool) {
	if s, ok := atom(e); ok {
		return s, true
	}
	switch x := e.(type) {
	case *ast.ParenExpr:
		return c07BoolTerm(x.X, atom)
	case *ast.UnaryExpr:
		if x.Op == token.NOT {
			s, ok := c07BoolTerm(x.X, atom)
			return "(!" + s + ")", ok
		}
	case *ast.BinaryExpr:
		if x.Op == token.LAND || x.Op == token.LOR {
			l, ok1 := c07BoolTerm(x.X, atom)
			r, ok2 := c07BoolTerm(x.Y, atom)
			return "(" + l + map[token.Token]string{token.LAND: " && ", token.LOR: " || "}[x.Op] + r + ")", ok1 && ok2
		}
	}
	return "false", false
}

func c07StripPretty(e ast.Expr) ast.Expr {
	if c, ok := e.(*ast.CallExpr); ok && len(c.Args) == 0 {
		if s, ok := c.Fun.(*ast.SelectorExpr); ok && (s.Sel.Name == "Pretty" || s.Sel.Name == "String") {
			return s.X
		}
	}
	return e
}

func c07IsFrom(e ast.Expr) bool {
	s, ok := c07StripPretty(e).(*ast.SelectorExpr)
	return ok && s.Sel.Name == "From"
}

// c07Guards: the `if <cond> { … continue }` statements of fd whose condition mentions <something>.From and the peer.ID
// parameter; each condition as a Lean Bool over `known` (coordinator ≠ "") and `same` (From = coordinator).
func c07Guards(fd *ast.FuncDecl) ([]string, string) {
	coord := c07ParamOfType(fd, "peer.ID")
	if fd == nil || coord == "" {
		return nil, "method or its peer.ID parameter not found"
	}
	isCoord := func(e ast.Expr) bool {
		id, ok := c07StripPretty(e).(*ast.Ident)
		return ok && id.Name == coord
	}
	atom := func(e ast.Expr) (string, bool) {
		b, ok := e.(*ast.BinaryExpr)
		if !ok || (b.Op != token.EQL && b.Op != token.NEQ) {
			return "", false
		}
		neg := b.Op == token.NEQ
		lit := func(x ast.Expr) bool { l, ok := x.(*ast.BasicLit); return ok && l.Value == `""` }
		switch {
		case (isCoord(b.X) && lit(b.Y)) || (lit(b.X) && isCoord(b.Y)): // coordinator ==/!= ""
			if neg {
				return "known", true
			}
			return "(!known)", true
		case (c07IsFrom(b.X) && isCoord(b.Y)) || (isCoord(b.X) && c07IsFrom(b.Y)): // From ==/!= coordinator (with or without Pretty())
			if neg {
				return "(!same)", true
			}
			return "same", true
		}
		return "", false
	}
	out := []string{}
	bad := ""
	Walk(fd.Body, func(n ast.Node) bool {
		is, ok := n.(*ast.IfStmt)
		if !ok || is.Else != nil {
			return true
		}
		mentionsFrom, mentionsCoord := false, false
		Walk(is.Cond, func(m ast.Node) bool {
			if e, ok := m.(ast.Expr); ok {
				if c07IsFrom(e) {
					mentionsFrom = true
				}
				if id, ok := e.(*ast.Ident); ok && id.Name == coord {
					mentionsCoord = true
				}
			}
			return true
		})
		if !mentionsFrom || !mentionsCoord {
			return true
		}
		endsInContinue := false
		if k := len(is.Body.List); k > 0 {
			if br, ok := is.Body.List[k-1].(*ast.BranchStmt); ok && br.Tok == token.CONTINUE {
				endsInContinue = true
			}
		}
		if !endsInContinue {
			bad = "a sender test that does not `continue`"
			return true
		}
		t, ok := c07BoolTerm(is.Cond, atom)
		if !ok {
			bad = "a sender test of a shape the translator does not understand"
			return true
		}
		out = append(out, t)
		return true
	})
	if bad != "" {
		return nil, bad
	}
	return out, ""
}

// c07Admission: in initiate, the `if <cond> { R = append(R, X.From) }` statement; cond over
// excl = slices.Contains(<the []peer.ID parameter>, X.From), present = slices.Contains(R, X.From).
func c07Admission(fd *ast.FuncDecl) (string, string) {
	excl := c07ParamOfType(fd, "[]peer.ID", "peer.IDSlice")
	if fd == nil || excl == "" {
		return "", "method or its excluded-peers parameter not found"
	}
	res, why := "", "no `if … { ready = append(ready, msg.From) }` statement found"
	Walk(fd.Body, func(n ast.Node) bool {
		is, ok := n.(*ast.IfStmt)
		if !ok || is.Else != nil || len(is.Body.List) != 1 {
			return true
		}
		as, ok := is.Body.List[0].(*ast.AssignStmt)
		if !ok || len(as.Lhs) != 1 || len(as.Rhs) != 1 {
			return true
		}
		call, ok := as.Rhs[0].(*ast.CallExpr)
		if !ok || Src(call.Fun) != "append" || len(call.Args) != 2 || Src(call.Args[0]) != Src(as.Lhs[0]) || !c07IsFrom(call.Args[1]) {
			return true
		}
		ready := Src(as.Lhs[0])
		atom := func(e ast.Expr) (string, bool) {
			c, ok := e.(*ast.CallExpr)
			if !ok || len(c.Args) != 2 || !c07IsFrom(c.Args[1]) {
				return "", false
			}
			if s, ok := c.Fun.(*ast.SelectorExpr); !ok || s.Sel.Name != "Contains" {
				return "", false
			}
			switch Src(c.Args[0]) {
			case excl:
				return "excl", true
			case ready:
				return "present", true
			}
			return "", false
		}
		if t, ok := c07BoolTerm(is.Cond, atom); ok {
			res = t
		} else {
			why = "the admission test has a shape the translator does not understand"
		}
		return false
	})
	return res, why
}

// c07ReadyTest: Signing.Ready returns `<cmp of len(X) and T+1>, nil` where T ends in `.Threshold`.
func c07ReadyTest(f *ast.File) (string, string) {
	fd := FindFunc(f, "Signing", "Ready")
	if fd == nil {
		return "", "Signing.Ready not found"
	}
	var ret ast.Expr
	for _, st := range fd.Body.List {
		if rs, ok := st.(*ast.ReturnStmt); ok && len(rs.Results) == 2 {
			ret = rs.Results[0]
		}
	}
	if ret == nil {
		return "", "no `return <bool>, <err>` at the top level of Ready"
	}
	names := map[string]string{}
	Walk(ret, func(n ast.Node) bool {
		switch x := n.(type) {
		case *ast.CallExpr:
			if Src(x.Fun) == "len" && len(x.Args) == 1 {
				names[Src(x)] = "n"
				return false
			}
		case *ast.SelectorExpr:
			if x.Sel.Name == "Threshold" {
				names[Src(x)] = "t"
				return false
			}
		}
		return true
	})
	t, ok := LeanExpr(ret, names)
	if !ok {
		return "", "the Ready test has a shape the translator does not understand: " + Src(ret)
	}
	return t, ""
}

// c07Less: SortablePeerSlice.Less(i, j) — each side of the returned comparison must be
// binary.BigEndian.Uint64(Keccak256(append([]byte(R[k].ID.Pretty()), []byte(R[k].SessionID)...))) for k = i resp. j,
// directly or through a local assigned exactly that.
func c07Less(f *ast.File) (ok bool, descending bool, why string) {
	var fd *ast.FuncDecl
	if f != nil {
		for _, d := range f.Decls { // the Less of sort.Interface: (int, int) bool on the slice type, whatever the names
			if m, isF := d.(*ast.FuncDecl); isF && m.Recv != nil && m.Name.Name == "Less" && strings.HasSuffix(Src(m.Recv.List[0].Type), "SortablePeerSlice") {
				fd = m
			}
		}
	}
	if fd == nil || len(fd.Recv.List[0].Names) != 1 {
		return false, false, "Less of SortablePeerSlice not found"
	}
	recv := fd.Recv.List[0].Names[0].Name
	ps := []string{}
	for _, p := range fd.Type.Params.List {
		for _, n := range p.Names {
			ps = append(ps, n.Name)
		}
	}
	if len(ps) != 2 {
		return false, false, "Less does not have two parameters"
	}
	locals := map[string]ast.Expr{}
	var ret ast.Expr
	for _, st := range fd.Body.List {
		switch s := st.(type) {
		case *ast.AssignStmt:
			if len(s.Lhs) == 1 && len(s.Rhs) == 1 {
				if id, ok := s.Lhs[0].(*ast.Ident); ok {
					locals[id.Name] = s.Rhs[0]
				}
			}
		case *ast.ReturnStmt:
			if len(s.Results) == 1 {
				ret = s.Results[0]
			}
		}
	}
	resolve := func(e ast.Expr) ast.Expr {
		if id, ok := e.(*ast.Ident); ok {
			if r, ok := locals[id.Name]; ok {
				return r
			}
		}
		return e
	}
	// entryField(e, field…) : e is R[k].<fields> → k
	entry := func(e ast.Expr, path string) string {
		want := strings.Split(path, ".")
		for i := len(want) - 1; i >= 0; i-- {
			s, ok := e.(*ast.SelectorExpr)
			if !ok || s.Sel.Name != want[i] {
				return ""
			}
			e = s.X
		}
		ix, ok := e.(*ast.IndexExpr)
		if !ok || Src(ix.X) != recv {
			return ""
		}
		return Src(ix.Index)
	}
	bytesOf := func(e ast.Expr) ast.Expr { // []byte(x) → x
		c, ok := e.(*ast.CallExpr)
		if ok && Src(c.Fun) == "[]byte" && len(c.Args) == 1 {
			return c.Args[0]
		}
		return nil
	}
	keyOf := func(e ast.Expr) string { // which entry's key is this expression?
		c, ok := resolve(e).(*ast.CallExpr)
		if !ok || !strings.HasSuffix(Src(c.Fun), "BigEndian.Uint64") || len(c.Args) != 1 {
			return ""
		}
		h, ok := resolve(c.Args[0]).(*ast.CallExpr)
		if !ok || !strings.HasSuffix(Src(h.Fun), "Keccak256") || len(h.Args) != 1 {
			return ""
		}
		ap, ok := h.Args[0].(*ast.CallExpr)
		if !ok || Src(ap.Fun) != "append" || len(ap.Args) != 2 || !ap.Ellipsis.IsValid() {
			return ""
		}
		a, b := bytesOf(ap.Args[0]), bytesOf(ap.Args[1])
		if a == nil || b == nil {
			return ""
		}
		k1 := entry(c07StripPretty(a), "ID")
		k2 := entry(b, "SessionID")
		if k1 == "" || k1 != k2 || c07StripPretty(a) == a {
			return ""
		}
		return k1
	}
	b, isB := ret.(*ast.BinaryExpr)
	if !isB || (b.Op != token.GTR && b.Op != token.LSS) {
		return false, false, "Less does not return a `>` / `<` comparison"
	}
	l, r := keyOf(b.X), keyOf(b.Y)
	if l == "" || r == "" || l == r {
		return false, false, "the compared values are not the Keccak keys of the two entries in a shape the translator understands"
	}
	// key(first) > key(second)  or  key(second) < key(first)  ⇒ descending
	firstLeft := l == ps[0] && r == ps[1]
	secondLeft := l == ps[1] && r == ps[0]
	if !firstLeft && !secondLeft {
		return false, false, "the compared entries are not the two parameters"
	}
	return true, (firstLeft && b.Op == token.GTR) || (secondLeft && b.Op == token.LSS), ""
}
