package main

// Helpers shared by the C15 and C16 extractors (owned by them): a translator from Go expressions to Lean terms that
// locates things by SHAPE — names of locals, receivers and unexported helpers are derived from the statements and
// handed in through `Names` —, resolves package-level constants, inlines single-assignment locals, understands
// `x.Cmp(y) <op> <k>` in all its spellings, and can emit uint64 wrap-around arithmetic.

import (
	"go/ast"
	"go/token"
	"strconv"
	"strings"
)

const cxM = "18446744073709551616"

// CX is one translation context.
type CX struct {
	Names  map[string]string   // Go source of a sub-expression -> Lean term
	Consts map[string]string   // package-level identifier -> literal
	Locals map[string]ast.Expr // single-assignment locals to inline
	Wrap   bool                // emit + - * reduced mod 2^64 (operands are assumed < 2^64)
	depth  int
}

// cxConsts collects package-level `const`/`var` identifiers of a file that are bound to a basic literal.
func cxConsts(f *ast.File) map[string]string {
	m := map[string]string{}
	if f == nil {
		return m
	}
	for _, d := range f.Decls {
		gd, ok := d.(*ast.GenDecl)
		if !ok || (gd.Tok != token.CONST && gd.Tok != token.VAR) {
			continue
		}
		for _, sp := range gd.Specs {
			vs, ok := sp.(*ast.ValueSpec)
			if !ok {
				continue
			}
			for i, n := range vs.Names {
				if i < len(vs.Values) {
					if bl, ok := vs.Values[i].(*ast.BasicLit); ok {
						m[n.Name] = strings.Trim(bl.Value, "\"")
					}
				}
			}
		}
	}
	return m
}

// cxLocals collects `x := e` / `var x = e` statements at the top level of a block for names assigned exactly once.
func cxLocals(body *ast.BlockStmt) map[string]ast.Expr {
	m := map[string]ast.Expr{}
	count := map[string]int{}
	if body == nil {
		return m
	}
	ast.Inspect(body, func(n ast.Node) bool {
		if a, ok := n.(*ast.AssignStmt); ok {
			for _, l := range a.Lhs {
				if id, ok := l.(*ast.Ident); ok {
					count[id.Name]++
				}
			}
		}
		return true
	})
	for _, st := range body.List {
		if a, ok := st.(*ast.AssignStmt); ok && a.Tok == token.DEFINE && len(a.Lhs) == 1 && len(a.Rhs) == 1 {
			if id, ok := a.Lhs[0].(*ast.Ident); ok && count[id.Name] == 1 {
				if _, isCall := a.Rhs[0].(*ast.CallExpr); !isCall {
					m[id.Name] = a.Rhs[0]
				}
			}
		}
	}
	return m
}

func cxIntLit(e ast.Expr) (int, bool) {
	switch x := e.(type) {
	case *ast.BasicLit:
		if x.Kind == token.INT {
			v, err := strconv.Atoi(x.Value)
			return v, err == nil
		}
	case *ast.UnaryExpr:
		if x.Op == token.SUB {
			v, ok := cxIntLit(x.X)
			return -v, ok
		}
	case *ast.ParenExpr:
		return cxIntLit(x.X)
	}
	return 0, false
}

// Nat translates an integer-valued expression.
func (c *CX) Nat(e ast.Expr) (string, bool) {
	if v, ok := c.Names[Src(e)]; ok {
		return v, true
	}
	c.depth++
	defer func() { c.depth-- }()
	if c.depth > 40 {
		return "0", false
	}
	switch x := e.(type) {
	case *ast.ParenExpr:
		return c.Nat(x.X)
	case *ast.BasicLit:
		if x.Kind == token.INT {
			return x.Value, true
		}
	case *ast.Ident:
		if v, ok := c.Consts[x.Name]; ok {
			if _, err := strconv.ParseUint(v, 10, 64); err == nil {
				return v, true
			}
		}
		if l, ok := c.Locals[x.Name]; ok {
			return c.Nat(l)
		}
	case *ast.CallExpr:
		// integer conversions are transparent here: uint64(x), int64(x), int(x)
		if id, ok := x.Fun.(*ast.Ident); ok && len(x.Args) == 1 && (id.Name == "uint64" || id.Name == "int64" || id.Name == "int" || id.Name == "uint32") {
			return c.Nat(x.Args[0])
		}
	case *ast.BinaryExpr:
		l, ok1 := c.Nat(x.X)
		r, ok2 := c.Nat(x.Y)
		ok := ok1 && ok2
		switch x.Op {
		case token.ADD:
			if c.Wrap {
				return "((" + l + " + " + r + ") % " + cxM + ")", ok
			}
			return "(" + l + " + " + r + ")", ok
		case token.SUB:
			if c.Wrap {
				return "((" + l + " + " + cxM + " - " + r + ") % " + cxM + ")", ok
			}
			return "(" + l + " - " + r + ")", ok
		case token.MUL:
			if c.Wrap {
				return "((" + l + " * " + r + ") % " + cxM + ")", ok
			}
			return "(" + l + " * " + r + ")", ok
		case token.QUO:
			return "(" + l + " / " + r + ")", ok
		case token.REM:
			return "(" + l + " % " + r + ")", ok
		}
	}
	return "0", false
}

// cmpCall recognises `a.Cmp(b)`.
func cmpCall(e ast.Expr) (ast.Expr, ast.Expr, bool) {
	if p, ok := e.(*ast.ParenExpr); ok {
		return cmpCall(p.X)
	}
	c, ok := e.(*ast.CallExpr)
	if !ok || len(c.Args) != 1 {
		return nil, nil, false
	}
	s, ok := c.Fun.(*ast.SelectorExpr)
	if !ok || s.Sel.Name != "Cmp" {
		return nil, nil, false
	}
	return s.X, c.Args[0], true
}

// Bool translates a boolean expression into a Lean `Bool` term.
func (c *CX) Bool(e ast.Expr) (string, bool) {
	if v, ok := c.Names[Src(e)]; ok {
		return v, true
	}
	switch x := e.(type) {
	case *ast.ParenExpr:
		return c.Bool(x.X)
	case *ast.Ident:
		if x.Name == "true" || x.Name == "false" {
			return x.Name, true
		}
		if l, ok := c.Locals[x.Name]; ok {
			return c.Bool(l)
		}
	case *ast.UnaryExpr:
		if x.Op == token.NOT {
			s, ok := c.Bool(x.X)
			return "(!" + s + ")", ok
		}
	case *ast.BinaryExpr:
		if x.Op == token.LAND || x.Op == token.LOR {
			l, ok1 := c.Bool(x.X)
			r, ok2 := c.Bool(x.Y)
			op := "&&"
			if x.Op == token.LOR {
				op = "||"
			}
			return "(" + l + " " + op + " " + r + ")", ok1 && ok2
		}
		// a.Cmp(b) <op> k   /   k <op> a.Cmp(b)
		if a, b, ok := cmpCall(x.X); ok {
			if k, ok := cxIntLit(x.Y); ok {
				return c.cmp(a, b, x.Op, k)
			}
		}
		if a, b, ok := cmpCall(x.Y); ok {
			if k, ok := cxIntLit(x.X); ok {
				flip := map[token.Token]token.Token{token.LSS: token.GTR, token.GTR: token.LSS, token.LEQ: token.GEQ, token.GEQ: token.LEQ, token.EQL: token.EQL, token.NEQ: token.NEQ}
				return c.cmp(a, b, flip[x.Op], k)
			}
		}
		cmp := map[token.Token]string{token.LSS: "<", token.LEQ: "≤", token.GTR: ">", token.GEQ: "≥", token.EQL: "=", token.NEQ: "≠"}[x.Op]
		if cmp != "" {
			l, ok1 := c.Nat(x.X)
			r, ok2 := c.Nat(x.Y)
			return "decide (" + l + " " + cmp + " " + r + ")", ok1 && ok2
		}
	}
	return "false", false
}

// cmp: the truth of `sign(a-b) <op> k` as a comparison of a and b (sign ∈ {-1,0,1}).
func (c *CX) cmp(a, b ast.Expr, op token.Token, k int) (string, bool) {
	l, ok1 := c.Nat(a)
	r, ok2 := c.Nat(b)
	holds := func(s int) bool {
		switch op {
		case token.LSS:
			return s < k
		case token.LEQ:
			return s <= k
		case token.GTR:
			return s > k
		case token.GEQ:
			return s >= k
		case token.EQL:
			return s == k
		case token.NEQ:
			return s != k
		}
		return false
	}
	parts := []string{}
	if holds(-1) {
		parts = append(parts, "decide ("+l+" < "+r+")")
	}
	if holds(0) {
		parts = append(parts, "decide ("+l+" = "+r+")")
	}
	if holds(1) {
		parts = append(parts, "decide ("+l+" > "+r+")")
	}
	if len(parts) == 0 {
		return "false", ok1 && ok2
	}
	return "(" + strings.Join(parts, " || ") + ")", ok1 && ok2
}

// cxFindMethod finds a method of `recv` by name, or — when the name is gone — the unique method with the given
// parameter/result type signature (as printed by Src of the FuncType's Params and Results).
func cxFindMethod(f *ast.File, recv, name, params, results string) *ast.FuncDecl {
	if fd := FindFunc(f, recv, name); fd != nil {
		return fd
	}
	if f == nil {
		return nil
	}
	var hit *ast.FuncDecl
	n := 0
	for _, d := range f.Decls {
		fd, ok := d.(*ast.FuncDecl)
		if !ok || fd.Recv == nil || len(fd.Recv.List) != 1 {
			continue
		}
		t := fd.Recv.List[0].Type
		if s, ok := t.(*ast.StarExpr); ok {
			t = s.X
		}
		if id, ok := t.(*ast.Ident); !ok || id.Name != recv {
			continue
		}
		if cxTypes(fd.Type.Params) == params && cxTypes(fd.Type.Results) == results {
			hit = fd
			n++
		}
	}
	if n == 1 {
		return hit
	}
	return nil
}

// cxTypes prints the types of a field list, without names: "(uint64, uint64)".
func cxTypes(fl *ast.FieldList) string {
	if fl == nil {
		return "()"
	}
	ts := []string{}
	for _, f := range fl.List {
		k := len(f.Names)
		if k == 0 {
			k = 1
		}
		for i := 0; i < k; i++ {
			ts = append(ts, Src(f.Type))
		}
	}
	return "(" + strings.Join(ts, ", ") + ")"
}

// cxParam returns the name of the i-th parameter (flattening grouped names).
func cxParam(fd *ast.FuncDecl, i int) string {
	if fd == nil || fd.Type.Params == nil {
		return ""
	}
	k := 0
	for _, f := range fd.Type.Params.List {
		for _, n := range f.Names {
			if k == i {
				return n.Name
			}
			k++
		}
	}
	return ""
}

func cxRecv(fd *ast.FuncDecl) string {
	if fd != nil && fd.Recv != nil && len(fd.Recv.List) == 1 && len(fd.Recv.List[0].Names) == 1 {
		return fd.Recv.List[0].Names[0].Name
	}
	return ""
}

// cxAddTo recognises `X += e` and `X = X + e` / `X = e + X`; returns X and e.
func cxAddTo(st ast.Stmt) (string, ast.Expr, bool) {
	a, ok := st.(*ast.AssignStmt)
	if !ok || len(a.Lhs) != 1 || len(a.Rhs) != 1 {
		return "", nil, false
	}
	x := Src(a.Lhs[0])
	if a.Tok == token.ADD_ASSIGN {
		return x, a.Rhs[0], true
	}
	if b, ok := a.Rhs[0].(*ast.BinaryExpr); ok && a.Tok == token.ASSIGN && b.Op == token.ADD {
		if Src(b.X) == x {
			return x, b.Y, true
		}
		if Src(b.Y) == x {
			return x, b.X, true
		}
	}
	return "", nil, false
}

// cxLoops calls f with the body of every `range` / 3-clause `for` loop directly under n (not nested loops' bodies twice).
func cxLoops(n ast.Node, f func(body *ast.BlockStmt, loop ast.Stmt)) {
	Walk(n, func(m ast.Node) bool {
		switch l := m.(type) {
		case *ast.RangeStmt:
			f(l.Body, l)
		case *ast.ForStmt:
			f(l.Body, l)
		}
		return true
	})
}

// cxReturnsError: the block is a single `return …, <non-nil error expr>`.
func cxReturnsError(b *ast.BlockStmt) bool {
	if b == nil || len(b.List) != 1 {
		return false
	}
	rs, ok := b.List[0].(*ast.ReturnStmt)
	if !ok || len(rs.Results) == 0 {
		return false
	}
	return Src(rs.Results[len(rs.Results)-1]) != "nil"
}

func cxMentions(n ast.Node, ident string) bool {
	found := false
	Walk(n, func(m ast.Node) bool {
		if id, ok := m.(*ast.Ident); ok && id.Name == ident {
			found = true
		}
		return !found
	})
	return found
}
