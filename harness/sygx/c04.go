package main

import "go/ast"

// C04: the eight confirmation guards, located by SHAPE and translated from `*big.Int` expressions to Lean `Int`
// functions (see util_c04.go). Each generated definition is an `Option`: `none` = the guard was not located in a
// shape the translator understands (T-tie unavailable for it; the correspondence ops carry the property alone).
const corePath = "/root/go/pkg/mod/github.com/sygmaprotocol/sygma-core@v0.0.0-20241028121638-2c5597ae589f/"

func init() {
	extractors["C04"] = func(o *Out) {
		emit := func(name, ty, lam string, file *ast.File, fd *ast.FuncDecl, roles map[string]string) {
			s, src, ok := rejectCond(file, fd, guardSpec{roles: roles})
			if src != "" {
				o.Facts[name+"_go"] = src
			}
			o.Facts[name+"_translated"] = ok
			if !ok {
				o.Unavailable(name, "the confirmation guard was not located in a shape the translator understands")
			}
			o.Lean.WriteString("def " + name + " : Option (" + ty + ") := " + LeanOpt(ok, "fun "+lam+" => "+s) + "\n")
		}
		i3, i4, i2 := "Int → Int → Int → Bool", "Int → Int → Int → Int → Bool", "Int → Int → Bool"
		// 1. BTC scan loop: sleep condition
		f := o.ParseFile("chains/btc/listener/listener.go")
		emit("btcScanSleep", i3, "head start conf", f, findMethod(f, "BtcListener", "ListenToEvents"),
			map[string]string{"head": "head", "param": "start", "conf": "conf"})
		// 2. EVM retry by tx hash: error condition (the confirmations are a parameter there)
		f = o.ParseFile("chains/evm/calls/events/listener.go")
		emit("evmRetryTxReject", i3, "latest receipt conf", f, findMethod(f, "Listener", "FetchRetryDepositEvents"),
			map[string]string{"head": "latest", "h": "receipt", "param": "conf"})
		// 3-5. retry-by-height message handlers: error condition
		f = o.ParseFile("chains/evm/executor/message-handler.go")
		emit("evmRetryMsgReject", i3, "latest h conf", f, findMethod(f, "RetryMessageHandler", "HandleMessage"),
			map[string]string{"head": "latest", "h": "h", "conf": "conf"})
		f = o.ParseFile("chains/btc/executor/message-handler.go")
		emit("btcRetryMsgReject", i3, "latest h conf", f, findMethod(f, "RetryMessageHandler", "HandleMessage"),
			map[string]string{"head": "latest", "h": "h", "conf": "conf"})
		f = o.ParseFile("chains/substrate/executor/message-handler.go")
		emit("subRetryMsgReject", i2, "fin h", f, findMethod(f, "RetryMessageHandler", "HandleMessage"),
			map[string]string{"fin": "fin", "h": "h"})
		// 6. Substrate retry event: skip condition
		f = o.ParseFile("chains/substrate/listener/event-handlers.go")
		emit("subRetryEventSkip", i2, "fin h", f, findMethod(f, "RetryEventHandler", "HandleEvents"),
			map[string]string{"fin": "fin", "h": "h"})
		// 7-8. sygma-core listeners (pinned module version): sleep conditions
		f = o.ParseFile(corePath + "chains/evm/listener/listener.go")
		emit("evmScanSleep", i4, "head start k conf", f, findMethod(f, "EVMListener", "ListenToEvents"),
			map[string]string{"head": "head", "param": "start", "k": "k", "conf": "conf"})
		f = o.ParseFile(corePath + "chains/substrate/listener/listener.go")
		emit("subScanSleep", i3, "fin start k", f, findMethod(f, "SubstrateListener", "ListenToEvents"),
			map[string]string{"fin": "fin", "param": "start", "k": "k"})
	}
}
