package main

import (
	"go/ast"
	"go/token"
	"strings"
)

// C04: the eight confirmation guards, translated from `*big.Int` expressions to Lean `Int` terms.
//   x.Cmp(y) == -1  ↦ decide (x < y)      x.Cmp(y) != 1 ↦ decide (¬ x > y)   …
//   new(big.Int).Sub(a, b) / z.Add(a, b)  ↦ (a - b) / (a + b)     big.NewInt(v) ↦ v    int64(v), v.Int64() ↦ v
// A guard that cannot be found or translated yields `false` and sets its `…Ok` flag to false, so the obligation fails.

const corePath = "/root/go/pkg/mod/github.com/sygmaprotocol/sygma-core@v0.0.0-20241028121638-2c5597ae589f/"

func bigTerm(e ast.Expr, names map[string]string) (string, bool) {
	if v, ok := names[Src(e)]; ok {
		return v, true
	}
	switch x := e.(type) {
	case *ast.ParenExpr:
		return bigTerm(x.X, names)
	case *ast.BasicLit:
		if x.Kind == token.INT {
			return x.Value, true
		}
	case *ast.CallExpr:
		fun := Src(x.Fun)
		if fun == "big.NewInt" || fun == "int64" || fun == "uint64" {
			if len(x.Args) == 1 {
				return bigTerm(x.Args[0], names)
			}
		}
		if sel, ok := x.Fun.(*ast.SelectorExpr); ok {
			switch sel.Sel.Name {
			case "Add", "Sub":
				if len(x.Args) == 2 {
					a, ok1 := bigTerm(x.Args[0], names)
					b, ok2 := bigTerm(x.Args[1], names)
					op := map[string]string{"Add": "+", "Sub": "-"}[sel.Sel.Name]
					return "(" + a + " " + op + " " + b + ")", ok1 && ok2
				}
			case "Int64", "Uint64":
				if len(x.Args) == 0 {
					return bigTerm(sel.X, names)
				}
			}
		}
	}
	return "0", false
}

// bigCond translates `x.Cmp(y) <op> <-1|0|1>`.
func bigCond(e ast.Expr, names map[string]string) (string, bool) {
	if p, ok := e.(*ast.ParenExpr); ok {
		return bigCond(p.X, names)
	}
	b, ok := e.(*ast.BinaryExpr)
	if !ok || (b.Op != token.EQL && b.Op != token.NEQ) {
		return "false", false
	}
	call, ok := b.X.(*ast.CallExpr)
	if !ok {
		return "false", false
	}
	sel, ok := call.Fun.(*ast.SelectorExpr)
	if !ok || sel.Sel.Name != "Cmp" || len(call.Args) != 1 {
		return "false", false
	}
	x, ok1 := bigTerm(sel.X, names)
	y, ok2 := bigTerm(call.Args[0], names)
	rel := map[string]string{"-1": "<", "1": ">", "0": "="}[strings.ReplaceAll(Src(b.Y), " ", "")]
	if rel == "" {
		return "false", false
	}
	s := "(" + x + " " + rel + " " + y + ")"
	if b.Op == token.NEQ {
		s = "(¬ " + s + ")"
	}
	return "decide " + s, ok1 && ok2
}

// findGuard returns the condition of the first `if` in fd whose source contains `marker`.
func findGuard(fd *ast.FuncDecl, marker string) ast.Expr {
	var res ast.Expr
	if fd == nil {
		return nil
	}
	Walk(fd.Body, func(n ast.Node) bool {
		if s, ok := n.(*ast.IfStmt); ok && res == nil && strings.Contains(Src(s.Cond), marker) {
			res = s.Cond
		}
		return true
	})
	return res
}

// hasStmt reports whether fd contains an expression statement printing exactly as `src`.
func hasStmt(fd *ast.FuncDecl, src string) bool {
	found := false
	if fd == nil {
		return false
	}
	Walk(fd.Body, func(n ast.Node) bool {
		if s, ok := n.(*ast.ExprStmt); ok && Src(s) == src {
			found = true
		}
		return true
	})
	return found
}

func init() {
	extractors["C04"] = func(o *Out) {
		allOk := true
		emit := func(name, params string, cond ast.Expr, names map[string]string, pre bool) {
			s, ok := "false", false
			if cond != nil && pre {
				s, ok = bigCond(cond, names)
				o.Facts[name+"_go"] = Src(cond)
			}
			if !ok {
				s = "false"
				allOk = false
			}
			o.Facts[name+"_translated"] = ok
			o.Lean.WriteString("def " + name + " " + params + " : Bool := " + s + "\n")
		}
		// 1. BTC scan loop: sleep condition
		f := o.ParseFile("chains/btc/listener/listener.go")
		emit("btcScanSleep", "(head start conf : Int)", findGuard(FindFunc(f, "BtcListener", "ListenToEvents"), ".Cmp(l.blockConfirmations)"),
			map[string]string{"head": "head", "startBlock": "start", "l.blockConfirmations": "conf"}, true)
		// 2. EVM retry by tx hash: error condition
		f = o.ParseFile("chains/evm/calls/events/listener.go")
		emit("evmRetryTxReject", "(latest receipt conf : Int)", findGuard(FindFunc(f, "Listener", "FetchRetryDepositEvents"), "latestBlock.Cmp("),
			map[string]string{"latestBlock": "latest", "receipt.BlockNumber": "receipt", "blockConfirmations": "conf"}, true)
		// 3-5. retry-by-height message handlers: error condition
		f = o.ParseFile("chains/evm/executor/message-handler.go")
		emit("evmRetryMsgReject", "(latest h conf : Int)", findGuard(FindFunc(f, "RetryMessageHandler", "HandleMessage"), "latestBlock.Cmp("),
			map[string]string{"latestBlock": "latest", "retryData.BlockHeight": "h", "h.blockConfirmations": "conf"}, true)
		f = o.ParseFile("chains/btc/executor/message-handler.go")
		emit("btcRetryMsgReject", "(latest h conf : Int)", findGuard(FindFunc(f, "RetryMessageHandler", "HandleMessage"), "latestBlock.Cmp("),
			map[string]string{"latestBlock": "latest", "retryData.BlockHeight": "h", "h.blockConfirmations": "conf"}, true)
		f = o.ParseFile("chains/substrate/executor/message-handler.go")
		emit("subRetryMsgReject", "(fin h : Int)", findGuard(FindFunc(f, "RetryMessageHandler", "HandleMessage"), "latestBlock.Cmp("),
			map[string]string{"latestBlock": "fin", "retryData.BlockHeight": "h"}, true)
		// 6. Substrate retry event: skip condition
		f = o.ParseFile("chains/substrate/listener/event-handlers.go")
		emit("subRetryEventSkip", "(fin h : Int)", findGuard(FindFunc(f, "RetryEventHandler", "HandleEvents"), ".Cmp(er.DepositOnBlockHeight.Int)"),
			map[string]string{"finalizedBlockNumber": "fin", "er.DepositOnBlockHeight.Int": "h"}, true)
		// 7-8. sygma-core listeners (pinned module version): sleep conditions; endBlock = startBlock + blockInterval
		f = o.ParseFile(corePath + "chains/evm/listener/listener.go")
		fd := FindFunc(f, "EVMListener", "ListenToEvents")
		emit("evmScanSleep", "(head start k conf : Int)", findGuard(fd, ".Cmp(l.blockConfirmations)"),
			map[string]string{"head": "head", "endBlock": "(start + k)", "l.blockConfirmations": "conf"},
			hasStmt(fd, "endBlock.Add(startBlock, l.blockInterval)"))
		f = o.ParseFile(corePath + "chains/substrate/listener/listener.go")
		fd = FindFunc(f, "SubstrateListener", "ListenToEvents")
		emit("subScanSleep", "(fin start k : Int)", findGuard(fd, ".Cmp(endBlock)"),
			map[string]string{"head.Block.Header.Number": "fin", "endBlock": "(start + k)"},
			hasStmt(fd, "endBlock.Add(startBlock, l.blockInterval)"))
		if allOk {
			o.Lean.WriteString("\ndef allTranslated : Bool := true\n")
		} else {
			o.Lean.WriteString("\ndef allTranslated : Bool := false\n")
		}
	}
}
