package main

import (
	"go/ast"
	"go/token"
	"strings"
)

// C14: from chains/evm/executor/executor.go
//   - the roll-over condition of proposalBatches, translated to a Lean Bool over (n gas g cap : Nat)
//   - the relative order of: roll-over test, `gasLimit += propGasLimit`, `append(currentBatch.proposals, …)`
//   - the session-id format string and whether the index it uses is a per-iteration copy
func init() {
	extractors["C14"] = func(o *Out) {
		f := o.ParseFile("chains/evm/executor/executor.go")
		fd := FindFunc(f, "Executor", "proposalBatches")
		cond, condOK := "false", false
		order := []string{}
		if fd != nil {
			Walk(fd.Body, func(n ast.Node) bool {
				rs, ok := n.(*ast.RangeStmt)
				if !ok {
					return true
				}
				for _, st := range rs.Body.List {
					switch s := st.(type) {
					case *ast.IfStmt:
						// the `if` whose body re-assigns currentBatch
						reassigns := false
						Walk(s.Body, func(m ast.Node) bool {
							if a, ok := m.(*ast.AssignStmt); ok && len(a.Lhs) == 1 && Src(a.Lhs[0]) == "currentBatch" {
								reassigns = true
							}
							return true
						})
						if reassigns {
							cond, condOK = LeanExpr(s.Cond, map[string]string{
								"len(currentBatch.proposals)": "n", "currentBatch.gasLimit": "gas", "propGasLimit": "g",
								"e.transactionMaxGas": "cap"})
							o.Facts["rollover_cond_go"] = Src(s.Cond)
							order = append(order, "rollover")
						}
					case *ast.AssignStmt:
						if s.Tok == token.ADD_ASSIGN && Src(s.Lhs[0]) == "currentBatch.gasLimit" {
							order = append(order, "gas-add")
						}
						if s.Tok == token.ASSIGN && Src(s.Lhs[0]) == "currentBatch.proposals" && strings.HasPrefix(Src(s.Rhs[0]), "append(") {
							order = append(order, "append")
						}
					}
				}
				return false
			})
		}
		o.Facts["rollover_translated"] = condOK
		o.Facts["order"] = order
		o.Lean.WriteString("/-- roll-over test of `proposalBatches` (n = len(currentBatch.proposals), uint64 sums not yet reduced) -/\n")
		o.Lean.WriteString("def rollover (n gas g cap : Nat) : Bool := " + cond + "\n\n")
		o.Lean.WriteString("/-- order of the three statements of the loop body -/\n")
		o.Lean.WriteString("def order : List String := " + LeanStrList(order) + "\n\n")

		// session id: fmt.Sprintf(<fmt>, messageID, i) inside Execute; is `i` re-declared inside the loop body?
		ex := FindFunc(f, "Executor", "Execute")
		sfmt, copied := "", false
		if ex != nil {
			Walk(ex.Body, func(n ast.Node) bool {
				if rs, ok := n.(*ast.RangeStmt); ok && Src(rs.Key) == "i" {
					for _, st := range rs.Body.List {
						if a, ok := st.(*ast.AssignStmt); ok && a.Tok == token.DEFINE && Src(a.Lhs[0]) == "i" && Src(a.Rhs[0]) == "i" {
							copied = true
						}
					}
				}
				if as, ok := n.(*ast.AssignStmt); ok && len(as.Lhs) == 1 && Src(as.Lhs[0]) == "sessionID" {
					if c, ok := as.Rhs[0].(*ast.CallExpr); ok && Src(c.Fun) == "fmt.Sprintf" && len(c.Args) == 3 {
						sfmt = strings.Trim(Src(c.Args[0]), "\"")
						o.Facts["session_args"] = Src(c.Args[1]) + "," + Src(c.Args[2])
					}
				}
				return true
			})
		}
		o.Facts["session_fmt"] = sfmt
		o.Facts["session_index_copied_per_iteration"] = copied
		o.Lean.WriteString("def sessionFmt : String := " + LeanStr(sfmt) + "\n")
		if copied {
			o.Lean.WriteString("def sessionIndexCopied : Bool := true\n")
		} else {
			o.Lean.WriteString("def sessionIndexCopied : Bool := false\n")
		}
	}
}
