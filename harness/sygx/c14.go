package main

import (
	"go/ast"
	"go/token"
	"os"
	"path/filepath"
	"regexp"
	"strconv"
	"strings"
)

// C14: from chains/evm/executor/executor.go
//   - the roll-over condition of proposalBatches, translated to a Lean Bool over (n gas g cap : Nat)
//   - the relative order of: roll-over test, gas addition, append of the proposal
//   - the session-id format string and whether the index it uses is a per-iteration copy
//
// Anchors are found by SHAPE, not by the names of locals (a rename of currentBatch / propGasLimit / i / the
// receiver is a harmless refactor): the "current batch" is whatever variable X has a top-level statement
// `X.gasLimit += Y` (or `X.gasLimit = X.gasLimit + Y`) in the range body; the roll-over test is the top-level
// `if` whose body re-assigns X; the append is `X.proposals = append(X.proposals, …)`.
func init() {
	extractors["C14"] = func(o *Out) {
		f := o.ParseFile("chains/evm/executor/executor.go")
		fd := FindFunc(f, "Executor", "proposalBatches")
		if fd == nil && f != nil { // renamed: the method of Executor that returns ([]*Batch, error)
			for _, d := range f.Decls {
				if m, ok := d.(*ast.FuncDecl); ok && m.Recv != nil && m.Type.Results != nil && Src(m.Type.Results) == "([]*Batch, error)" &&
					strings.HasSuffix(Src(m.Recv.List[0].Type), "Executor") {
					fd = m
				}
			}
		}
		cond, condOK := "false", false
		order := []string{}
		recv := "e"
		if fd != nil && fd.Recv != nil && len(fd.Recv.List) == 1 && len(fd.Recv.List[0].Names) == 1 {
			recv = fd.Recv.List[0].Names[0].Name
		}
		// gasAdd reports whether st adds to <X>.gasLimit and returns X and the added expression
		gasAdd := func(st ast.Stmt) (string, ast.Expr, bool) {
			s, ok := st.(*ast.AssignStmt)
			if !ok || len(s.Lhs) != 1 || len(s.Rhs) != 1 {
				return "", nil, false
			}
			sel, ok := s.Lhs[0].(*ast.SelectorExpr)
			if !ok || sel.Sel.Name != "gasLimit" {
				return "", nil, false
			}
			x := Src(sel.X)
			if s.Tok == token.ADD_ASSIGN {
				return x, s.Rhs[0], true
			}
			if b, ok := s.Rhs[0].(*ast.BinaryExpr); ok && s.Tok == token.ASSIGN && b.Op == token.ADD {
				if Src(b.X) == Src(sel) {
					return x, b.Y, true
				}
				if Src(b.Y) == Src(sel) {
					return x, b.X, true
				}
			}
			return "", nil, false
		}
		if fd != nil {
			Walk(fd.Body, func(n ast.Node) bool {
				var body *ast.BlockStmt
				switch l := n.(type) {
				case *ast.RangeStmt:
					body = l.Body
				case *ast.ForStmt:
					body = l.Body
				default:
					return true
				}
				cb, gsrc := "", ""
				for _, st := range body.List {
					if x, y, ok := gasAdd(st); ok {
						cb, gsrc = x, Src(y)
					}
				}
				if cb == "" {
					return false
				}
				o.Facts["current_batch_var"] = cb
				for _, st := range body.List {
					if _, _, ok := gasAdd(st); ok {
						order = append(order, "gas-add")
						continue
					}
					switch s := st.(type) {
					case *ast.IfStmt:
						reassigns := false
						Walk(s.Body, func(m ast.Node) bool {
							if a, ok := m.(*ast.AssignStmt); ok && len(a.Lhs) == 1 && Src(a.Lhs[0]) == cb {
								reassigns = true
							}
							return true
						})
						if reassigns {
							cond, condOK = LeanExpr(s.Cond, map[string]string{
								"len(" + cb + ".proposals)": "n", cb + ".gasLimit": "gas", gsrc: "g",
								recv + ".transactionMaxGas": "cap"})
							o.Facts["rollover_cond_go"] = Src(s.Cond)
							order = append(order, "rollover")
						}
					case *ast.AssignStmt:
						if s.Tok == token.ASSIGN && len(s.Lhs) == 1 && Src(s.Lhs[0]) == cb+".proposals" && strings.HasPrefix(Src(s.Rhs[0]), "append("+cb+".proposals,") {
							order = append(order, "append")
						}
					}
				}
				return false
			})
		}
		o.Facts["rollover_translated"] = condOK
		o.Facts["order"] = order
		if !condOK {
			o.Unavailable("rollover", "the roll-over test of the batching loop was not located in a shape the translator understands")
		}
		orderOK := len(order) == 3
		if !orderOK {
			o.Unavailable("order", "roll-over test, gas addition and append are not three top-level statements of one loop body")
		}
		o.Lean.WriteString("/-- roll-over test of `proposalBatches` (n = len(currentBatch.proposals), uint64 sums not yet reduced) -/\n")
		o.Lean.WriteString("def rollover : Option (Nat → Nat → Nat → Nat → Bool) := " + LeanOpt(condOK, "fun n gas g cap => "+cond) + "\n\n")
		o.Lean.WriteString("/-- order of the three statements of the loop body -/\n")
		o.Lean.WriteString("def order : Option (List String) := " + LeanOpt(orderOK, LeanStrList(order)) + "\n\n")

		// session id: <v> := fmt.Sprintf(<fmt>, <message id>, <K>) inside the `for K, … := range` of Execute.
		// K is a per-iteration value if the body re-declares it (`K := K`) before the goroutines start, or if the
		// module's language version gives range variables per-iteration scope (go >= 1.22).
		ex := FindFunc(f, "Executor", "Execute")
		sfmt, copied := "", false
		perIter := goVersionAtLeast(1, 22)
		o.Facts["go_per_iteration_loopvar"] = perIter
		if ex != nil {
			Walk(ex.Body, func(n ast.Node) bool {
				rs, ok := n.(*ast.RangeStmt)
				if !ok || rs.Key == nil {
					return true
				}
				k := Src(rs.Key)
				found := false
				Walk(rs.Body, func(m ast.Node) bool {
					if c, ok := m.(*ast.CallExpr); ok && Src(c.Fun) == "fmt.Sprintf" && len(c.Args) == 3 && Src(c.Args[2]) == k {
						if lit, ok := c.Args[0].(*ast.BasicLit); ok && lit.Kind == token.STRING {
							if s, err := strconv.Unquote(lit.Value); err == nil && !found {
								sfmt, found = s, true
								o.Facts["session_args"] = Src(c.Args[1]) + "," + Src(c.Args[2])
							}
						}
					}
					return true
				})
				if found {
					for _, st := range rs.Body.List {
						if a, ok := st.(*ast.AssignStmt); ok && a.Tok == token.DEFINE && len(a.Lhs) == 1 && Src(a.Lhs[0]) == k && Src(a.Rhs[0]) == k {
							copied = true
						}
					}
				}
				return !found
			})
		}
		o.Facts["session_fmt"] = sfmt
		o.Facts["session_index_copied_per_iteration"] = copied
		sessOK := sfmt != ""
		if !sessOK {
			o.Unavailable("session", "no fmt.Sprintf(<literal>, <message id>, <range index>) found inside a range loop of Execute")
		}
		o.Lean.WriteString("/-- (format string, index is a per-iteration value) of the session id built in `Execute` -/\n")
		b := "false"
		if copied || perIter {
			b = "true"
		}
		o.Lean.WriteString("def session : Option (String × Bool) := " + LeanOpt(sessOK, LeanStr(sfmt)+", "+b) + "\n")
	}
}

// goVersionAtLeast reads the `go X.Y` directive of the repository's go.mod.
func goVersionAtLeast(maj, min int) bool {
	b, err := os.ReadFile(filepath.Join(repoRoot(), "go.mod"))
	if err != nil {
		return false
	}
	m := regexp.MustCompile(`(?m)^go (\d+)\.(\d+)`).FindStringSubmatch(string(b))
	if m == nil {
		return false
	}
	a, _ := strconv.Atoi(m[1])
	c, _ := strconv.Atoi(m[2])
	return a > maj || (a == maj && c >= min)
}
