package main

import (
	"go/ast"
	"go/token"
	"strings"
)

// C16: facts from chains/btc/executor/executor.go, message-handler.go and chains/btc/mempool/mempool.go, located by SHAPE
// (names of locals, parameters, receivers and extracted helpers are derived from the statements):
//   feeFormula   the value `fee` returns, as a function of (inputs, outputs, rate); locals inlined, constants resolved
//   refuse       the tests of rawTx on the selected input amount that refuse a transaction, uint64 wrap-around kept
//   changeAmount what is left for the change output, uint64 wrap-around kept
//   changeCond   when a change output is appended
//   feeCalls     the arguments of the estimate and of the final fee quote, over (#proposals, #selected UTXOs)
//   stopCond     when the input selection loop stops
//   supplyCap    the test of `outputs` that refuses amounts beyond the supply, and that it follows the addition
//   handlerChecksUint64   the message handler returns an error before `.Uint64()` can truncate
//   comparator   the `less` function the UTXO service's listing is sorted with, as a function of two UTXOs
func init() {
	extractors["C16"] = func(o *Out) {
		f := o.ParseFile("chains/btc/executor/executor.go")
		consts := cxConsts(f)
		consts["btcutil.MaxSatoshi"] = "2100000000000000"

		// ---- fee
		feeFn := cxFindMethod(f, "Executor", "fee", "(uint64, uint64)", "(uint64, error)")
		feeT, feeOK := "0", false
		if feeFn != nil {
			cx := &CX{Names: map[string]string{cxParam(feeFn, 0): "nin", cxParam(feeFn, 1): "nout"}, Consts: consts, Locals: cxLocals(feeFn.Body)}
			// the rate: `<x>.EconomyFee` for whatever x holds the service's answer
			Walk(feeFn.Body, func(n ast.Node) bool {
				if s, ok := n.(*ast.SelectorExpr); ok && s.Sel.Name == "EconomyFee" {
					cx.Names[Src(s)] = "rate"
				}
				return true
			})
			for _, st := range feeFn.Body.List {
				if rs, ok := st.(*ast.ReturnStmt); ok && len(rs.Results) == 2 && Src(rs.Results[1]) == "nil" {
					feeT, feeOK = cx.Nat(rs.Results[0])
					o.Facts["fee_go"] = Src(rs.Results[0])
				}
			}
		}
		if !feeOK {
			o.Unavailable("feeFormula", "the successful return of `fee` was not located or uses something the translator does not understand")
		}
		o.Lean.WriteString("/-- the value `fee` returns (constants substituted, locals inlined; uint64 reduction not applied) -/\n")
		o.Lean.WriteString("def feeFormula : Option (Nat → Nat → Nat → Nat) := " + LeanOpt(feeOK, "fun nin nout rate => "+feeT) + "\n\n")

		// ---- rawTx: names from the three calls
		raw := cxFindMethod(f, "Executor", "rawTx", "([]*BtcTransferProposal, config.Resource)", "(*wire.MsgTx, []mempool.Utxo, error)")
		inFn := cxFindMethod(f, "Executor", "inputs", "(*wire.MsgTx, btcutil.Address, uint64)", "(uint64, []mempool.Utxo, error)")
		outFn := cxFindMethod(f, "Executor", "outputs", "(*wire.MsgTx, []*BtcTransferProposal)", "(uint64, error)")
		name := func(fd *ast.FuncDecl) string {
			if fd == nil {
				return "\x00"
			}
			return fd.Name.Name
		}
		inAmt, utx, outAmt, feeVar, retVar := "", "", "", "", ""
		var retExpr ast.Expr
		feeArgs := [][]ast.Expr{}
		propsP := cxParam(raw, 0)
		if raw != nil {
			for _, st := range raw.Body.List {
				a, ok := st.(*ast.AssignStmt)
				if !ok || len(a.Rhs) != 1 {
					continue
				}
				if c, ok := a.Rhs[0].(*ast.CallExpr); ok {
					if s, ok := c.Fun.(*ast.SelectorExpr); ok && Src(s.X) == cxRecv(raw) {
						switch s.Sel.Name {
						case name(inFn):
							if len(a.Lhs) == 3 {
								inAmt, utx = Src(a.Lhs[0]), Src(a.Lhs[1])
							}
						case name(outFn):
							if len(a.Lhs) == 2 {
								outAmt = Src(a.Lhs[0])
							}
						case name(feeFn):
							if len(a.Lhs) == 2 && len(c.Args) == 2 {
								feeVar = Src(a.Lhs[0]) // the last one is the final quote
								feeArgs = append(feeArgs, c.Args)
							}
						}
					}
					continue
				}
				// the change amount: `<r> := <expr over inAmt, feeVar, outAmt with ->`
				if a.Tok == token.DEFINE && len(a.Lhs) == 1 && inAmt != "" && feeVar != "" && outAmt != "" &&
					cxMentions(a.Rhs[0], inAmt) && cxMentions(a.Rhs[0], feeVar) && cxMentions(a.Rhs[0], outAmt) {
					retVar, retExpr = Src(a.Lhs[0]), a.Rhs[0]
				}
			}
		}
		namesOK := inAmt != "" && outAmt != "" && feeVar != ""
		gx := &CX{Names: map[string]string{inAmt: "inAmt", outAmt: "outAmt", feeVar: "fee"}, Consts: consts, Wrap: true}
		guards := []string{}
		refuseOK := raw != nil && namesOK
		if refuseOK {
			for _, st := range raw.Body.List {
				is, ok := st.(*ast.IfStmt)
				if !ok || is.Else != nil || !cxReturnsError(is.Body) || !cxMentions(is.Cond, inAmt) {
					continue
				}
				t, ok := gx.Bool(is.Cond)
				if !ok {
					refuseOK = false
				}
				guards = append(guards, t)
			}
		}
		if !refuseOK {
			o.Unavailable("refuse", "rawTx's calls of inputs/outputs/fee or its error returns on the input amount were not located in a shape the translator understands")
		}
		o.Facts["guards"] = guards
		o.Lean.WriteString("/-- does rawTx refuse (uint64 arithmetic; arguments < 2^64): the disjunction of its error returns on the input amount -/\n")
		o.Lean.WriteString("def refuse : Option (Nat → Nat → Nat → Bool) := " + LeanOpt(refuseOK, "fun inAmt outAmt fee => "+strings.Join(append(guards, "false"), " || ")) + "\n\n")

		retT, retOK := "0", false
		if retExpr != nil {
			retT, retOK = gx.Nat(retExpr)
		}
		if !retOK {
			o.Unavailable("changeAmount", "the assignment computing what is left after outputs and fee was not located")
		}
		o.Lean.WriteString("/-- what is left for the change output (uint64 arithmetic; arguments < 2^64) -/\n")
		o.Lean.WriteString("def changeAmount : Option (Nat → Nat → Nat → Nat) := " + LeanOpt(retOK, "fun inAmt outAmt fee => "+retT) + "\n\n")

		// change output: `if C(r) { … uses r / AddTxOut … }`  or  `if C(r) { return tx, … nil }` followed by the unconditional append
		chT, chOK := "false", false
		if raw != nil && retVar != "" {
			cx := &CX{Names: map[string]string{retVar: "ret"}, Consts: consts}
			for i, st := range raw.Body.List {
				is, ok := st.(*ast.IfStmt)
				if !ok || is.Else != nil || !cxMentions(is.Cond, retVar) {
					continue
				}
				t, ok := cx.Bool(is.Cond)
				if !ok {
					continue
				}
				appends := func(n ast.Node) bool {
					s := Src(n)
					return strings.Contains(s, "AddTxOut") || cxMentions(n, retVar)
				}
				last := is.Body.List[len(is.Body.List)-1]
				if rs, ok := last.(*ast.ReturnStmt); ok && len(is.Body.List) == 1 && len(rs.Results) == 3 && Src(rs.Results[2]) == "nil" {
					// early success return: the rest of the function appends
					rest := &ast.BlockStmt{List: raw.Body.List[i+1:]}
					if appends(rest) {
						chT, chOK = "(!"+t+")", true
					}
				} else if appends(is.Body) {
					chT, chOK = t, true
				}
			}
		}
		if !chOK {
			o.Unavailable("changeCond", "the test deciding whether a change output is appended was not located")
		}
		o.Lean.WriteString("/-- a change output is appended when … -/\n")
		o.Lean.WriteString("def changeCond : Option (Nat → Bool) := " + LeanOpt(chOK, "fun ret => "+chT) + "\n\n")

		// the two fee calls
		fcOK := len(feeArgs) == 2 && propsP != "" && utx != ""
		fcT := ""
		if fcOK {
			cx := &CX{Names: map[string]string{"len(" + propsP + ")": "np", "len(" + utx + ")": "nu"}, Consts: consts}
			ts := []string{}
			for _, args := range feeArgs {
				for _, a := range args {
					t, ok := cx.Nat(a)
					fcOK = fcOK && ok
					ts = append(ts, t)
				}
			}
			fcT = "(" + ts[0] + ", " + ts[1] + ", " + ts[2] + ", " + ts[3] + ")"
		}
		if !fcOK {
			o.Unavailable("feeCalls", "rawTx does not call fee exactly twice with arguments over len(proposals) / len(selected utxos)")
		}
		o.Lean.WriteString("/-- (estimate inputs, estimate outputs, final inputs, final outputs) over np = #proposals, nu = #selected UTXOs -/\n")
		o.Lean.WriteString("def feeCalls : Option (Nat → Nat → Nat × Nat × Nat × Nat) := " + LeanOpt(fcOK, "fun np nu => "+fcT) + "\n\n")

		// ---- inputs: the loop's exit test
		brk, brkOK := "false", false
		if inFn != nil {
			target := cxParam(inFn, 2)
			cxLoops(inFn.Body, func(body *ast.BlockStmt, _ ast.Stmt) {
				acc := ""
				for _, st := range body.List {
					if x, y, ok := cxAddTo(st); ok && strings.Contains(Src(y), ".Value") {
						acc = x
					}
				}
				if acc == "" {
					return
				}
				cx := &CX{Names: map[string]string{acc: "acc", target: "target"}, Consts: consts}
				for _, st := range body.List {
					if is, ok := st.(*ast.IfStmt); ok && is.Else == nil && len(is.Body.List) == 1 {
						if b, ok := is.Body.List[0].(*ast.BranchStmt); ok && b.Tok == token.BREAK {
							brk, brkOK = cx.Bool(is.Cond)
						}
					}
				}
			})
		}
		if !brkOK {
			o.Unavailable("stopCond", "the `if … { break }` of the input selection loop was not located")
		}
		o.Lean.WriteString("/-- the loop-exit test of `inputs` (acc = running total after adding the UTXO) -/\n")
		o.Lean.WriteString("def stopCond : Option (Nat → Nat → Bool) := " + LeanOpt(brkOK, "fun acc target => "+brk) + "\n\n")

		// ---- outputs: the supply cap, after the addition
		capT, capOK, capAfter := "false", false, false
		if outFn != nil {
			cxLoops(outFn.Body, func(body *ast.BlockStmt, loop ast.Stmt) {
				total, amt := "", ""
				for _, st := range body.List {
					if x, y, ok := cxAddTo(st); ok && strings.HasSuffix(Src(y), ".Data.Amount") {
						total, amt = x, Src(y)
					}
				}
				if total == "" {
					return
				}
				cx := &CX{Names: map[string]string{total: "total", amt: "amt", "btcutil.MaxSatoshi": "2100000000000000"}, Consts: consts}
				added := false
				for _, st := range body.List {
					if _, _, ok := cxAddTo(st); ok {
						added = true
					}
					if is, ok := st.(*ast.IfStmt); ok && is.Else == nil && cxReturnsError(is.Body) && (cxMentions(is.Cond, total) || strings.Contains(Src(is.Cond), amt)) {
						if t, ok := cx.Bool(is.Cond); ok {
							capT, capOK, capAfter = t, true, added
						}
					}
				}
			})
		}
		if !capOK {
			o.Unavailable("supplyCap", "the test of `outputs` on the proposal amount / running total was not located")
		}
		after := "false"
		if capAfter {
			after = "true"
		}
		o.Lean.WriteString("/-- (refuses when …, tested after the amount was added to the total) -/\n")
		o.Lean.WriteString("def supplyCap : Option ((Nat → Nat → Bool) × Bool) := " + LeanOpt(capOK, "fun amt total => "+capT+", "+after) + "\n\n")

		// ---- message handler: `if !X.IsUint64() { return nil, <error> }`
		mh := o.ParseFile("chains/btc/executor/message-handler.go")
		fits, located := false, false
		if fd := FindFunc(mh, "", "ERC20MessageHandler"); fd != nil {
			Walk(fd.Body, func(n ast.Node) bool {
				if c, ok := n.(*ast.CallExpr); ok {
					if s, ok := c.Fun.(*ast.SelectorExpr); ok && s.Sel.Name == "Uint64" {
						located = true
					}
				}
				if is, ok := n.(*ast.IfStmt); ok && cxReturnsError(is.Body) {
					if u, ok := is.Cond.(*ast.UnaryExpr); ok && u.Op == token.NOT && strings.HasSuffix(Src(u.X), ".IsUint64()") {
						fits = true
					}
				}
				return true
			})
		}
		if !located {
			o.Unavailable("handlerChecksUint64", "ERC20MessageHandler's conversion to uint64 was not located")
		}
		fitsT := "false"
		if fits {
			fitsT = "true"
		}
		o.Lean.WriteString("/-- the handler returns an error when the amount is no uint64, before converting it -/\n")
		o.Lean.WriteString("def handlerChecksUint64 : Option Bool := " + LeanOpt(located, fitsT) + "\n\n")

		// ---- the comparator of the UTXO listing: the one sort.Slice of mempool.go, reached from Utxos directly or through
		//      one same-file helper
		m := o.ParseFile("chains/btc/mempool/mempool.go")
		var sortCall *ast.CallExpr
		var sortIn *ast.FuncDecl
		nSort := 0
		if m != nil {
			for _, d := range m.Decls {
				fd, ok := d.(*ast.FuncDecl)
				if !ok || fd.Body == nil {
					continue
				}
				Walk(fd.Body, func(n ast.Node) bool {
					if c, ok := n.(*ast.CallExpr); ok && (Src(c.Fun) == "sort.Slice" || Src(c.Fun) == "sort.SliceStable") && len(c.Args) == 2 {
						sortCall, sortIn = c, fd
						nSort++
					}
					return true
				})
			}
		}
		utxosFn := FindFunc(m, "MempoolAPI", "Utxos")
		reached := false
		if nSort == 1 && utxosFn != nil {
			reached = sortIn == utxosFn
			if !reached && sortIn.Recv == nil {
				Walk(utxosFn.Body, func(n ast.Node) bool {
					if c, ok := n.(*ast.CallExpr); ok && Src(c.Fun) == sortIn.Name.Name {
						reached = true
					}
					return true
				})
			}
		}
		cmpT, cmpOK := "false", false
		if reached {
			if fl, ok := sortCall.Args[1].(*ast.FuncLit); ok && fl.Type.Params != nil {
				ps := []string{}
				for _, p := range fl.Type.Params.List {
					for _, n := range p.Names {
						ps = append(ps, n.Name)
					}
				}
				if len(ps) == 2 {
					cmpT, cmpOK = c16Less(fl.Body.List, Src(sortCall.Args[0]), ps[0], ps[1])
				}
			}
		}
		if !cmpOK {
			o.Unavailable("comparator", "the sort of the UTXO listing (one sort.Slice reached from Utxos) or its less function was not located in a shape the translator understands")
		}
		o.Lean.WriteString("/-- the `less` function of the listing's sort, over the fields of two UTXOs (lt = Go's `<` on strings) -/\n")
		o.Lean.WriteString("def comparator : Option ((List Nat → List Nat → Bool) → Nat → List Nat → Nat → Bool → Nat → List Nat → Nat → Bool → Bool) := " +
			LeanOpt(cmpOK, "fun lt abt atx av ac bbt btx bv bc => "+cmpT) + "\n")
	}
}

// c16Less translates the body of a `func(i, j int) bool` over slice S into a Lean Bool term over the fields of the two
// elements: nested if / else / return.
func c16Less(stmts []ast.Stmt, S, i, j string) (string, bool) {
	// optional leading `x, y := S[i], S[j]` (aliases of the two elements)
	alias := map[string]string{}
	if len(stmts) > 0 {
		if a, ok := stmts[0].(*ast.AssignStmt); ok && a.Tok == token.DEFINE && len(a.Lhs) == len(a.Rhs) {
			all := true
			for k := range a.Lhs {
				r := Src(a.Rhs[k])
				if r == S+"["+i+"]" || r == S+"["+j+"]" {
					alias[Src(a.Lhs[k])] = r
				} else {
					all = false
				}
			}
			if all {
				stmts = stmts[1:]
			} else {
				alias = map[string]string{}
			}
		}
	}
	field := func(e ast.Expr) (string, string, bool) { // (a|b, field)
		s := Src(e)
		for al, full := range alias {
			if strings.HasPrefix(s, al+".") {
				s = full + strings.TrimPrefix(s, al)
			}
		}
		for _, side := range [][2]string{{i, "a"}, {j, "b"}} {
			p := S + "[" + side[0] + "]."
			if strings.HasPrefix(s, p) {
				switch strings.TrimPrefix(s, p) {
				case "Status.BlockTime":
					return side[1], "bt", true
				case "TxID":
					return side[1], "tx", true
				case "Vout":
					return side[1], "v", true
				case "Status.Confirmed":
					return side[1], "c", true
				}
			}
		}
		return "", "", false
	}
	var expr func(e ast.Expr) (string, bool)
	expr = func(e ast.Expr) (string, bool) {
		switch x := e.(type) {
		case *ast.ParenExpr:
			return expr(x.X)
		case *ast.Ident:
			if x.Name == "true" || x.Name == "false" {
				return x.Name, true
			}
		case *ast.UnaryExpr:
			if x.Op == token.NOT {
				t, ok := expr(x.X)
				return "(!" + t + ")", ok
			}
		case *ast.SelectorExpr:
			if s, fl, ok := field(x); ok && fl == "c" {
				return s + "c", true
			}
		case *ast.BinaryExpr:
			if x.Op == token.LAND || x.Op == token.LOR {
				l, ok1 := expr(x.X)
				r, ok2 := expr(x.Y)
				op := "&&"
				if x.Op == token.LOR {
					op = "||"
				}
				return "(" + l + " " + op + " " + r + ")", ok1 && ok2
			}
			ls, lf, ok1 := field(x.X)
			rs, rf, ok2 := field(x.Y)
			if !ok1 || !ok2 || lf != rf || lf == "c" {
				return "false", false
			}
			l, r := ls+lf, rs+rf
			if lf == "tx" {
				switch x.Op {
				case token.LSS:
					return "lt " + l + " " + r, true
				case token.GTR:
					return "lt " + r + " " + l, true
				case token.EQL:
					return "(" + l + " == " + r + ")", true
				case token.NEQ:
					return "(!(" + l + " == " + r + "))", true
				case token.LEQ:
					return "(!(lt " + r + " " + l + "))", true
				case token.GEQ:
					return "(!(lt " + l + " " + r + "))", true
				}
				return "false", false
			}
			cmp := map[token.Token]string{token.LSS: "<", token.LEQ: "≤", token.GTR: ">", token.GEQ: "≥", token.EQL: "=", token.NEQ: "≠"}[x.Op]
			if cmp != "" {
				return "decide (" + l + " " + cmp + " " + r + ")", true
			}
		}
		return "false", false
	}
	var block func(sts []ast.Stmt) (string, bool)
	block = func(sts []ast.Stmt) (string, bool) {
		if len(sts) == 0 {
			return "false", false
		}
		switch s := sts[0].(type) {
		case *ast.ReturnStmt:
			if len(s.Results) == 1 {
				return expr(s.Results[0])
			}
		case *ast.IfStmt:
			if s.Init != nil {
				return "false", false
			}
			c, ok1 := expr(s.Cond)
			t, ok2 := block(s.Body.List)
			var e string
			var ok3 bool
			switch el := s.Else.(type) {
			case nil:
				e, ok3 = block(sts[1:])
			case *ast.BlockStmt:
				e, ok3 = block(el.List)
			case *ast.IfStmt:
				e, ok3 = block([]ast.Stmt{el})
			}
			return "(if " + c + " then " + t + " else " + e + ")", ok1 && ok2 && ok3
		}
		return "false", false
	}
	return block(stmts)
}
