package main

import (
	"go/ast"
	"go/token"
	"strings"
)

// C16: from chains/btc/executor/executor.go
//   - the fee formula of `fee` with the three size/rounding constants substituted, as a Lean Nat term
//   - the two guards of rawTx that refuse a transaction (as Lean Bools) and the condition for a change output
//   - the loop-exit test of `inputs`
// from chains/btc/mempool/mempool.go
//   - the ordered list of fields the UTXO comparator looks at
func init() {
	extractors["C16"] = func(o *Out) {
		f := o.ParseFile("chains/btc/executor/executor.go")
		// constants
		consts := map[string]string{}
		if f != nil {
			for _, d := range f.Decls {
				gd, ok := d.(*ast.GenDecl)
				if !ok || gd.Tok != token.VAR {
					continue
				}
				for _, sp := range gd.Specs {
					vs, ok := sp.(*ast.ValueSpec)
					if !ok {
						continue
					}
					for i, n := range vs.Names {
						if i < len(vs.Values) {
							if bl, ok := vs.Values[i].(*ast.BasicLit); ok && bl.Kind == token.INT {
								consts[n.Name] = bl.Value
							}
						}
					}
				}
			}
		}
		o.Facts["constants"] = consts
		names := map[string]string{"numOfInputs": "nin", "numOfOutputs": "nout", "recommendedFee.EconomyFee": "rate"}
		for _, c := range []string{"INPUT_SIZE", "OUTPUT_SIZE", "FEE_ROUNDING_FACTOR"} {
			if v, ok := consts[c]; ok {
				names[c] = v
			}
		}
		fee, feeOK := "0", false
		if fd := FindFunc(f, "Executor", "fee"); fd != nil {
			Walk(fd.Body, func(n ast.Node) bool {
				if rs, ok := n.(*ast.ReturnStmt); ok && len(rs.Results) == 2 && Src(rs.Results[1]) == "nil" {
					fee, feeOK = LeanExpr(rs.Results[0], names)
					o.Facts["fee_go"] = Src(rs.Results[0])
				}
				return true
			})
		}
		o.Facts["fee_translated"] = feeOK
		o.Lean.WriteString("/-- the return expression of `fee` (constants substituted; uint64 reduction not applied) -/\n")
		o.Lean.WriteString("def feeFormula (nin nout rate : Nat) : Nat := " + fee + "\n\n")

		// rawTx: every `if <cond> { return nil, nil, fmt.Errorf(...) }` over the amounts, and the change condition
		guards := []string{}
		change, changeOK := "false", false
		feeArgs := []string{}
		gnames := map[string]string{"inputAmount": "inAmt", "outputAmount": "outAmt", "fee": "fee", "returnAmount": "ret"}
		if fd := FindFunc(f, "Executor", "rawTx"); fd != nil {
			for _, st := range fd.Body.List {
				switch s := st.(type) {
				case *ast.IfStmt:
					src := Src(s.Cond)
					if strings.Contains(src, "inputAmount") {
						if t, ok := LeanExpr(s.Cond, gnames); ok {
							guards = append(guards, t)
						} else {
							guards = append(guards, "false /- untranslated: "+src+" -/")
						}
					}
					if strings.Contains(src, "returnAmount") {
						change, changeOK = LeanExpr(s.Cond, gnames)
						o.Facts["change_go"] = src
					}
				case *ast.AssignStmt:
					if len(s.Rhs) == 1 {
						if c, ok := s.Rhs[0].(*ast.CallExpr); ok && Src(c.Fun) == "e.fee" && len(c.Args) == 2 {
							feeArgs = append(feeArgs, Src(c.Args[0])+" | "+Src(c.Args[1]))
						}
					}
				}
			}
		}
		o.Facts["guards"] = guards
		o.Facts["fee_calls"] = feeArgs
		o.Facts["change_translated"] = changeOK
		o.Lean.WriteString("/-- the tests of `rawTx` on the selected input amount that refuse to build a transaction, in source order -/\n")
		o.Lean.WriteString("def refuse (inAmt outAmt fee : Nat) : List Bool := [" + strings.Join(guards, ", ") + "]\n\n")
		o.Lean.WriteString("/-- the condition under which a change output is appended -/\n")
		o.Lean.WriteString("def changeCond (ret : Nat) : Bool := " + change + "\n\n")
		o.Lean.WriteString("/-- arguments of the two `e.fee(…)` calls of rawTx (inputs | outputs) -/\n")
		o.Lean.WriteString("def feeCalls : List String := " + LeanStrList(feeArgs) + "\n\n")

		// inputs: the break condition
		brk, brkOK := "false", false
		if fd := FindFunc(f, "Executor", "inputs"); fd != nil {
			Walk(fd.Body, func(n ast.Node) bool {
				if is, ok := n.(*ast.IfStmt); ok && len(is.Body.List) == 1 {
					if b, ok := is.Body.List[0].(*ast.BranchStmt); ok && b.Tok == token.BREAK {
						brk, brkOK = LeanExpr(is.Cond, map[string]string{"inputAmount": "acc", "outputAmount": "target"})
						o.Facts["break_go"] = Src(is.Cond)
					}
				}
				return true
			})
		}
		o.Facts["break_translated"] = brkOK
		o.Lean.WriteString("/-- the loop-exit test of `inputs` (acc = running total after adding the UTXO) -/\n")
		o.Lean.WriteString("def stopCond (acc target : Nat) : Bool := " + brk + "\n\n")

		// outputs: the supply cap on a proposal amount / the running total, and that it is tested after the addition
		capc, capOK, capAfter := "false", false, false
		if fd := FindFunc(f, "Executor", "outputs"); fd != nil {
			Walk(fd.Body, func(n ast.Node) bool {
				rs, ok := n.(*ast.RangeStmt)
				if !ok {
					return true
				}
				added := false
				for _, st := range rs.Body.List {
					if as, ok := st.(*ast.AssignStmt); ok && as.Tok == token.ADD_ASSIGN && Src(as.Lhs[0]) == "outputAmount" {
						added = true
					}
					if is, ok := st.(*ast.IfStmt); ok && strings.Contains(Src(is.Cond), "MaxSatoshi") {
						capc, capOK = LeanExpr(is.Cond, map[string]string{"prop.Data.Amount": "amt", "outputAmount": "total", "btcutil.MaxSatoshi": "2100000000000000"})
						capAfter = added
						o.Facts["cap_go"] = Src(is.Cond)
					}
				}
				return false
			})
		}
		o.Facts["cap_translated"] = capOK
		o.Lean.WriteString("/-- the test of `outputs` that refuses amounts beyond the supply (amt = this proposal's amount, total = running total) -/\n")
		o.Lean.WriteString("def supplyCap (amt total : Nat) : Bool := " + capc + "\n")
		if capAfter {
			o.Lean.WriteString("def supplyCapAfterAddition : Bool := true\n\n")
		} else {
			o.Lean.WriteString("def supplyCapAfterAddition : Bool := false\n\n")
		}
		// message handler: the amount is tested to fit 64 bits before .Uint64()
		mh := o.ParseFile("chains/btc/executor/message-handler.go")
		fits := false
		if fd := FindFunc(mh, "", "ERC20MessageHandler"); fd != nil {
			Walk(fd.Body, func(n ast.Node) bool {
				if is, ok := n.(*ast.IfStmt); ok && Src(is.Cond) == "!bigAmount.IsUint64()" && len(is.Body.List) == 1 {
					if _, ok := is.Body.List[0].(*ast.ReturnStmt); ok {
						fits = true
					}
				}
				return true
			})
		}
		o.Facts["handler_checks_uint64"] = fits
		if fits {
			o.Lean.WriteString("def handlerChecksUint64 : Bool := true\n\n")
		} else {
			o.Lean.WriteString("def handlerChecksUint64 : Bool := false\n\n")
		}

		// mempool comparator: fields of utxos[i] mentioned inside the sort.Slice closure, in order of first appearance
		m := o.ParseFile("chains/btc/mempool/mempool.go")
		keys := []string{}
		retKeys := []string{}
		if fd := FindFunc(m, "MempoolAPI", "Utxos"); fd != nil {
			Walk(fd.Body, func(n ast.Node) bool {
				c, ok := n.(*ast.CallExpr)
				if !ok || Src(c.Fun) != "sort.Slice" || len(c.Args) != 2 {
					return true
				}
				Walk(c.Args[1], func(k ast.Node) bool {
					if se, ok := k.(*ast.SelectorExpr); ok {
						s := Src(se)
						if strings.HasPrefix(s, "utxos[i].") {
							fld := strings.TrimPrefix(s, "utxos[i].")
							if fld != "Status" {
								seen := false
								for _, x := range keys {
									seen = seen || x == fld
								}
								if !seen {
									keys = append(keys, fld)
								}
							}
							return false
						}
					}
					if rs, ok := k.(*ast.ReturnStmt); ok && len(rs.Results) == 1 {
						retKeys = append(retKeys, Src(rs.Results[0]))
					}
					return true
				})
				return false
			})
		}
		o.Facts["comparator_keys"] = keys
		o.Facts["comparator_returns"] = retKeys
		o.Lean.WriteString("/-- fields of a UTXO the service-side comparator consults, in order of first use -/\n")
		o.Lean.WriteString("def comparatorKeys : List String := " + LeanStrList(keys) + "\n\n")
		o.Lean.WriteString("/-- the `return` expressions of the comparator, in source order -/\n")
		o.Lean.WriteString("def comparatorReturns : List String := " + LeanStrList(retKeys) + "\n")
	}
}
