package main

import (
	"go/ast"
	"os"
	"path/filepath"
	"regexp"
	"runtime"
	"strconv"
	"strings"
)

// C11: from tss/coordinator.go, the six tss process files, go.mod and the pinned conc module — located by SHAPE (the
// names of locals, receivers, parameters and import aliases are free), each fact an Option (none = T-TIE-UNAVAILABLE):
//   classifyCases  : how handleError classifies — for every case of its switch `As:<type>` (errors.As of the function's
//                    error parameter into a variable of that pointer type; the package qualifier is dropped) or
//                    `Type:<type>` (a type switch on the error value), in source order
//   retryExcludes  : retry() elects among ExcludePeers(<process>.ValidCoordinators(), E) and calls start(…, E) where E is
//                    its []peer.ID parameter (the election may sit one helper call away)
//   retryableGuard : in Execute, is handleError reached only when <process>.Retryable() holds
//   retryable      : the literal each of the six Retryable() methods returns
//   concJoin       : which function conc's error pools aggregate with under the installed toolchain
func init() {
	extractors["C11"] = func(o *Out) {
		f := o.ParseFile("tss/coordinator.go")
		// ------------------------------------------------------------ classifyCases
		cases, casesOK := []string{}, false
		if fd := FindFunc(f, "Coordinator", "handleError"); fd != nil {
			errParam := c07ParamOfType(fd, "error")
			vars := map[string]string{} // local `var x *T` declarations → T without package qualifier
			Walk(fd.Body, func(n ast.Node) bool {
				if vs, ok := n.(*ast.ValueSpec); ok && vs.Type != nil {
					for _, nm := range vs.Names {
						vars[nm.Name] = c11TypeName(vs.Type)
					}
				}
				return true
			})
			Walk(fd.Body, func(n ast.Node) bool {
				if casesOK {
					return false
				}
				switch sw := n.(type) {
				case *ast.TypeSwitchStmt:
					for _, c := range sw.Body.List {
						for _, t := range c.(*ast.CaseClause).List {
							cases = append(cases, "Type:"+c11TypeName(t))
						}
					}
					casesOK = true
					return false
				case *ast.SwitchStmt:
					if sw.Tag != nil {
						return true
					}
					local := []string{}
					for _, c := range sw.Body.List {
						for _, e := range c.(*ast.CaseClause).List {
							call, ok := e.(*ast.CallExpr)
							if ok && strings.HasSuffix(Src(call.Fun), ".As") && len(call.Args) == 2 && Src(call.Args[0]) == errParam {
								if u, ok := call.Args[1].(*ast.UnaryExpr); ok {
									if t, ok := vars[Src(u.X)]; ok {
										local = append(local, "As:"+t)
										continue
									}
								}
							}
							local = append(local, "Other")
						}
					}
					if len(local) > 0 {
						cases, casesOK = local, true
					}
					return false
				}
				return true
			})
		}
		if !casesOK {
			o.Unavailable("classifyCases", "handleError or its classifying switch not found")
		}
		// ------------------------------------------------------------ retryExcludes
		retryOK, retryExcludes, retryWhy := c11RetryExcludes(f)
		if !retryOK {
			o.Unavailable("retryExcludes", retryWhy)
		}
		// ------------------------------------------------------------ retryableGuard
		guardOK, guard, guardWhy := c11RetryableGuard(f)
		if !guardOK {
			o.Unavailable("retryableGuard", guardWhy)
		}
		// Go language version of the module and conc's aggregator for it
		goMinor := 0
		if b, err := os.ReadFile(filepath.Join(repoRoot(), "go.mod")); err == nil {
			if m := regexp.MustCompile(`(?m)^go 1\.(\d+)`).FindSubmatch(b); m != nil {
				goMinor, _ = strconv.Atoi(string(m[1]))
			}
			concVer := ""
			if m := regexp.MustCompile(`github.com/sourcegraph/conc (v[0-9.]+)`).FindSubmatch(b); m != nil {
				concVer = string(m[1])
			}
			o.Facts["conc_version"] = concVer
			join := ""
			// the build constraint `go1.20` on conc's file is decided by the toolchain's release tags (the one installed
			// here, GOTOOLCHAIN=local, which also builds the harness), not by the go directive
			tcMinor := 0
			if m := regexp.MustCompile(`^go1\.(\d+)`).FindStringSubmatch(runtime.Version()); m != nil {
				tcMinor, _ = strconv.Atoi(m[1])
			}
			o.Facts["toolchain_minor"] = tcMinor
			file := "multierror_go119.go"
			if tcMinor >= 20 {
				file = "multierror_go120.go"
			}
			home, _ := os.UserHomeDir()
			if cf := o.ParseFile(filepath.Join(home, "go/pkg/mod/github.com/sourcegraph/conc@"+concVer, "internal/multierror", file)); cf != nil {
				Walk(cf, func(n ast.Node) bool {
					if vs, ok := n.(*ast.ValueSpec); ok && len(vs.Names) == 1 && vs.Names[0].Name == "Join" && len(vs.Values) == 1 {
						join = Src(vs.Values[0])
					}
					return true
				})
			}
			o.Facts["conc_join"] = join
			if join == "" {
				o.Unavailable("concJoin", "conc's multierror file for this toolchain was not found in the module cache")
			}
			o.Lean.WriteString("/-- what conc's `multierror.Join` is bound to for this module's Go version -/\n")
			o.Lean.WriteString("def concJoin : Option String := " + LeanOpt(join != "", LeanStr(join)) + "\n\n")
		} else {
			o.Unavailable("concJoin", "go.mod not readable")
			o.Lean.WriteString("def concJoin : Option String := none\n\n")
		}
		// what each of the six process kinds answers to Retryable(): the returned literal
		retry, retryTabOK := []string{}, true
		for _, k := range []string{"ecdsa/keygen", "ecdsa/signing", "ecdsa/resharing", "frost/keygen", "frost/signing", "frost/resharing"} {
			base := k[strings.Index(k, "/")+1:]
			recv := map[string]string{"keygen": "Keygen", "signing": "Signing", "resharing": "Resharing"}[base]
			ans := ""
			if fd := FindFunc(o.ParseFile("tss/"+k+"/"+base+".go"), recv, "Retryable"); fd != nil && fd.Body != nil && len(fd.Body.List) == 1 {
				if rs, ok := fd.Body.List[0].(*ast.ReturnStmt); ok && len(rs.Results) == 1 {
					if id, ok := rs.Results[0].(*ast.Ident); ok && (id.Name == "true" || id.Name == "false") {
						ans = id.Name
					}
				}
			}
			if ans == "" {
				retryTabOK = false
				o.Unavailable("retryable", "tss/"+k+": Retryable() is not a single `return true|false`")
				break
			}
			retry = append(retry, k+"="+ans)
		}
		o.Facts["retryable"] = retry
		o.Facts["classify_cases"] = cases
		o.Facts["retry_excludes"] = retryExcludes
		o.Facts["retryable_guard"] = guard
		o.Facts["go_minor"] = goMinor
		o.Lean.WriteString("/-- `Retryable()` of the six tss process kinds (the literal each returns) -/\n")
		o.Lean.WriteString("def retryable : Option (List String) := " + LeanOpt(retryTabOK, LeanStrList(retry)) + "\n\n")
		o.Lean.WriteString("/-- the cases of handleError's switch in source order -/\n")
		o.Lean.WriteString("def classifyCases : Option (List String) := " + LeanOpt(casesOK, LeanStrList(cases)) + "\n\n")
		o.Lean.WriteString("def retryExcludes : Option Bool := " + LeanOpt(retryOK, strconv.FormatBool(retryExcludes)) + "\n")
		o.Lean.WriteString("def retryableGuard : Option Bool := " + LeanOpt(guardOK, strconv.FormatBool(guard)) + "\n")
		o.Lean.WriteString("def goMinor : Nat := " + strconv.Itoa(goMinor) + "\n")
	}
}

// c11TypeName: `*pkg.T` / `*T` / `pkg.T` → `T`
func c11TypeName(e ast.Expr) string {
	if s, ok := e.(*ast.StarExpr); ok {
		e = s.X
	}
	if s, ok := e.(*ast.SelectorExpr); ok {
		return s.Sel.Name
	}
	return Src(e)
}

// c11ElectionArgOK: is `call` an elector call `X.Coordinator(ctx, <…>.ExcludePeers(<…>.ValidCoordinators(), E))`
func c11ElectionArgOK(call *ast.CallExpr, excl string, locals map[string]ast.Expr) (isElection, ok bool) {
	sel, isSel := call.Fun.(*ast.SelectorExpr)
	if !isSel || sel.Sel.Name != "Coordinator" || len(call.Args) != 2 {
		return false, false
	}
	arg := call.Args[1]
	if id, isID := arg.(*ast.Ident); isID { // a local that was assigned the candidate list
		if r, ok := locals[id.Name]; ok {
			arg = r
		}
	}
	ex, isCall := arg.(*ast.CallExpr)
	if !isCall || !strings.HasSuffix(Src(ex.Fun), "ExcludePeers") || len(ex.Args) != 2 {
		return true, false
	}
	vc, isCall := ex.Args[0].(*ast.CallExpr)
	return true, isCall && strings.HasSuffix(Src(vc.Fun), ".ValidCoordinators") && Src(ex.Args[1]) == excl
}

// c11Locals: the single-assignment locals `x := <expr>` / `x, err := <expr>` of a function body
func c11Locals(body *ast.BlockStmt) map[string]ast.Expr {
	out := map[string]ast.Expr{}
	Walk(body, func(n ast.Node) bool {
		if as, ok := n.(*ast.AssignStmt); ok && len(as.Rhs) == 1 && len(as.Lhs) >= 1 {
			if id, ok := as.Lhs[0].(*ast.Ident); ok {
				out[id.Name] = as.Rhs[0]
			}
		}
		return true
	})
	return out
}

// c11RetryExcludes: (located, value, why-not-located)
func c11RetryExcludes(f *ast.File) (bool, bool, string) {
	fd := FindFunc(f, "Coordinator", "retry")
	if fd == nil {
		return false, false, "retry not found"
	}
	excl := c07ParamOfType(fd, "[]peer.ID", "peer.IDSlice")
	if excl == "" {
		return false, false, "retry has no []peer.ID parameter"
	}
	electSeen, electOK, startSeen, startOK := false, false, false, false
	var helperCalls []*ast.CallExpr
	Walk(fd.Body, func(n ast.Node) bool {
		c, ok := n.(*ast.CallExpr)
		if !ok {
			return true
		}
		if is, ok2 := c11ElectionArgOK(c, excl, c11Locals(fd.Body)); is {
			electSeen, electOK = true, ok2
		}
		if sel, ok := c.Fun.(*ast.SelectorExpr); ok {
			if sel.Sel.Name == "start" && len(c.Args) >= 1 {
				startSeen = true
				startOK = Src(c.Args[len(c.Args)-1]) == excl
			} else if _, isRecv := sel.X.(*ast.Ident); isRecv {
				helperCalls = append(helperCalls, c)
			}
		}
		return true
	})
	if !electSeen { // one level of same-file helper: a method that is handed `excl`
		for _, hc := range helperCalls {
			name := hc.Fun.(*ast.SelectorExpr).Sel.Name
			var h *ast.FuncDecl
			for _, d := range f.Decls {
				if m, ok := d.(*ast.FuncDecl); ok && m.Name.Name == name && m.Recv != nil {
					h = m
				}
			}
			if h == nil {
				continue
			}
			pos := -1
			for i, a := range hc.Args {
				if Src(a) == excl {
					pos = i
				}
			}
			if pos < 0 {
				continue
			}
			k, pname := 0, ""
			for _, p := range h.Type.Params.List {
				for _, nm := range p.Names {
					if k == pos {
						pname = nm.Name
					}
					k++
				}
			}
			Walk(h.Body, func(n ast.Node) bool {
				if c, ok := n.(*ast.CallExpr); ok {
					if is, ok2 := c11ElectionArgOK(c, pname, c11Locals(h.Body)); is {
						electSeen, electOK = true, ok2
					}
				}
				return true
			})
		}
	}
	if !electSeen || !startSeen {
		return false, false, "the elector call or the call of start was not found in retry (nor one helper call away)"
	}
	return true, electOK && startOK, ""
}

// c11RetryableGuard: (located, handleError is only reached when Retryable() holds, why-not-located). Understood shapes, at
// the top level of Execute: `if !P.Retryable() { return <not handleError> } … return handleError(…)` and
// `if P.Retryable() { return handleError(…) } … return <not handleError>`.
func c11RetryableGuard(f *ast.File) (bool, bool, string) {
	fd := FindFunc(f, "Coordinator", "Execute")
	if fd == nil {
		return false, false, "Execute not found"
	}
	isHandle := func(n ast.Node) bool {
		found := false
		Walk(n, func(m ast.Node) bool {
			if c, ok := m.(*ast.CallExpr); ok && strings.HasSuffix(Src(c.Fun), ".handleError") {
				found = true
			}
			return true
		})
		return found
	}
	locals := c11Locals(fd.Body)
	pos := func(e ast.Expr) (bool, bool) {
		if id, isID := e.(*ast.Ident); isID {
			if r, ok := locals[id.Name]; ok {
				return c11RetryableCondPos(r)
			}
		}
		return c11RetryableCondPos(e)
	}
	retryableCond := func(e ast.Expr) (neg bool, ok bool) {
		if p, isP := e.(*ast.ParenExpr); isP {
			e = p.X
		}
		if u, isU := e.(*ast.UnaryExpr); isU && u.Op.String() == "!" {
			n, ok := pos(u.X)
			return !n, ok
		}
		return pos(e)
	}
	mentionsRetryable := false
	Walk(fd.Body, func(n ast.Node) bool {
		if c, ok := n.(*ast.CallExpr); ok && strings.HasSuffix(Src(c.Fun), ".Retryable") {
			mentionsRetryable = true
		}
		return true
	})
	handleSeen := false
	guarded := false
	sawNegGuard := false
	for _, st := range fd.Body.List {
		switch s := st.(type) {
		case *ast.IfStmt:
			neg, ok := retryableCond(s.Cond)
			if !ok {
				if isHandle(s) {
					return false, false, "handleError is called under a condition the translator does not understand"
				}
				continue
			}
			if !neg { // if P.Retryable() { … }
				if isHandle(s.Body) {
					handleSeen, guarded = true, true
				}
				if s.Else != nil && isHandle(s.Else) {
					handleSeen, guarded = true, false
				}
			} else { // if !P.Retryable() { return … }
				if isHandle(s.Body) {
					handleSeen, guarded = true, false
				} else if k := len(s.Body.List); k > 0 {
					if _, isRet := s.Body.List[k-1].(*ast.ReturnStmt); isRet {
						sawNegGuard = true
					}
				}
				if s.Else != nil && isHandle(s.Else) {
					handleSeen, guarded = true, true
				}
			}
		case *ast.ReturnStmt:
			if isHandle(s) {
				handleSeen = true
				guarded = sawNegGuard
			}
		}
	}
	if !handleSeen {
		return false, false, "no call of handleError at the top level of Execute"
	}
	if !guarded && mentionsRetryable {
		// Retryable() is consulted, but not in one of the two shapes understood here: do not guess
		return false, false, "Execute consults Retryable() in a shape the translator does not understand"
	}
	return true, guarded, ""
}

func c11RetryableCondPos(e ast.Expr) (bool, bool) {
	c, ok := e.(*ast.CallExpr)
	if ok && strings.HasSuffix(Src(c.Fun), ".Retryable") && len(c.Args) == 0 {
		return false, true
	}
	return false, false
}
