package main

import (
	"go/ast"
	"os"
	"path/filepath"
	"regexp"
	"runtime"
	"strconv"
	"strings"
)

// C11: from tss/coordinator.go, go.mod and the pinned conc module
//   - how handleError classifies: for every case of its switch, `As:<type>` (errors.As into a variable of that type)
//     or `Type:<type>` (case of a type switch on the error value), in source order
//   - does retry() hand ExcludePeers(ValidCoordinators(), excluded) to the elector and the same excluded list to start()
//   - does Execute return before handleError when the process is not Retryable()
//   - which function conc's error pools aggregate with under the module's Go version (errors.Join from go1.20 on)
func init() {
	extractors["C11"] = func(o *Out) {
		f := o.ParseFile("tss/coordinator.go")
		cases := []string{}
		if fd := FindFunc(f, "Coordinator", "handleError"); fd != nil {
			vars := map[string]string{} // local `var x *T` declarations
			Walk(fd.Body, func(n ast.Node) bool {
				if vs, ok := n.(*ast.ValueSpec); ok && vs.Type != nil {
					for _, nm := range vs.Names {
						vars[nm.Name] = strings.TrimPrefix(Src(vs.Type), "*")
					}
				}
				return true
			})
			Walk(fd.Body, func(n ast.Node) bool {
				switch sw := n.(type) {
				case *ast.TypeSwitchStmt:
					for _, c := range sw.Body.List {
						for _, t := range c.(*ast.CaseClause).List {
							cases = append(cases, "Type:"+strings.TrimPrefix(Src(t), "*"))
						}
					}
					return false
				case *ast.SwitchStmt:
					if sw.Tag != nil {
						return true
					}
					for _, c := range sw.Body.List {
						for _, e := range c.(*ast.CaseClause).List {
							call, ok := e.(*ast.CallExpr)
							if ok && Src(call.Fun) == "errors.As" && len(call.Args) == 2 && Src(call.Args[0]) == "err" {
								cases = append(cases, "As:"+vars[strings.TrimPrefix(Src(call.Args[1]), "&")])
							} else {
								cases = append(cases, "Other:"+Src(e))
							}
						}
					}
					return false
				}
				return true
			})
		}
		retryExcludes := false
		if fd := FindFunc(f, "Coordinator", "retry"); fd != nil {
			elect, start := false, false
			Walk(fd.Body, func(n ast.Node) bool {
				if c, ok := n.(*ast.CallExpr); ok {
					s := Src(c)
					if strings.HasSuffix(Src(c.Fun), ".Coordinator") && len(c.Args) == 2 &&
						Src(c.Args[1]) == "common.ExcludePeers(tssProcesses[0].ValidCoordinators(), excludedPeers)" {
						elect = true
					}
					if Src(c.Fun) == "c.start" && len(c.Args) == 5 && Src(c.Args[4]) == "excludedPeers" {
						start = true
					}
					_ = s
				}
				return true
			})
			retryExcludes = elect && start
		}
		retryableGuard := false
		if fd := FindFunc(f, "Coordinator", "Execute"); fd != nil {
			seenGuard := false
			for _, st := range fd.Body.List {
				if is, ok := st.(*ast.IfStmt); ok && Src(is.Cond) == "!tssProcesses[0].Retryable()" &&
					len(is.Body.List) == 1 && Src(is.Body.List[0]) == "return err" {
					seenGuard = true
				}
				if rs, ok := st.(*ast.ReturnStmt); ok && strings.Contains(Src(rs), "c.handleError(") {
					retryableGuard = seenGuard
				}
			}
		}
		// Go language version of the module and conc's aggregator for it
		goMinor := 0
		if b, err := os.ReadFile(filepath.Join(repoRoot(), "go.mod")); err == nil {
			if m := regexp.MustCompile(`(?m)^go 1\.(\d+)`).FindSubmatch(b); m != nil {
				goMinor, _ = strconv.Atoi(string(m[1]))
			}
			concVer := ""
			if m := regexp.MustCompile(`github.com/sourcegraph/conc (v[0-9.]+)`).FindSubmatch(b); m != nil {
				concVer = string(m[1])
			}
			o.Facts["conc_version"] = concVer
			join := ""
			// the build constraint `go1.20` on conc's file is decided by the toolchain's release tags (the one installed
			// here, GOTOOLCHAIN=local, which also builds the harness), not by the go directive
			tcMinor := 0
			if m := regexp.MustCompile(`^go1\.(\d+)`).FindStringSubmatch(runtime.Version()); m != nil {
				tcMinor, _ = strconv.Atoi(m[1])
			}
			o.Facts["toolchain_minor"] = tcMinor
			file := "multierror_go119.go"
			if tcMinor >= 20 {
				file = "multierror_go120.go"
			}
			home, _ := os.UserHomeDir()
			if cf := o.ParseFile(filepath.Join(home, "go/pkg/mod/github.com/sourcegraph/conc@"+concVer, "internal/multierror", file)); cf != nil {
				Walk(cf, func(n ast.Node) bool {
					if vs, ok := n.(*ast.ValueSpec); ok && len(vs.Names) == 1 && vs.Names[0].Name == "Join" && len(vs.Values) == 1 {
						join = Src(vs.Values[0])
					}
					return true
				})
			}
			o.Facts["conc_join"] = join
			o.Lean.WriteString("/-- what conc's `multierror.Join` is bound to for this module's Go version -/\n")
			o.Lean.WriteString("def concJoin : String := " + LeanStr(join) + "\n\n")
		} else {
			o.Lean.WriteString("def concJoin : String := \"\"\n\n")
		}
		// what each of the six process kinds answers to Retryable(): the returned literal
		retry := []string{}
		for _, k := range []string{"ecdsa/keygen", "ecdsa/signing", "ecdsa/resharing", "frost/keygen", "frost/signing", "frost/resharing"} {
			recv := map[string]string{"keygen": "Keygen", "signing": "Signing", "resharing": "Resharing"}[k[strings.Index(k, "/")+1:]]
			ans := "?"
			if fd := FindFunc(o.ParseFile("tss/"+k+"/"+k[strings.Index(k, "/")+1:]+".go"), recv, "Retryable"); fd != nil && fd.Body != nil && len(fd.Body.List) == 1 {
				if rs, ok := fd.Body.List[0].(*ast.ReturnStmt); ok && len(rs.Results) == 1 {
					ans = Src(rs.Results[0])
				}
			}
			retry = append(retry, k+"="+ans)
		}
		o.Facts["retryable"] = retry
		o.Lean.WriteString("/-- `Retryable()` of the six tss process kinds (the literal each returns) -/\n")
		o.Lean.WriteString("def retryable : List String := " + LeanStrList(retry) + "\n\n")
		o.Facts["classify_cases"] = cases
		o.Facts["retry_excludes"] = retryExcludes
		o.Facts["retryable_guard"] = retryableGuard
		o.Facts["go_minor"] = goMinor
		o.Lean.WriteString("/-- the cases of handleError's switch in source order -/\n")
		o.Lean.WriteString("def classifyCases : List String := " + LeanStrList(cases) + "\n\n")
		o.Lean.WriteString("def retryExcludes : Bool := " + strconv.FormatBool(retryExcludes) + "\n")
		o.Lean.WriteString("def retryableGuard : Bool := " + strconv.FormatBool(retryableGuard) + "\n")
		o.Lean.WriteString("def goMinor : Nat := " + strconv.Itoa(goMinor) + "\n")
	}
}
