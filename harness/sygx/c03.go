package main

import "go/ast"

// C03: facts about the executed-filter of the three executors
//   - Substrate Execute / EVM proposalBatches: order of lookup, error return, skip-if-executed and collection in the loop
//   - Substrate: which slice the emptiness test after the loop looks at
//   - BTC isExecuted: the condition under which a proposal may be executed, as a Lean Bool over status codes
func init() {
	extractors["C03"] = func(o *Out) {
		sub := o.ParseFile("chains/substrate/executor/executor.go")
		subOrder := c3LoopOrder(FindFunc(sub, "Executor", "Execute"))
		o.Facts["substrate_loop_order"] = subOrder
		o.Lean.WriteString("/-- Substrate `Execute`: order of the statements of the collecting loop -/\n")
		o.Lean.WriteString("def subOrder : List String := " + LeanStrList(subOrder) + "\n\n")
		empt := ""
		if c := c3IfWithBody(FindFunc(sub, "Executor", "Execute"), "return nil"); c != nil {
			empt = Src(c)
		}
		o.Facts["substrate_empty_test"] = empt
		o.Lean.WriteString("/-- Substrate `Execute`: the test that ends the call without signing -/\n")
		o.Lean.WriteString("def subEmptyTest : String := " + LeanStr(empt) + "\n\n")

		evm := o.ParseFile("chains/evm/executor/executor.go")
		evmOrder := c3LoopOrder(FindFunc(evm, "Executor", "proposalBatches"))
		// only the property-relevant tags (the batching statements belong to C14)
		rel := []string{}
		for _, t := range evmOrder {
			if t == "lookup" || t == "err-return" || t == "skip-executed" || t == "append:currentBatch.proposals" {
				rel = append(rel, t)
			}
		}
		o.Facts["evm_loop_order"] = evmOrder
		o.Lean.WriteString("/-- EVM `proposalBatches`: order of lookup / error return / skip / collection -/\n")
		o.Lean.WriteString("def evmOrder : List String := " + LeanStrList(rel) + "\n\n")

		// what is hashed (signed) and what is handed to watchExecution (submitted) inside Execute
		for _, x := range []struct {
			f    *ast.File
			lean string
		}{{evm, "evm"}, {sub, "sub"}} {
			hashArg, watchArg := "", ""
			Walk(FindFunc(x.f, "Executor", "Execute"), func(n ast.Node) bool {
				if c, ok := n.(*ast.CallExpr); ok {
					switch Src(c.Fun) {
					case "e.bridge.ProposalsHash":
						if len(c.Args) == 1 {
							hashArg = Src(c.Args[0])
						}
					case "e.watchExecution":
						if len(c.Args) >= 3 {
							watchArg = Src(c.Args[2])
						}
					}
				}
				return true
			})
			o.Facts[x.lean+"_hash_arg"] = hashArg
			o.Facts[x.lean+"_watch_arg"] = watchArg
			o.Lean.WriteString("/-- " + x.lean + " `Execute`: argument of ProposalsHash and third argument of watchExecution -/\n")
			o.Lean.WriteString("def " + x.lean + "HashArg : String := " + LeanStr(hashArg) + "\n")
			o.Lean.WriteString("def " + x.lean + "WatchArg : String := " + LeanStr(watchArg) + "\n\n")
		}

		// the periodic executed-check: which slice the sweep ranges over, its per-member test, and what the watch loop
		// hands to it
		for _, x := range []struct {
			f    *ast.File
			lean string
		}{{evm, "evm"}, {sub, "sub"}} {
			rangeOver, memberTest, tickArg := "", "", ""
			Walk(FindFunc(x.f, "Executor", "areProposalsExecuted"), func(n ast.Node) bool {
				if rs, ok := n.(*ast.RangeStmt); ok && rangeOver == "" {
					rangeOver = Src(rs.X)
					for _, st := range rs.Body.List {
						if is, ok := st.(*ast.IfStmt); ok && memberTest == "" {
							memberTest = Src(is.Cond) + " => " + Src(is.Body)
						}
					}
				}
				return true
			})
			Walk(FindFunc(x.f, "Executor", "watchExecution"), func(n ast.Node) bool {
				if c, ok := n.(*ast.CallExpr); ok && Src(c.Fun) == "e.areProposalsExecuted" && len(c.Args) == 1 {
					tickArg = Src(c.Args[0])
				}
				return true
			})
			o.Facts[x.lean+"_tick_range"] = rangeOver
			o.Facts[x.lean+"_tick_member_test"] = memberTest
			o.Facts[x.lean+"_tick_arg"] = tickArg
			o.Lean.WriteString("/-- " + x.lean + " `areProposalsExecuted`: ranged slice, per-member test; argument passed by the watch loop -/\n")
			o.Lean.WriteString("def " + x.lean + "TickRange : String := " + LeanStr(rangeOver) + "\n")
			o.Lean.WriteString("def " + x.lean + "TickMemberTest : String := " + LeanStr(memberTest) + "\n")
			o.Lean.WriteString("def " + x.lean + "TickArg : String := " + LeanStr(tickArg) + "\n\n")
		}

		btc := o.ParseFile("chains/btc/executor/executor.go")
		cond, ok := "false", false
		if c := c3IfWithBody(FindFunc(btc, "Executor", "isExecuted"), "return false, nil"); c != nil {
			cond, ok = LeanExpr(c, c3StatusNames("status"))
			o.Facts["btc_can_execute_go"] = Src(c)
		}
		o.Facts["btc_can_execute_translated"] = ok
		o.Lean.WriteString("/-- BTC `isExecuted`: condition for `return false, nil` (status codes 0 missing, 1 pending, 2 failed, 3 executed) -/\n")
		o.Lean.WriteString("def btcCanExec (s : Nat) : Bool := " + cond + "\n")
	}
}
