package main

import (
	"go/ast"
	"strings"
)

// C03: regenerated facts about the executed-filter of the three executors. Every fact is an Option: `none` = the anchor
// was not located in a shape the translator understands (o.Unavailable; the obligation is vacuous and the
// correspondence ops carry the clause alone). Anchors are located by shape (see util_c03c17.go).
//   subFilter / evmFilter       normalised order of lookup, error return, skip-if-executed, collection in the loop
//   subEmptyTest                the "nothing to sign" test after the Substrate loop as a function of
//                               (len of the collected slice, len of any other slice)
//   evmSignedIsSubmitted / sub… Execute hands the same proposals to ProposalsHash and to the watch loop
//   evm/subTickWhole, TickMember, TickArg   the periodic executed-check sweeps the whole slice it is given, answers
//                               "not yet" for a member that errs or is not executed, and is handed the whole batch
//   btcCanExec                  BTC isExecuted: for which status a proposal may be executed
func init() {
	extractors["C03"] = func(o *Out) {
		sub := o.ParseFile("chains/substrate/executor/executor.go")
		evm := o.ParseFile("chains/evm/executor/executor.go")
		btc := o.ParseFile("chains/btc/executor/executor.go")

		// ---- the collecting loops
		subExec := FindFunc(sub, "Executor", "Execute")
		subOrder, subTarget, subOK := c3FilterOrder(sub, subExec)
		o.Facts["substrate_loop_order"] = subOrder
		if !subOK {
			o.Unavailable("subFilter", "the executed-filter loop of the Substrate Execute was not located (lookup, error return, skip and collection are not direct statements of one loop)")
		}
		o.Lean.WriteString("/-- Substrate `Execute`: normalised order of the statements of the collecting loop -/\n")
		o.Lean.WriteString("def subFilter : Option (List String) := " + LeanOpt(subOK, LeanStrList(subOrder)) + "\n\n")

		// the test that ends the call without signing: an `if` with `return nil` after the loop, as a function of
		// n = len(<collected slice>) and other = len(<anything else>)
		emptyTerm, emptyOK := "false", false
		if subExec != nil && subOK {
			for _, st := range subExec.Body.List {
				is, ok := st.(*ast.IfStmt)
				if !ok || len(is.Body.List) != 1 || Src(is.Body.List[0]) != "return nil" {
					continue
				}
				names := map[string]string{}
				Walk(is.Cond, func(n ast.Node) bool {
					if c, ok := n.(*ast.CallExpr); ok && Src(c.Fun) == "len" && len(c.Args) == 1 {
						if Src(c.Args[0]) == subTarget {
							names[Src(c)] = "n"
						} else {
							names[Src(c)] = "other"
						}
					}
					return true
				})
				if len(names) > 0 {
					emptyTerm, emptyOK = LeanExpr(is.Cond, names)
					o.Facts["substrate_empty_test"] = Src(is.Cond)
				}
			}
		}
		if !emptyOK {
			o.Unavailable("subEmptyTest", "no `if <test on a slice length> { return nil }` after the Substrate collecting loop")
		}
		o.Lean.WriteString("/-- Substrate `Execute`: the test that ends the call without signing (n = len of the collected slice) -/\n")
		o.Lean.WriteString("def subEmptyTest : Option (Nat → Nat → Bool) := " + LeanOpt(emptyOK, "fun n other => "+emptyTerm) + "\n\n")

		evmBatches := c3Method(evm, "Executor", "proposalBatches", func(fd *ast.FuncDecl) bool {
			return c3Results(fd) == "[]*Batch, error"
		})
		evmOrder, _, evmOK := c3FilterOrder(evm, evmBatches)
		o.Facts["evm_loop_order"] = evmOrder
		if !evmOK {
			o.Unavailable("evmFilter", "the executed-filter loop of the EVM batching function was not located")
		}
		o.Lean.WriteString("/-- EVM `proposalBatches`: normalised order of lookup / error return / skip / collection -/\n")
		o.Lean.WriteString("def evmFilter : Option (List String) := " + LeanOpt(evmOK, LeanStrList(evmOrder)) + "\n\n")

		// ---- per executor: signed = submitted, and the periodic executed-check
		for _, x := range []struct {
			f        *ast.File
			lean     string
			batchTyp string // type of the watch loop's batch parameter
			viaField string // what of it holds the proposals
		}{{evm, "evm", "*Batch", ".proposals"}, {sub, "sub", "[]*transfer.TransferProposal", ""}} {
			exec := FindFunc(x.f, "Executor", "Execute")
			watch := c3Method(x.f, "Executor", "watchExecution", func(fd *ast.FuncDecl) bool {
				for _, t := range c3ParamTypes(fd) {
					if t == "chan interface{}" {
						return true
					}
				}
				return false
			})
			tick := c3Method(x.f, "Executor", "areProposalsExecuted", func(fd *ast.FuncDecl) bool {
				ts := c3ParamTypes(fd)
				return len(ts) == 1 && ts[0] == "[]*transfer.TransferProposal" && c3Results(fd) == "bool"
			})
			batchIdx := -1
			if watch != nil {
				for i, t := range c3ParamTypes(watch) {
					if t == x.batchTyp {
						batchIdx = i
					}
				}
			}
			// signed = submitted
			hashArg, watchArg := "", ""
			if exec != nil && watch != nil && batchIdx >= 0 {
				Walk(exec, func(n ast.Node) bool {
					if c, ok := n.(*ast.CallExpr); ok {
						if s, ok := c.Fun.(*ast.SelectorExpr); ok {
							if s.Sel.Name == "ProposalsHash" && len(c.Args) == 1 {
								hashArg = Src(c.Args[0])
							}
							if s.Sel.Name == watch.Name.Name && len(c.Args) > batchIdx {
								watchArg = Src(c.Args[batchIdx])
							}
						}
					}
					return true
				})
			}
			sisOK := hashArg != "" && watchArg != ""
			o.Facts[x.lean+"_hash_arg"], o.Facts[x.lean+"_watch_arg"] = hashArg, watchArg
			if !sisOK {
				o.Unavailable(x.lean+"SignedIsSubmitted", "the ProposalsHash call and the call of the watch loop were not both found in Execute")
			}
			o.Lean.WriteString("/-- " + x.lean + " `Execute`: the proposals handed to ProposalsHash are those of the batch handed to the watch loop -/\n")
			o.Lean.WriteString("def " + x.lean + "SignedIsSubmitted : Option Bool := " + LeanOpt(sisOK, leanBool(hashArg == watchArg+x.viaField)) + "\n\n")

			// the periodic executed-check
			wholeOK, whole := false, false
			memberTerm, memberOK := "false", false
			if tick != nil {
				params := c3ParamNames(tick)
				Walk(tick.Body, func(n ast.Node) bool {
					body, over, isLoop := c3Loop(n)
					if !isLoop || body == nil || wholeOK {
						return !wholeOK
					}
					wholeOK = true
					whole = len(params) == 1 && over == params[0]
					execVar, errVar := "", ""
					for _, st := range body.List {
						switch s := st.(type) {
						case *ast.AssignStmt:
							if c3Calls(s, "IsProposalExecuted") && len(s.Lhs) == 2 {
								execVar, errVar = Src(s.Lhs[0]), Src(s.Lhs[1])
							}
						case *ast.IfStmt:
							if execVar != "" && s.Else == nil && len(s.Body.List) == 1 && Src(s.Body.List[0]) == "return false" {
								memberTerm, memberOK = LeanExpr(s.Cond, map[string]string{
									errVar + " != nil": "e", "nil != " + errVar: "e",
									errVar + " == nil": "(!e)", "nil == " + errVar: "(!e)", execVar: "x"})
							}
						}
					}
					return false
				})
				// the function must answer true after the loop
				if n := len(tick.Body.List); n == 0 || Src(tick.Body.List[n-1]) != "return true" {
					memberOK = false
				}
			}
			if !wholeOK {
				o.Unavailable(x.lean+"TickWhole", "the loop of the periodic executed-check was not located")
			}
			if !memberOK {
				o.Unavailable(x.lean+"TickMember", "the per-member test of the periodic executed-check is not `if <cond> { return false }` in a loop followed by `return true`")
			}
			tickArgOK, tickArg := false, false
			if tick != nil && watch != nil && batchIdx >= 0 {
				batchName := c3ParamNames(watch)[batchIdx]
				Walk(watch.Body, func(n ast.Node) bool {
					if c, ok := n.(*ast.CallExpr); ok && len(c.Args) == 1 {
						if s, ok := c.Fun.(*ast.SelectorExpr); ok && s.Sel.Name == tick.Name.Name {
							tickArgOK = true
							tickArg = Src(c.Args[0]) == batchName+x.viaField
							o.Facts[x.lean+"_tick_arg"] = Src(c.Args[0])
						}
					}
					return true
				})
			}
			if !tickArgOK {
				o.Unavailable(x.lean+"TickArg", "the call of the periodic executed-check was not found in the watch loop")
			}
			o.Lean.WriteString("/-- " + x.lean + " periodic executed-check: sweeps the whole slice it is given; per-member test (e = lookup error, x = executed) answering \"not yet\"; the watch loop hands it the whole batch -/\n")
			o.Lean.WriteString("def " + x.lean + "TickWhole : Option Bool := " + LeanOpt(wholeOK, leanBool(whole)) + "\n")
			o.Lean.WriteString("def " + x.lean + "TickMember : Option (Bool → Bool → Bool) := " + LeanOpt(memberOK, "fun e x => "+memberTerm) + "\n")
			o.Lean.WriteString("def " + x.lean + "TickArg : Option Bool := " + LeanOpt(tickArgOK, leanBool(tickArg)) + "\n\n")
		}

		// ---- BTC: which status may be executed
		btcIs := c3Method(btc, "Executor", "isExecuted", func(fd *ast.FuncDecl) bool {
			return c3Results(fd) == "bool, error" && c3Calls(fd.Body, "PropStatus")
		})
		cond, ok := c3StatusDecision(btcIs, func(stmts []ast.Stmt) bool { return c3ReturnsBoolFirst(stmts, "false") })
		o.Facts["btc_can_execute_translated"] = ok
		if !ok {
			o.Unavailable("btcCanExec", "the status decision of the BTC isExecuted was not located as an if / switch over the status")
		}
		o.Lean.WriteString("/-- BTC `isExecuted`: statuses answered \"not executed\" (codes 0 missing, 1 pending, 2 failed, 3 executed) -/\n")
		o.Lean.WriteString("def btcCanExec : Option (Nat → Bool) := " + LeanOpt(ok, "fun s => "+cond) + "\n")
		_ = strings.TrimSpace
	}
}
