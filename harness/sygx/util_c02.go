package main

// helpers shared by the C02 and C13 extractors: everything is located by SHAPE (callee method names of exported APIs,
// statement forms), never by the names of locals, receivers or unexported helpers.

import (
	"go/ast"
	"go/token"
	"strconv"
	"strings"
)

// a2Consts: package-level constants of one file (name -> literal source), so that a named constant in place of a
// literal resolves to the same value.
func a2Consts(f *ast.File) map[string]ast.Expr {
	m := map[string]ast.Expr{}
	if f == nil {
		return m
	}
	for _, d := range f.Decls {
		if gd, ok := d.(*ast.GenDecl); ok && gd.Tok == token.CONST {
			for _, sp := range gd.Specs {
				if vs, ok := sp.(*ast.ValueSpec); ok {
					for i, id := range vs.Names {
						if i < len(vs.Values) {
							m[id.Name] = vs.Values[i]
						}
					}
				}
			}
		}
	}
	return m
}

func a2Resolve(e ast.Expr, consts map[string]ast.Expr) ast.Expr {
	for i := 0; i < 4; i++ {
		switch x := e.(type) {
		case *ast.ParenExpr:
			e = x.X
			continue
		case *ast.Ident:
			if v, ok := consts[x.Name]; ok {
				e = v
				continue
			}
		}
		break
	}
	return e
}

// a2Str: the value of a string literal or of a constant naming one.
func a2Str(e ast.Expr, consts map[string]ast.Expr) (string, bool) {
	if b, ok := a2Resolve(e, consts).(*ast.BasicLit); ok && b.Kind == token.STRING {
		s, err := strconv.Unquote(b.Value)
		return s, err == nil
	}
	return "", false
}

// a2Int: the value of an integer literal or of a constant naming one.
func a2Int(e ast.Expr, consts map[string]ast.Expr) (uint64, bool) {
	if b, ok := a2Resolve(e, consts).(*ast.BasicLit); ok && b.Kind == token.INT {
		v, err := strconv.ParseUint(b.Value, 0, 64)
		return v, err == nil
	}
	return 0, false
}

// a2Method: the selector name of a call's callee (`x.y.Foo(…)` -> "Foo", `pkg.Foo(…)` -> "Foo", `Foo(…)` -> "Foo").
func a2Method(c *ast.CallExpr) string {
	switch f := c.Fun.(type) {
	case *ast.SelectorExpr:
		return f.Sel.Name
	case *ast.Ident:
		return f.Name
	}
	return ""
}

// a2Qualified: `pkg.Foo` for a package-qualified callee, "" otherwise.
func a2Qualified(c *ast.CallExpr) string {
	if f, ok := c.Fun.(*ast.SelectorExpr); ok {
		if id, ok := f.X.(*ast.Ident); ok {
			return id.Name + "." + f.Sel.Name
		}
	}
	return ""
}

// a2FuncsCalling: the function declarations of a file whose body calls a method/function with that selector name.
func a2FuncsCalling(f *ast.File, method string) []*ast.FuncDecl {
	out := []*ast.FuncDecl{}
	if f == nil {
		return out
	}
	for _, d := range f.Decls {
		fd, ok := d.(*ast.FuncDecl)
		if !ok || fd.Body == nil {
			continue
		}
		hit := false
		Walk(fd.Body, func(n ast.Node) bool {
			if c, ok := n.(*ast.CallExpr); ok && a2Method(c) == method {
				hit = true
			}
			return !hit
		})
		if hit {
			out = append(out, fd)
		}
	}
	return out
}

func a2Ident(e ast.Expr) string {
	if id, ok := e.(*ast.Ident); ok {
		return id.Name
	}
	return ""
}

func a2LeanPairs(kv [][2]string) string {
	xs := []string{}
	for _, p := range kv {
		xs = append(xs, "("+LeanStr(p[0])+", "+LeanStr(p[1])+")")
	}
	return "[" + strings.Join(xs, ", ") + "]"
}

// a2LeanStrEsc: a Lean string literal with control characters escaped as \xNN.
func a2LeanStrEsc(s string) string {
	var b strings.Builder
	b.WriteByte('"')
	for _, r := range s {
		switch {
		case r == '\\':
			b.WriteString("\\\\")
		case r == '"':
			b.WriteString("\\\"")
		case r < 0x20:
			b.WriteString("\\x" + string("0123456789abcdef"[r>>4]) + string("0123456789abcdef"[r&15]))
		default:
			b.WriteRune(r)
		}
	}
	b.WriteByte('"')
	return b.String()
}
