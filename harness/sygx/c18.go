package main

import (
	"go/ast"
	"strings"
)

// C18: the ordered system-call sequence of util.WriteFileAtomic (success path and deferred error path) and, for each
// of the three Store functions, the ordered list of calls that marshal or touch the file system.
// Behaviour cannot reveal a missing Sync or a Close placed after the Rename; this does.
func init() {
	extractors["C18"] = func(o *Out) {
		boolLean := func(b bool) string {
			if b {
				return "true"
			}
			return "false"
		}
		f := o.ParseFile("util/atomicfile.go")
		fd := FindFunc(f, "", "WriteFileAtomic")
		mainOps, cleanupOps := []string{}, []string{}
		tempSameDir, renameOnto, removesTemp, deferAfterCreate := false, false, false, false
		norm := func(c *ast.CallExpr) string {
			s := Src(c.Fun)
			switch {
			case strings.HasPrefix(s, "os."):
				if s == "os.OpenFile" && strings.Contains(Src(c), "O_TRUNC") {
					return "os.OpenFile:O_TRUNC"
				}
				return s
			case strings.HasSuffix(s, ".Write"), strings.HasSuffix(s, ".WriteString"):
				return "Write"
			case strings.HasSuffix(s, ".Chmod"):
				return "Chmod"
			case strings.HasSuffix(s, ".Sync"):
				return "Sync"
			case strings.HasSuffix(s, ".Close"):
				return "Close"
			case strings.HasSuffix(s, ".Truncate"):
				return "Truncate"
			}
			return ""
		}
		if fd != nil {
			var lits []*ast.FuncLit
			Walk(fd.Body, func(n ast.Node) bool {
				if d, ok := n.(*ast.DeferStmt); ok {
					if fl, ok := d.Call.Fun.(*ast.FuncLit); ok {
						lits = append(lits, fl)
						deferAfterCreate = len(mainOps) == 1 && mainOps[0] == "os.CreateTemp"
						Walk(fl.Body, func(m ast.Node) bool {
							if c, ok := m.(*ast.CallExpr); ok {
								if nm := norm(c); nm != "" {
									cleanupOps = append(cleanupOps, nm)
									if nm == "os.Remove" && len(c.Args) == 1 && strings.HasSuffix(Src(c.Args[0]), ".Name()") {
										removesTemp = true
									}
								}
							}
							return true
						})
						return false
					}
				}
				if c, ok := n.(*ast.CallExpr); ok {
					if nm := norm(c); nm != "" {
						mainOps = append(mainOps, nm)
						if nm == "os.CreateTemp" && len(c.Args) == 2 && Src(c.Args[0]) == "filepath.Dir(path)" {
							tempSameDir = true
						}
						if nm == "os.Rename" && len(c.Args) == 2 && strings.HasSuffix(Src(c.Args[0]), ".Name()") && Src(c.Args[1]) == "path" {
							renameOnto = true
						}
					}
				}
				return true
			})
		}
		o.Facts["atomic_main"] = mainOps
		o.Facts["atomic_cleanup"] = cleanupOps
		o.Lean.WriteString("/-- file-system calls of `util.WriteFileAtomic` in source order (success path) -/\n")
		o.Lean.WriteString("def atomicMain : List String := " + LeanStrList(mainOps) + "\n\n")
		o.Lean.WriteString("/-- calls inside its deferred error handler -/\n")
		o.Lean.WriteString("def atomicCleanup : List String := " + LeanStrList(cleanupOps) + "\n\n")
		o.Lean.WriteString("/-- the temp file is created in `filepath.Dir(path)` (same file system: rename is atomic) -/\n")
		o.Lean.WriteString("def tempInSameDir : Bool := " + boolLean(tempSameDir) + "\n")
		o.Lean.WriteString("/-- `os.Rename(tmp.Name(), path)` -/\ndef renameOntoPath : Bool := " + boolLean(renameOnto) + "\n")
		o.Lean.WriteString("/-- the handler removes `tmp.Name()` -/\ndef removesTemp : Bool := " + boolLean(removesTemp) + "\n")
		o.Lean.WriteString("/-- the handler is registered right after the successful CreateTemp -/\ndef deferAfterCreate : Bool := " + boolLean(deferAfterCreate) + "\n\n")

		// the three Store functions: marshal, then WriteFileAtomic(<store>.path, …); nothing else touches the file system
		type site struct{ file, recv, name, path string }
		sites := []site{
			{"keyshare/ecdsa.go", "ECDSAKeyshareStore", "StoreKeyshare", "ks.path"},
			{"keyshare/frost.go", "FrostKeyshareStore", "StoreKeyshare", "ks.path"},
			{"topology/store.go", "TopologyStore", "StoreTopology", "ts.path"},
		}
		rows := []string{}
		for _, st := range sites {
			sf := o.ParseFile(st.file)
			sd := FindFunc(sf, st.recv, st.name)
			calls := []string{}
			pathOK := false
			if sd != nil {
				Walk(sd.Body, func(n ast.Node) bool {
					c, ok := n.(*ast.CallExpr)
					if !ok {
						return true
					}
					s := Src(c.Fun)
					switch {
					case s == "json.Marshal":
						calls = append(calls, s)
					case s == "util.WriteFileAtomic":
						calls = append(calls, s)
						pathOK = len(c.Args) == 3 && Src(c.Args[0]) == st.path
					case norm(c) != "":
						calls = append(calls, norm(c))
					}
					return true
				})
			}
			if pathOK {
				calls = append(calls, "path-ok")
			}
			o.Facts["store_calls:"+st.file] = calls
			rows = append(rows, LeanStrList(calls))
		}
		// LockKeyshare / UnlockKeyshare of both key-share stores: every call they make (they must only take / release the mutex)
		lockRows := []string{}
		for _, st := range []struct{ file, recv string }{{"keyshare/ecdsa.go", "ECDSAKeyshareStore"}, {"keyshare/frost.go", "FrostKeyshareStore"}} {
			sf := o.ParseFile(st.file)
			for _, name := range []string{"LockKeyshare", "UnlockKeyshare"} {
				calls := []string{}
				if fd := FindFunc(sf, st.recv, name); fd != nil {
					Walk(fd.Body, func(n ast.Node) bool {
						if c, ok := n.(*ast.CallExpr); ok {
							calls = append(calls, Src(c.Fun))
						}
						return true
					})
				}
				o.Facts["lock_calls:"+st.recv+"."+name] = calls
				lockRows = append(lockRows, LeanStrList(calls))
			}
		}
		o.Lean.WriteString("/-- every call made by ECDSA Lock, ECDSA Unlock, FROST Lock, FROST Unlock -/\n")
		o.Lean.WriteString("def lockCalls : List (List String) := [" + strings.Join(lockRows, ", ") + "]\n\n")
		o.Lean.WriteString("/-- per Store function (ECDSA, FROST, topology): marshal / file-system calls in source order; `path-ok` = the\n    first argument of WriteFileAtomic is the store's own path -/\n")
		o.Lean.WriteString("def storeCalls : List (List String) := [" + strings.Join(rows, ", ") + "]\n")
	}
}
