package main

import (
	"go/ast"
	"strings"
)

// C18: the ordered file-system call sequence of util.WriteFileAtomic (success path and deferred error path) and, for each
// of the three Store functions and the four Lock/Unlock methods, what they do to the file system.
// Behaviour cannot reveal a missing Sync or a Close placed after the Rename; this does.
//
// Anchors are located by SHAPE: calls are named by package function (`os.CreateTemp`, `os.Rename`, …) or by METHOD name on
// whatever variable holds the file (`.Write`, `.Sync`, …); parameters and receivers are referred to by position, never by
// their names (renaming `tmp`, `path`, `ks`, `kb` is a harmless refactor); calls to unexported helpers of the same file are
// followed one level. A fact whose anchor is gone or has a shape not understood is UNAVAILABLE (`none`), not wrong.
func init() {
	extractors["C18"] = func(o *Out) {
		norm := func(c *ast.CallExpr) string {
			s := Src(c.Fun)
			switch {
			case strings.HasPrefix(s, "os."):
				if s == "os.OpenFile" && strings.Contains(Src(c), "O_TRUNC") {
					return "os.OpenFile:O_TRUNC"
				}
				return s
			case strings.HasSuffix(s, ".Write"), strings.HasSuffix(s, ".WriteString"):
				return "Write"
			case strings.HasSuffix(s, ".Chmod"):
				return "Chmod"
			case strings.HasSuffix(s, ".Sync"):
				return "Sync"
			case strings.HasSuffix(s, ".Close"):
				return "Close"
			case strings.HasSuffix(s, ".Truncate"):
				return "Truncate"
			}
			return ""
		}
		paramName := func(fd *ast.FuncDecl, i int) string { // name of the i-th parameter
			k := 0
			for _, f := range fd.Type.Params.List {
				for _, n := range f.Names {
					if k == i {
						return n.Name
					}
					k++
				}
			}
			return ""
		}
		recvName := func(fd *ast.FuncDecl) string {
			if fd.Recv != nil && len(fd.Recv.List) == 1 && len(fd.Recv.List[0].Names) == 1 {
				return fd.Recv.List[0].Names[0].Name
			}
			return ""
		}

		// ------------------------------------------------------------------ util.WriteFileAtomic
		f := o.ParseFile("util/atomicfile.go")
		fd := FindFunc(f, "", "WriteFileAtomic")
		mainOps, cleanupOps := []string{}, []string{}
		tempSameDir, renameOnto, removesTemp, deferAfterCreate := false, false, false, false
		located := fd != nil && fd.Type.Params != nil && paramName(fd, 0) != ""
		if located {
			path := paramName(fd, 0)
			tmpVar := "" // the variable the temp file is bound to: LHS of the os.CreateTemp assignment
			Walk(fd.Body, func(n ast.Node) bool {
				if a, ok := n.(*ast.AssignStmt); ok && len(a.Rhs) == 1 && len(a.Lhs) >= 1 {
					if c, ok := a.Rhs[0].(*ast.CallExpr); ok && Src(c.Fun) == "os.CreateTemp" {
						tmpVar = Src(a.Lhs[0])
					}
				}
				return true
			})
			Walk(fd.Body, func(n ast.Node) bool {
				if d, ok := n.(*ast.DeferStmt); ok {
					if fl, ok := d.Call.Fun.(*ast.FuncLit); ok {
						deferAfterCreate = len(mainOps) == 1 && mainOps[0] == "os.CreateTemp"
						Walk(fl.Body, func(m ast.Node) bool {
							if c, ok := m.(*ast.CallExpr); ok {
								if nm := norm(c); nm != "" {
									cleanupOps = append(cleanupOps, nm)
									if nm == "os.Remove" && len(c.Args) == 1 && tmpVar != "" && Src(c.Args[0]) == tmpVar+".Name()" {
										removesTemp = true
									}
								}
							}
							return true
						})
						return false
					}
				}
				if c, ok := n.(*ast.CallExpr); ok {
					if nm := norm(c); nm != "" {
						mainOps = append(mainOps, nm)
						if nm == "os.CreateTemp" && len(c.Args) == 2 && Src(c.Args[0]) == "filepath.Dir("+path+")" {
							tempSameDir = true
						}
						if nm == "os.Rename" && len(c.Args) == 2 && tmpVar != "" && Src(c.Args[0]) == tmpVar+".Name()" && Src(c.Args[1]) == path {
							renameOnto = true
						}
					} else if id, ok := c.Fun.(*ast.Ident); ok && f != nil { // an unexported helper of the same file: its calls, in place
						for _, d := range f.Decls {
							if h, ok := d.(*ast.FuncDecl); ok && h.Recv == nil && h.Name.Name == id.Name && h.Body != nil && h != fd {
								Walk(h.Body, func(m ast.Node) bool {
									if hc, ok := m.(*ast.CallExpr); ok {
										if nm := norm(hc); nm != "" {
											mainOps = append(mainOps, nm)
										}
									}
									return true
								})
							}
						}
					}
				}
				return true
			})
			if len(mainOps) == 0 { // the body no longer issues file-system calls itself (moved into helpers): not understood
				located = false
			}
		}
		if !located {
			o.Unavailable("atomicWrite", "util.WriteFileAtomic not found, or its body makes no file-system call itself")
		}
		o.Facts["atomic_main"] = mainOps
		o.Facts["atomic_cleanup"] = cleanupOps
		b := func(x bool) string {
			if x {
				return "true"
			}
			return "false"
		}
		o.Lean.WriteString("/-- `util.WriteFileAtomic`: (file-system calls of the success path in source order, calls of the deferred error handler) -/\n")
		o.Lean.WriteString("def atomicCalls : Option (List String × List String) := " + LeanOpt(located, LeanStrList(mainOps)+", "+LeanStrList(cleanupOps)) + "\n\n")
		o.Lean.WriteString("/-- (temp file created in `filepath.Dir(<path parameter>)`, `os.Rename(<temp>.Name(), <path parameter>)`, the handler\n    removes `<temp>.Name()`, the handler is registered right after the successful CreateTemp) -/\n")
		o.Lean.WriteString("def atomicPaths : Option (Bool × Bool × Bool × Bool) := " +
			LeanOpt(located, b(tempSameDir)+", "+b(renameOnto)+", "+b(removesTemp)+", "+b(deferAfterCreate)) + "\n\n")

		// ------------------------------------------------------------------ the three Store functions
		// what each does to the file system: every os.* / file-method call and every util.WriteFileAtomic, following calls to
		// unexported functions / methods of the same file one level; `own-path` = WriteFileAtomic's first argument is a field
		// of the receiver
		type site struct{ file, recv, name string }
		sites := []site{
			{"keyshare/ecdsa.go", "ECDSAKeyshareStore", "StoreKeyshare"},
			{"keyshare/frost.go", "FrostKeyshareStore", "StoreKeyshare"},
			{"topology/store.go", "TopologyStore", "StoreTopology"},
		}
		rows := []string{}
		storesOK := true
		for _, st := range sites {
			sf := o.ParseFile(st.file)
			sd := FindFunc(sf, st.recv, st.name)
			if sd == nil {
				storesOK = false
				o.Unavailable("storeFsCalls", st.recv+"."+st.name+" not found")
				continue
			}
			rv := recvName(sd)
			calls := []string{}
			var collect func(body ast.Node, depth int)
			collect = func(body ast.Node, depth int) {
				Walk(body, func(n ast.Node) bool {
					c, ok := n.(*ast.CallExpr)
					if !ok {
						return true
					}
					s := Src(c.Fun)
					switch {
					case s == "util.WriteFileAtomic":
						calls = append(calls, s)
						if len(c.Args) == 3 {
							arg := c.Args[0]
							if id, ok := arg.(*ast.Ident); ok { // a local: look through one definition `x := <recv>.<field>`
								Walk(sd.Body, func(m ast.Node) bool {
									if a, ok := m.(*ast.AssignStmt); ok && len(a.Lhs) == 1 && len(a.Rhs) == 1 && Src(a.Lhs[0]) == id.Name {
										arg = a.Rhs[0]
									}
									return true
								})
							}
							if sel, ok := arg.(*ast.SelectorExpr); ok && rv != "" && Src(sel.X) == rv {
								calls = append(calls, "own-path")
							}
						}
					case norm(c) != "":
						calls = append(calls, norm(c))
					case depth == 0:
						// a helper of the same file: plain function `helper(…)` or method `<recv>.helper(…)`
						name := ""
						if id, ok := c.Fun.(*ast.Ident); ok {
							name = id.Name
						} else if sel, ok := c.Fun.(*ast.SelectorExpr); ok && rv != "" && Src(sel.X) == rv {
							name = sel.Sel.Name
						}
						if name != "" && sf != nil {
							for _, d := range sf.Decls {
								if h, ok := d.(*ast.FuncDecl); ok && h.Name.Name == name && h.Body != nil && h != sd {
									collect(h.Body, 1)
								}
							}
						}
					}
					return true
				})
			}
			collect(sd.Body, 0)
			o.Facts["store_fs_calls:"+st.file] = calls
			rows = append(rows, LeanStrList(calls))
		}
		o.Lean.WriteString("/-- per Store function (ECDSA, FROST, topology): everything it does to the file system, in source order (helpers of the\n    same file followed one level); `own-path` = the first argument of WriteFileAtomic is a field of the receiver -/\n")
		o.Lean.WriteString("def storeFsCalls : Option (List (List String)) := " + LeanOpt(storesOK, "["+strings.Join(rows, ", ")+"]") + "\n\n")

		// ------------------------------------------------------------------ Lock / Unlock of both key-share stores
		// every call they make, with the receiver and the mutex field abstracted: `recv._.Lock` = <receiver>.<some field>.Lock()
		lockRows := []string{}
		locksOK := true
		for _, st := range []struct{ file, recv string }{{"keyshare/ecdsa.go", "ECDSAKeyshareStore"}, {"keyshare/frost.go", "FrostKeyshareStore"}} {
			sf := o.ParseFile(st.file)
			for _, name := range []string{"LockKeyshare", "UnlockKeyshare"} {
				fd := FindFunc(sf, st.recv, name)
				if fd == nil {
					locksOK = false
					o.Unavailable("lockCalls", st.recv+"."+name+" not found")
					continue
				}
				rv := recvName(fd)
				calls := []string{}
				Walk(fd.Body, func(n ast.Node) bool {
					if c, ok := n.(*ast.CallExpr); ok {
						s := Src(c.Fun)
						if sel, ok := c.Fun.(*ast.SelectorExpr); ok {
							if inner, ok := sel.X.(*ast.SelectorExpr); ok && rv != "" && Src(inner.X) == rv {
								s = "recv._." + sel.Sel.Name
							} else if rv != "" && Src(sel.X) == rv {
								s = "recv." + sel.Sel.Name
							}
						}
						calls = append(calls, s)
					}
					return true
				})
				o.Facts["lock_calls:"+st.recv+"."+name] = calls
				lockRows = append(lockRows, LeanStrList(calls))
			}
		}
		o.Lean.WriteString("/-- every call made by ECDSA Lock, ECDSA Unlock, FROST Lock, FROST Unlock (`recv._.M` = a method M of a field of the receiver) -/\n")
		o.Lean.WriteString("def lockCalls : Option (List (List String)) := " + LeanOpt(locksOK, "["+strings.Join(lockRows, ", ")+"]") + "\n")
	}
}
