package main

import (
	"go/ast"
	"os"
	"path/filepath"
	"regexp"
	"strings"
)

// C05 (also used by C19): the start-block wiring of app.Run, per `case "<chain type>"` of the switch over the chain
// type, located by SHAPE — through the exported API names it must use, never through the names of locals:
//   reads     — V := <x>.GetStartBlock(id, <c>.StartBlock, <c>….LatestBlock, <c>….FreshStart)         (V = the start variable)
//   boot      — `if V == nil { … V = <something obtained from LatestBlock()> }`
//   aligns    — V' := <pkg>.CalculateStartingBlock(V, <c>.BlockInterval)                               (V' becomes the start variable)
//   handsOver — a constructor New…Chain(…) receives the start variable as its last argument
//   ordered   — in this order
// A case clause that contains neither the read nor a chain constructor (the branch was moved into a helper) is
// UNAVAILABLE, not different. Plus: NewBtcChain stores its *big.Int parameter in a field F, and PollEvents hands
// <receiver>.F to ListenToEvents.
var chainCtor = regexp.MustCompile(`^New\w*Chain$`)

func c05FunName(e ast.Expr) string {
	switch f := e.(type) {
	case *ast.Ident:
		return f.Name
	case *ast.SelectorExpr:
		return f.Sel.Name
	}
	return ""
}

func c05SelName(e ast.Expr) string {
	if s, ok := e.(*ast.SelectorExpr); ok {
		return s.Sel.Name
	}
	return ""
}

func c05IsNilCheck(e ast.Expr, v string) bool {
	b, ok := e.(*ast.BinaryExpr)
	if !ok || b.Op.String() != "==" {
		return false
	}
	return (Src(b.X) == v && Src(b.Y) == "nil") || (Src(b.Y) == v && Src(b.X) == "nil")
}

func c05CallsNamed(n ast.Node, name string) bool {
	found := false
	Walk(n, func(m ast.Node) bool {
		if c, ok := m.(*ast.CallExpr); ok && c05FunName(c.Fun) == name {
			found = true
		}
		return true
	})
	return found
}

// c05PackageFunc: the function `name` declared in any file of the repository package directory `dir`
func c05PackageFunc(o *Out, dir, name string) *ast.FuncDecl {
	ents, err := os.ReadDir(filepath.Join(repoRoot(), dir))
	if err != nil {
		return nil
	}
	for _, e := range ents {
		if e.IsDir() || !strings.HasSuffix(e.Name(), ".go") || strings.HasSuffix(e.Name(), "_test.go") {
			continue
		}
		if f := o.ParseFile(dir + "/" + e.Name()); f != nil {
			if fd := FindFunc(f, "", name); fd != nil && fd.Body != nil {
				return fd
			}
		}
	}
	return nil
}

func init() {
	extractors["C05"] = func(o *Out) {
		f := o.ParseFile("app/app.go")
		run := FindFunc(f, "", "Run")
		type wire struct{ reads, boot, aligns, hands, ordered, located bool }
		ws := map[string]wire{}
		if run != nil {
			Walk(run.Body, func(n ast.Node) bool {
				cc, ok := n.(*ast.CaseClause)
				if !ok || len(cc.List) != 1 {
					return true
				}
				lit, ok := cc.List[0].(*ast.BasicLit)
				if !ok {
					return true
				}
				name := strings.Trim(lit.Value, "\"")
				if name != "evm" && name != "substrate" && name != "btc" {
					return true
				}
				w := wire{}
				cur := ""
				var pRead, pBoot, pAlign, pHand int
				hasCtor := false
				var ctorLast ast.Expr
				// scan finds read / boot / align under root; argSel tells which exported config field an argument is
				opaque, depth := false, 0
				var rescan func(root ast.Node, argSel func(ast.Expr) string, isLatest func(ast.Node) bool)
				scan := func(root ast.Node, argSel func(ast.Expr) string, isLatest func(ast.Node) bool) {
					Walk(root, func(m ast.Node) bool {
						switch s := m.(type) {
						case *ast.AssignStmt:
							if len(s.Rhs) != 1 || len(s.Lhs) < 1 {
								return true
							}
							c, ok := s.Rhs[0].(*ast.CallExpr)
							id, isID := s.Lhs[0].(*ast.Ident)
							if !ok || !isID {
								return true
							}
							switch c05FunName(c.Fun) {
							default:
								// `V = helper(V, …)`: a package-local function that takes the start block and returns it —
								// follow it one level (the nil-check / alignment may live there)
								fid, isLocal := c.Fun.(*ast.Ident)
								if !isLocal || cur == "" || depth > 0 {
									return true
								}
								argIdx := -1
								for i, a := range c.Args {
									if Src(a) == cur {
										argIdx = i
									}
								}
								if argIdx < 0 {
									return true
								}
								opaque = true
								h := c05PackageFunc(o, "app", fid.Name)
								if h == nil {
									return true
								}
								sub := map[string]ast.Expr{}
								hcur := ""
								i := 0
								for _, p := range h.Type.Params.List {
									for _, pn := range p.Names {
										if i < len(c.Args) {
											sub[pn.Name] = c.Args[i]
										}
										if i == argIdx {
											hcur = pn.Name
										}
										i++
									}
								}
								if hcur == "" {
									return true
								}
								saveCur := cur
								cur = hcur
								depth++
								hSel := func(e ast.Expr) string {
									if id, ok := e.(*ast.Ident); ok {
										if x, ok := sub[id.Name]; ok {
											return argSel(x)
										}
									}
									return c05SelName(e)
								}
								before := w
								rescan(h.Body, hSel, func(n ast.Node) bool { return c05CallsNamed(n, "LatestBlock") })
								depth--
								returnsCur := false
								Walk(h.Body, func(k ast.Node) bool {
									if r, ok := k.(*ast.ReturnStmt); ok && len(r.Results) >= 1 && Src(r.Results[0]) == cur {
										returnsCur = true
									}
									return true
								})
								if returnsCur && (w.boot != before.boot || w.aligns != before.aligns) {
									opaque = false
									if w.boot && !before.boot {
										pBoot = int(s.Pos())
									}
									if w.aligns && !before.aligns {
										pAlign = int(s.Pos()) + 1
									}
									cur = id.Name
									o.Facts["wiring_"+name+"_via_helper"] = fid.Name
								} else {
									w = before
									cur = saveCur
								}
							case "GetStartBlock":
								if len(c.Args) == 4 && argSel(c.Args[1]) == "StartBlock" && argSel(c.Args[2]) == "LatestBlock" && argSel(c.Args[3]) == "FreshStart" {
									w.reads = true
									cur = id.Name
									pRead = int(s.Pos())
								}
							case "CalculateStartingBlock":
								if cur != "" && len(c.Args) == 2 && Src(c.Args[0]) == cur && argSel(c.Args[1]) == "BlockInterval" {
									w.aligns = true
									cur = id.Name
									pAlign = int(s.Pos())
								}
							}
						case *ast.IfStmt:
							if cur != "" && c05IsNilCheck(s.Cond, cur) {
								assigned := false
								Walk(s.Body, func(k ast.Node) bool {
									if a, ok := k.(*ast.AssignStmt); ok && len(a.Lhs) >= 1 && Src(a.Lhs[0]) == cur {
										assigned = true
									}
									return true
								})
								if assigned && isLatest(s.Body) {
									w.boot = true
									pBoot = int(s.Pos())
								}
							}
						}
						return true
					})
				}
				rescan = scan
				for _, st := range cc.Body {
					scan(st, c05SelName, func(n ast.Node) bool { return c05CallsNamed(n, "LatestBlock") })
					Walk(st, func(m ast.Node) bool {
						if s, ok := m.(*ast.CallExpr); ok && chainCtor.MatchString(c05FunName(s.Fun)) && len(s.Args) > 0 {
							hasCtor = true
							ctorLast = s.Args[len(s.Args)-1]
							if cur != "" && Src(ctorLast) == cur {
								w.hands = true
								pHand = int(s.Pos())
							}
							o.Facts["ctor_"+name] = c05FunName(s.Fun)
						}
						return true
					})
				}
				viaHelper := false
				if !w.reads && hasCtor {
					// the start block may come from a package-local helper: `V := helper(args…)` … New…Chain(…, V)
					if v, ok := ctorLast.(*ast.Ident); ok {
						var call *ast.CallExpr
						for _, st := range cc.Body {
							Walk(st, func(m ast.Node) bool {
								if a, ok := m.(*ast.AssignStmt); ok && len(a.Lhs) >= 1 && Src(a.Lhs[0]) == v.Name && len(a.Rhs) == 1 {
									if c, ok := a.Rhs[0].(*ast.CallExpr); ok {
										if _, ok := c.Fun.(*ast.Ident); ok {
											call = c
										}
									}
								}
								return true
							})
						}
						if call != nil {
							viaHelper = true
							if h := c05PackageFunc(o, "app", call.Fun.(*ast.Ident).Name); h != nil {
								subst := map[string]ast.Expr{}
								i := 0
								for _, p := range h.Type.Params.List {
									for _, pn := range p.Names {
										if i < len(call.Args) {
											subst[pn.Name] = call.Args[i]
										}
										i++
									}
								}
								argSel := func(e ast.Expr) string {
									if id, ok := e.(*ast.Ident); ok {
										if s, ok := subst[id.Name]; ok {
											return c05SelName(s)
										}
									}
									return c05SelName(e)
								}
								isLatest := func(n ast.Node) bool {
									if c05CallsNamed(n, "LatestBlock") {
										return true
									}
									found := false
									Walk(n, func(m ast.Node) bool {
										if c, ok := m.(*ast.CallExpr); ok {
											if id, ok := c.Fun.(*ast.Ident); ok {
												if s, ok := subst[id.Name]; ok && c05SelName(s) == "LatestBlock" {
													found = true
												}
											}
										}
										return true
									})
									return found
								}
								scan(h.Body, argSel, isLatest)
								Walk(h.Body, func(m ast.Node) bool {
									if r, ok := m.(*ast.ReturnStmt); ok && len(r.Results) >= 1 && cur != "" && Src(r.Results[0]) == cur {
										w.hands = true
										pHand = int(r.Pos())
									}
									return true
								})
								o.Facts["wiring_"+name+"_via_helper"] = h.Name.Name
							}
						}
					}
				}
				// a branch whose start block comes out of a package-local call that the translator could not see through is
				// UNAVAILABLE, not different
				w.located = (w.reads || (hasCtor && !viaHelper)) && !opaque
				w.ordered = w.reads && w.hands && pRead < pHand && (!w.boot || (pRead < pBoot && pBoot < pHand)) &&
					(!w.aligns || (pRead < pAlign && pAlign < pHand)) && (!(w.boot && w.aligns) || pBoot < pAlign)
				ws[name] = w
				return true
			})
		}
		b := func(x bool) string {
			if x {
				return "true"
			}
			return "false"
		}
		o.Lean.WriteString("structure Wire where\n  reads : Bool\n  boot : Bool\n  aligns : Bool\n  handsOver : Bool\n  ordered : Bool\nderiving DecidableEq, Repr\n\n")
		for _, n := range []string{"evm", "substrate", "btc"} {
			w := ws[n]
			o.Facts["wiring_"+n] = map[string]bool{"located": w.located, "reads": w.reads, "boot": w.boot, "aligns": w.aligns, "handsOver": w.hands, "ordered": w.ordered}
			if !w.located {
				o.Unavailable("wiring_"+n, "the `"+n+"` branch of app.Run with its GetStartBlock read / chain constructor was not located (moved into a helper?)")
			}
			o.Lean.WriteString("def " + n + " : Option Wire := " + LeanOpt(w.located, "⟨"+b(w.reads)+", "+b(w.boot)+", "+b(w.aligns)+", "+b(w.hands)+", "+b(w.ordered)+"⟩") + "\n")
		}
		// BtcChain: the constructor stores its *big.Int parameter in a field, PollEvents passes that field on
		cf := o.ParseFile("chains/btc/chain.go")
		located, stores, passes := false, false, false
		field := ""
		if fd := FindFunc(cf, "", "NewBtcChain"); fd != nil {
			bigParams := map[string]bool{}
			for _, p := range fd.Type.Params.List {
				if Src(p.Type) == "*big.Int" {
					for _, nm := range p.Names {
						bigParams[nm.Name] = true
					}
				}
			}
			located = true
			Walk(fd.Body, func(n ast.Node) bool {
				if kv, ok := n.(*ast.KeyValueExpr); ok {
					if id, ok := kv.Value.(*ast.Ident); ok && bigParams[id.Name] {
						stores = true
						field = Src(kv.Key)
					}
				}
				return true
			})
		}
		if fd := FindFunc(cf, "BtcChain", "PollEvents"); fd != nil && located {
			c := newGctx(cf, fd)
			Walk(fd.Body, func(n ast.Node) bool {
				call, ok := n.(*ast.CallExpr)
				if !ok || c05FunName(call.Fun) != "ListenToEvents" || len(call.Args) == 0 {
					return true
				}
				last := call.Args[len(call.Args)-1]
				c.collectDefsAt(call.Pos())
				for i := 0; i < 4; i++ { // a local that merely names the field
					if id, ok := last.(*ast.Ident); ok {
						if d, ok := c.defs[id.Name]; ok {
							last = d
							continue
						}
					}
					break
				}
				if s, ok := last.(*ast.SelectorExpr); ok && field != "" && s.Sel.Name == field && Src(s.X) == c.recv {
					passes = true
				}
				return true
			})
		} else {
			located = false
		}
		o.Facts["btc_chain"] = map[string]interface{}{"located": located, "field": field, "stores": stores, "passes": passes}
		if !located {
			o.Unavailable("btcChain", "NewBtcChain / BtcChain.PollEvents were not located")
		}
		o.Lean.WriteString("def btcChain : Option (Bool × Bool) := " + LeanOpt(located, b(stores)+", "+b(passes)) + "\n")
	}
}
