package main

import (
	"go/ast"
	"strings"
)

// C05 (also used by C19): the start-block wiring of app.Run, per `case "<chain type>"` of the switch over
// chainConfig["type"]:
//   reads     — `startBlock, err := blockstore.GetStartBlock(id, config.StartBlock, …LatestBlock, …FreshStart)`
//   boot      — `if startBlock == nil { … startBlock = head }`
//   aligns    — `startBlock, err = chains.CalculateStartingBlock(startBlock, config.BlockInterval)`
//   handsOver — the chain constructor (New…Chain) receives `startBlock` as its last argument
//   ordered   — these statements appear in this order
// plus: BtcChain.PollEvents hands c.startBlock to ListenToEvents and NewBtcChain stores its parameter.
func init() {
	extractors["C05"] = func(o *Out) {
		f := o.ParseFile("app/app.go")
		run := FindFunc(f, "", "Run")
		type wire struct{ reads, boot, aligns, hands, ordered bool }
		ws := map[string]wire{}
		if run != nil {
			Walk(run.Body, func(n ast.Node) bool {
				cc, ok := n.(*ast.CaseClause)
				if !ok || len(cc.List) != 1 {
					return true
				}
				lit, ok := cc.List[0].(*ast.BasicLit)
				if !ok {
					return true
				}
				name := strings.Trim(lit.Value, "\"")
				if name != "evm" && name != "substrate" && name != "btc" {
					return true
				}
				w := wire{}
				var pRead, pBoot, pAlign, pHand int
				for _, st := range cc.Body {
					Walk(st, func(m ast.Node) bool {
						switch s := m.(type) {
						case *ast.AssignStmt:
							if len(s.Lhs) >= 1 && Src(s.Lhs[0]) == "startBlock" && len(s.Rhs) == 1 {
								if c, ok := s.Rhs[0].(*ast.CallExpr); ok {
									switch Src(c.Fun) {
									case "blockstore.GetStartBlock":
										if len(c.Args) == 4 && Src(c.Args[1]) == "config.StartBlock" &&
											Src(c.Args[2]) == "config.GeneralChainConfig.LatestBlock" && Src(c.Args[3]) == "config.GeneralChainConfig.FreshStart" {
											w.reads = true
											pRead = int(s.Pos())
										}
									case "chains.CalculateStartingBlock":
										if len(c.Args) == 2 && Src(c.Args[0]) == "startBlock" && Src(c.Args[1]) == "config.BlockInterval" {
											w.aligns = true
											pAlign = int(s.Pos())
										}
									}
								}
							}
						case *ast.IfStmt:
							if Src(s.Cond) == "startBlock == nil" && strings.Contains(Src(s.Body), "startBlock = head") {
								w.boot = true
								pBoot = int(s.Pos())
							}
						case *ast.CallExpr:
							fn := Src(s.Fun)
							if strings.HasSuffix(fn, "Chain") && strings.Contains(fn, ".New") && len(s.Args) > 0 {
								if Src(s.Args[len(s.Args)-1]) == "startBlock" {
									w.hands = true
									pHand = int(s.Pos())
								}
								o.Facts["ctor_"+name] = fn
							}
						}
						return true
					})
				}
				w.ordered = w.reads && w.hands && pRead < pHand && (!w.boot || (pRead < pBoot && pBoot < pHand)) &&
					(!w.aligns || (pRead < pAlign && pAlign < pHand)) && (!(w.boot && w.aligns) || pBoot < pAlign)
				ws[name] = w
				return true
			})
		}
		b := func(x bool) string {
			if x {
				return "true"
			}
			return "false"
		}
		o.Lean.WriteString("structure Wire where\n  reads : Bool\n  boot : Bool\n  aligns : Bool\n  handsOver : Bool\n  ordered : Bool\nderiving DecidableEq, Repr\n\n")
		for _, n := range []string{"evm", "substrate", "btc"} {
			w := ws[n]
			o.Facts["wiring_"+n] = map[string]bool{"reads": w.reads, "boot": w.boot, "aligns": w.aligns, "handsOver": w.hands, "ordered": w.ordered}
			o.Lean.WriteString("def " + n + " : Wire := ⟨" + b(w.reads) + ", " + b(w.boot) + ", " + b(w.aligns) + ", " + b(w.hands) + ", " + b(w.ordered) + "⟩\n")
		}
		// BtcChain: constructor stores the start block, PollEvents passes it on
		cf := o.ParseFile("chains/btc/chain.go")
		stores, passes := false, false
		if fd := FindFunc(cf, "", "NewBtcChain"); fd != nil {
			Walk(fd.Body, func(n ast.Node) bool {
				if kv, ok := n.(*ast.KeyValueExpr); ok && Src(kv.Key) == "startBlock" && Src(kv.Value) == "startBlock" {
					stores = true
				}
				return true
			})
		}
		if fd := FindFunc(cf, "BtcChain", "PollEvents"); fd != nil {
			Walk(fd.Body, func(n ast.Node) bool {
				if g, ok := n.(*ast.GoStmt); ok && Src(g.Call) == "c.listener.ListenToEvents(ctx, c.startBlock)" {
					passes = true
				}
				return true
			})
		}
		o.Facts["btc_chain_stores_start"] = stores
		o.Facts["btc_poll_passes_start"] = passes
		o.Lean.WriteString("def btcChainStoresStart : Bool := " + b(stores) + "\n")
		o.Lean.WriteString("def btcPollPassesStart : Bool := " + b(passes) + "\n")
	}
}
