package main

import (
	"go/ast"
	"go/token"
	"strings"
)

// C15: from chains/btc/listener/util.go
//   - the float → satoshi conversion: is it int64(math.Round(<value> * 1e8)), and does every use of vout.Value go through it
//   - the "not a deposit" condition and the two script-type constants
// from chains/btc/listener/deposit-handler.go
//   - base and exponent of the scaling multiplier, the ParseUint base/bit-size, the separator
func init() {
	extractors["C15"] = func(o *Out) {
		f := o.ParseFile("chains/btc/listener/util.go")
		convSrc, convRound := "", false
		convName := ""
		// a helper whose single statement returns int64(math.Round(x * 1e8))
		if f != nil {
			for _, d := range f.Decls {
				fd, ok := d.(*ast.FuncDecl)
				if !ok || fd.Recv != nil || fd.Body == nil || len(fd.Body.List) != 1 {
					continue
				}
				rs, ok := fd.Body.List[0].(*ast.ReturnStmt)
				if !ok || len(rs.Results) != 1 || !strings.Contains(Src(rs.Results[0]), "1e8") {
					continue
				}
				convName, convSrc = fd.Name.Name, Src(rs.Results[0])
				convRound = c15IsRound(rs.Results[0])
			}
		}
		uses, rawUses, inlineRound := 0, 0, 0
		notDep := ""
		if fd := FindFunc(f, "", "DecodeDepositEvent"); fd != nil {
			Walk(fd.Body, func(n ast.Node) bool {
				switch x := n.(type) {
				case *ast.CallExpr:
					if convName != "" && Src(x.Fun) == convName && len(x.Args) == 1 && Src(x.Args[0]) == "vout.Value" {
						uses++
					}
					if Src(x.Fun) == "int64" && len(x.Args) == 1 && strings.Contains(Src(x.Args[0]), "vout.Value") {
						if c15IsRound(x) {
							inlineRound++
						}
					}
				case *ast.SelectorExpr:
					if Src(x) == "vout.Value" {
						rawUses++
					}
				case *ast.IfStmt:
					if len(x.Body.List) == 1 {
						if rs, ok := x.Body.List[0].(*ast.ReturnStmt); ok && len(rs.Results) == 3 && Src(rs.Results[1]) == "false" {
							notDep = Src(x.Cond)
						}
					}
				}
				return true
			})
		}
		consts := map[string]string{}
		if f != nil {
			for _, d := range f.Decls {
				if gd, ok := d.(*ast.GenDecl); ok && gd.Tok == token.CONST {
					for _, sp := range gd.Specs {
						if vs, ok := sp.(*ast.ValueSpec); ok {
							for i, n := range vs.Names {
								if i < len(vs.Values) {
									consts[n.Name] = strings.Trim(Src(vs.Values[i]), "\"")
								}
							}
						}
					}
				}
			}
		}
		o.Facts["conversion_go"] = convSrc
		o.Facts["conversion_helper"] = convName
		o.Facts["not_deposit_cond_go"] = notDep
		o.Lean.WriteString("/-- the conversion is `int64(math.Round(<float> * 1e8))` (helper or inline) -/\n")
		o.Lean.WriteString("def convRoundsProduct : Bool := " + c15LeanBool((convRound && uses > 0) || inlineRound > 0) + "\n")
		o.Lean.WriteString("/-- uses of `vout.Value` in DecodeDepositEvent, and how many of them go through the rounding conversion -/\n")
		o.Lean.WriteString("def valueUses : Nat := " + c15Itoa(rawUses) + "\n")
		o.Lean.WriteString("def roundedUses : Nat := " + c15Itoa(uses+inlineRound) + "\n")
		o.Lean.WriteString("def notDepositCond : String := " + LeanStr(notDep) + "\n")
		o.Lean.WriteString("def taprootType : String := " + LeanStr(consts["WitnessV1Taproot"]) + "\n")
		o.Lean.WriteString("def nulldataType : String := " + LeanStr(consts["OP_RETURN"]) + "\n\n")

		h := o.ParseFile("chains/btc/listener/deposit-handler.go")
		base, exp, sep := "0", "0", ""
		parse := []string{}
		if fd := FindFunc(h, "BtcDepositHandler", "HandleDeposit"); fd != nil {
			Walk(fd.Body, func(n ast.Node) bool {
				c, ok := n.(*ast.CallExpr)
				if !ok {
					return true
				}
				switch Src(c.Fun) {
				case "multiplier.Exp":
					if len(c.Args) == 3 {
						base, exp = c15BigLit(c.Args[0]), c15BigLit(c.Args[1])
					}
				case "strconv.ParseUint":
					if len(c.Args) == 3 {
						parse = []string{Src(c.Args[0]), Src(c.Args[1]), Src(c.Args[2])}
					}
				case "strings.Split":
					if len(c.Args) == 2 {
						sep = strings.Trim(Src(c.Args[1]), "\"")
					}
				}
				return true
			})
		}
		o.Facts["scale"] = base + "^" + exp
		o.Facts["parse_uint"] = parse
		o.Lean.WriteString("/-- `multiplier.Exp(big.NewInt(base), big.NewInt(exp), nil)` -/\n")
		o.Lean.WriteString("def scaleBase : Nat := " + base + "\ndef scaleExp : Nat := " + exp + "\n")
		o.Lean.WriteString("def parseUintArgs : List String := " + LeanStrList(parse) + "\n")
		o.Lean.WriteString("def separator : String := " + LeanStr(sep) + "\n")
	}
}

func c15LeanBool(b bool) string {
	if b {
		return "true"
	}
	return "false"
}

func c15Itoa(i int) string {
	if i == 0 {
		return "0"
	}
	s := ""
	for i > 0 {
		s = string(rune('0'+i%10)) + s
		i /= 10
	}
	return s
}

// int64(math.Round(<x> * 1e8))
func c15IsRound(e ast.Expr) bool {
	c, ok := e.(*ast.CallExpr)
	if !ok || Src(c.Fun) != "int64" || len(c.Args) != 1 {
		return false
	}
	r, ok := c.Args[0].(*ast.CallExpr)
	if !ok || Src(r.Fun) != "math.Round" || len(r.Args) != 1 {
		return false
	}
	b, ok := r.Args[0].(*ast.BinaryExpr)
	return ok && b.Op == token.MUL && (Src(b.Y) == "1e8" || Src(b.X) == "1e8")
}

// big.NewInt(<int literal>)
func c15BigLit(e ast.Expr) string {
	if c, ok := e.(*ast.CallExpr); ok && Src(c.Fun) == "big.NewInt" && len(c.Args) == 1 {
		if bl, ok := c.Args[0].(*ast.BasicLit); ok && bl.Kind == token.INT {
			return bl.Value
		}
	}
	return "0"
}
