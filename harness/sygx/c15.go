package main

import (
	"go/ast"
	"go/token"
	"strconv"
	"strings"
)

// C15: facts from chains/btc/listener/util.go and deposit-handler.go, located by SHAPE (names of locals, receivers and
// unexported helpers are derived from the statements):
//   conversion    every use of the range variable's `.Value` in DecodeDepositEvent, classified: int64(math.Round(v*1e8))
//                 (directly or through a same-file helper, 1e8 a literal or a package constant) / some other recognisable
//                 float→int conversion (truncation, +0.5, Floor …) / not understood
//   notDeposit    the condition under which DecodeDepositEvent reports "not a deposit", over (bridge paid, fee sum, threshold)
//   scriptTypes   the strings the Taproot test and the OP_RETURN test compare `ScriptPubKey.Type` with
//   scale         base^exponent of the big.Int multiplier applied to the amount in HandleDeposit
//   payload       (field index, separator, base, bit size) of the destination-domain parse
func init() {
	extractors["C15"] = func(o *Out) {
		f := o.ParseFile("chains/btc/listener/util.go")
		consts := cxConsts(f)
		dec := FindFunc(f, "", "DecodeDepositEvent")
		resP, feeP := cxParam(dec, 1), cxParam(dec, 2)
		evtP := cxParam(dec, 0)

		// the loop over <evt>.Vout and its variable
		var loopBody *ast.BlockStmt
		vv := ""
		if dec != nil {
			cxLoops(dec.Body, func(body *ast.BlockStmt, loop ast.Stmt) {
				if rs, ok := loop.(*ast.RangeStmt); ok && Src(rs.X) == evtP+".Vout" && rs.Value != nil && Src(rs.Value) != "_" {
					loopBody, vv = body, Src(rs.Value)
					return
				}
				// indexed form: the body starts with `v := <evt>.Vout[i]`
				if len(body.List) > 0 {
					if a, ok := body.List[0].(*ast.AssignStmt); ok && a.Tok == token.DEFINE && len(a.Lhs) == 1 && len(a.Rhs) == 1 {
						if ix, ok := a.Rhs[0].(*ast.IndexExpr); ok && Src(ix.X) == evtP+".Vout" {
							loopBody, vv = body, Src(a.Lhs[0])
						}
					}
				}
			})
		}

		// ---- conversion
		classify := func(e ast.Expr, arg string) string { // "round" | "other" | ""
			c, ok := e.(*ast.CallExpr)
			if !ok || len(c.Args) != 1 || Src(c.Fun) != "int64" {
				return ""
			}
			is1e8 := func(x ast.Expr) bool {
				s := Src(x)
				if v, ok := consts[s]; ok {
					s = v
				}
				fl, err := strconv.ParseFloat(s, 64)
				return err == nil && fl == 1e8
			}
			prod := func(x ast.Expr) bool {
				if p, ok := x.(*ast.ParenExpr); ok {
					x = p.X
				}
				b, ok := x.(*ast.BinaryExpr)
				return ok && b.Op == token.MUL && ((Src(b.X) == arg && is1e8(b.Y)) || (Src(b.Y) == arg && is1e8(b.X)))
			}
			inner := c.Args[0]
			if r, ok := inner.(*ast.CallExpr); ok && Src(r.Fun) == "math.Round" && len(r.Args) == 1 && prod(r.Args[0]) {
				return "round"
			}
			if strings.Contains(Src(inner), arg) {
				return "other" // a float→int64 conversion of the value that is not round-of-product: truncation, +0.5, Floor, …
			}
			return ""
		}
		helpers := map[string]string{} // same-file func(float64) int64 with a single return → its class
		if f != nil {
			for _, d := range f.Decls {
				fd, ok := d.(*ast.FuncDecl)
				if !ok || fd.Recv != nil || fd.Body == nil || len(fd.Body.List) != 1 || cxTypes(fd.Type.Params) != "(float64)" || cxTypes(fd.Type.Results) != "(int64)" {
					continue
				}
				if rs, ok := fd.Body.List[0].(*ast.ReturnStmt); ok && len(rs.Results) == 1 {
					helpers[fd.Name.Name] = classify(rs.Results[0], cxParam(fd, 0))
				}
			}
		}
		uses, rounded, other, unknown := 0, 0, 0, 0
		if loopBody != nil {
			// every `<vv>.Value` and the call that directly consumes it
			var visit func(n ast.Node, parentCall *ast.CallExpr)
			visit = func(n ast.Node, parentCall *ast.CallExpr) {
				ast.Inspect(n, func(m ast.Node) bool {
					if c, ok := m.(*ast.CallExpr); ok {
						cls := ""
						if id, ok := c.Fun.(*ast.Ident); ok && len(c.Args) == 1 && Src(c.Args[0]) == vv+".Value" {
							if k, ok := helpers[id.Name]; ok {
								cls = k
								if cls == "" {
									cls = "?"
								}
							}
						}
						if cls == "" {
							cls = classify(c, vv+".Value")
						}
						if cls != "" {
							uses++
							switch cls {
							case "round":
								rounded++
							case "other":
								other++
							default:
								unknown++
							}
							return false
						}
					}
					if s, ok := m.(*ast.SelectorExpr); ok && Src(s) == vv+".Value" {
						uses++
						unknown++
					}
					return true
				})
			}
			visit(loopBody, nil)
		}
		o.Facts["value_uses"] = uses
		o.Facts["value_uses_rounded"] = rounded
		convOK := loopBody != nil && uses > 0 && unknown == 0
		if !convOK {
			o.Unavailable("conversion", "the uses of the output value in DecodeDepositEvent's loop were not all located as a float→int64 conversion the translator understands")
		}
		o.Lean.WriteString("/-- (uses of the output's float value, how many of them are `int64(math.Round(v * 1e8))`, how many another conversion) -/\n")
		o.Lean.WriteString("def conversion : Option (Nat × Nat × Nat) := " + LeanOpt(convOK, c15Itoa(uses)+", "+c15Itoa(rounded)+", "+c15Itoa(other)) + "\n\n")

		// ---- names derived from the loop: bridge flag, fee accumulator, script types
		flag, feeAcc, tapType, nullType := "", "", "", ""
		typeOf := func(cond ast.Expr) string { // the thing `<vv>.ScriptPubKey.Type` is compared with (==), resolved
			b, ok := cond.(*ast.BinaryExpr)
			if !ok || b.Op != token.EQL {
				return ""
			}
			other := ast.Expr(nil)
			if Src(b.X) == vv+".ScriptPubKey.Type" {
				other = b.Y
			} else if Src(b.Y) == vv+".ScriptPubKey.Type" {
				other = b.X
			}
			if other == nil {
				return ""
			}
			s := Src(other)
			if v, ok := consts[s]; ok {
				return v
			}
			if bl, ok := other.(*ast.BasicLit); ok && bl.Kind == token.STRING {
				return strings.Trim(bl.Value, "\"")
			}
			return ""
		}
		if loopBody != nil {
			for _, st := range loopBody.List {
				is, ok := st.(*ast.IfStmt)
				if !ok {
					continue
				}
				if t := typeOf(is.Cond); t != "" && strings.Contains(Src(is.Body), "DecodeString") {
					nullType = t
				}
				if cxMentions(is.Cond, resP) && strings.Contains(Src(is.Cond), ".Address") {
					Walk(is.Body, func(m ast.Node) bool {
						if a, ok := m.(*ast.AssignStmt); ok && len(a.Lhs) == 1 && len(a.Rhs) == 1 && Src(a.Rhs[0]) == "true" {
							flag = Src(a.Lhs[0])
						}
						if in, ok := m.(*ast.IfStmt); ok {
							if t := typeOf(in.Cond); t != "" && strings.Contains(Src(in.Body), ".Add(") {
								tapType = t
							}
						}
						return true
					})
				}
				if cxMentions(is.Cond, feeP) {
					Walk(is.Body, func(m ast.Node) bool {
						if c, ok := m.(*ast.CallExpr); ok {
							if s, ok := c.Fun.(*ast.SelectorExpr); ok && s.Sel.Name == "Add" && len(c.Args) == 2 && Src(c.Args[0]) == Src(s.X) {
								feeAcc = Src(s.X)
							}
						}
						return true
					})
				}
			}
		}
		typesOK := tapType != "" && nullType != ""
		if !typesOK {
			o.Unavailable("scriptTypes", "the Taproot test inside the bridge-address branch or the OP_RETURN test was not located")
		}
		o.Lean.WriteString("/-- (script type credited as Taproot, script type read as OP_RETURN) -/\n")
		o.Lean.WriteString("def scriptTypes : Option (String × String) := " + LeanOpt(typesOK, LeanStr(tapType)+", "+LeanStr(nullType)) + "\n\n")

		// ---- "not a deposit": disjunction of the conditions of the top-level `if … { return _, false, nil }` after the loop
		conds := []string{}
		ndOK := dec != nil && flag != "" && feeAcc != ""
		if ndOK {
			cx := &CX{Names: map[string]string{flag: "bridge", feeAcc: "fee", resP + ".FeeAmount": "thr"}, Consts: consts}
			seenLoop := false
			for _, st := range dec.Body.List {
				switch st.(type) {
				case *ast.RangeStmt, *ast.ForStmt:
					seenLoop = true
				}
				is, ok := st.(*ast.IfStmt)
				if !ok || !seenLoop || is.Else != nil || len(is.Body.List) != 1 {
					continue
				}
				rs, ok := is.Body.List[0].(*ast.ReturnStmt)
				if !ok || len(rs.Results) != 3 || Src(rs.Results[1]) != "false" {
					continue
				}
				t, ok := cx.Bool(is.Cond)
				if !ok {
					ndOK = false
				}
				conds = append(conds, t)
			}
			if len(conds) == 0 {
				ndOK = false
			}
		}
		if !ndOK {
			o.Unavailable("notDeposit", "the early return(s) reporting `not a deposit` were not located in a shape the translator understands")
		}
		o.Facts["not_deposit_conds"] = conds
		o.Lean.WriteString("/-- when DecodeDepositEvent answers `not a deposit` (bridge = bridge address paid; fee, thr as integers) -/\n")
		o.Lean.WriteString("def notDeposit : Option (Bool → Int → Int → Bool) := " + LeanOpt(ndOK, "fun bridge fee thr => "+strings.Join(conds, " || ")) + "\n\n")

		// ---- HandleDeposit
		h := o.ParseFile("chains/btc/listener/deposit-handler.go")
		hconsts := cxConsts(h)
		hd := FindFunc(h, "BtcDepositHandler", "HandleDeposit")
		amountP, dataP := cxParam(hd, 3), cxParam(hd, 4)
		lit := func(e ast.Expr) (string, bool) { // big.NewInt(<int literal or constant>)
			c, ok := e.(*ast.CallExpr)
			if !ok || Src(c.Fun) != "big.NewInt" || len(c.Args) != 1 {
				return "", false
			}
			s := Src(c.Args[0])
			if v, ok := hconsts[s]; ok {
				s = v
			}
			_, err := strconv.ParseUint(s, 10, 64)
			return s, err == nil
		}
		scaleOK, base, exp := false, "0", "0"
		payOK, idx, sep, pbase, pbits := false, "0", "", "0", "0"
		if hd != nil {
			mulBy, expOf := "", map[string][2]string{}
			splitVar := ""
			Walk(hd.Body, func(n ast.Node) bool {
				if a, ok := n.(*ast.AssignStmt); ok && len(a.Lhs) >= 1 && len(a.Rhs) == 1 {
					if c, ok := a.Rhs[0].(*ast.CallExpr); ok && Src(c.Fun) == "strings.Split" && len(c.Args) == 2 && Src(c.Args[0]) == dataP {
						splitVar = Src(a.Lhs[0])
						s := Src(c.Args[1])
						if v, ok := hconsts[s]; ok {
							s = "\"" + v + "\""
						}
						sep = strings.Trim(s, "\"")
					}
				}
				c, ok := n.(*ast.CallExpr)
				if !ok {
					return true
				}
				s, ok := c.Fun.(*ast.SelectorExpr)
				if !ok {
					return true
				}
				switch {
				case s.Sel.Name == "Exp" && len(c.Args) == 3 && Src(c.Args[2]) == "nil":
					b, ok1 := lit(c.Args[0])
					e, ok2 := lit(c.Args[1])
					if ok1 && ok2 {
						expOf[Src(s.X)] = [2]string{b, e}
					}
				case s.Sel.Name == "Mul" && len(c.Args) == 2 && Src(s.X) == amountP && Src(c.Args[0]) == amountP:
					mulBy = Src(c.Args[1])
				case Src(c.Fun) == "strconv.ParseUint" && len(c.Args) == 3:
					if ix, ok := c.Args[0].(*ast.IndexExpr); ok && splitVar != "" && Src(ix.X) == splitVar {
						num := func(e ast.Expr) (int, bool) { // literal, or a package constant bound to one
							if v, ok := hconsts[Src(e)]; ok {
								n, err := strconv.Atoi(v)
								return n, err == nil
							}
							return cxIntLit(e)
						}
						i, ok1 := num(ix.Index)
						b, ok2 := num(c.Args[1])
						w, ok3 := num(c.Args[2])
						if ok1 && ok2 && ok3 {
							payOK, idx, pbase, pbits = true, c15Itoa(i), c15Itoa(b), c15Itoa(w)
						}
					}
				}
				return true
			})
			if be, ok := expOf[mulBy]; ok {
				scaleOK, base, exp = true, be[0], be[1]
			}
		}
		if !scaleOK {
			o.Unavailable("scale", "`amount.Mul(amount, X)` with `X.Exp(big.NewInt(b), big.NewInt(e), nil)` was not located in HandleDeposit")
		}
		if !payOK {
			o.Unavailable("payload", "`strconv.ParseUint(<strings.Split(data, sep)>[i], base, bits)` was not located in HandleDeposit")
		}
		o.Lean.WriteString("/-- the amount is multiplied by base ^ exponent -/\n")
		o.Lean.WriteString("def scale : Option (Nat × Nat) := " + LeanOpt(scaleOK, base+", "+exp) + "\n\n")
		o.Lean.WriteString("/-- destination = ParseUint(field `index` of data split at `separator`, base, bits) -/\n")
		o.Lean.WriteString("def payload : Option (Nat × String × Nat × Nat) := " + LeanOpt(payOK, idx+", "+LeanStr(sep)+", "+pbase+", "+pbits) + "\n")
	}
}

func c15Itoa(i int) string { return strconv.Itoa(i) }
