package main

import "strings"

// C17: facts about retry filtering and the BTC executor's mutex
//   - Lock/Unlock balance of proposalsForExecution and storeProposalsStatus on every return path
//   - retry.go / eventHandlers/retry.go isExecuted: the "executed" test, the "release" test and the status written
func init() {
	extractors["C17"] = func(o *Out) {
		btc := o.ParseFile("chains/btc/executor/executor.go")
		for _, fn := range []struct{ name, lean string }{{"proposalsForExecution", "forExec"}, {"storeProposalsStatus", "storeStatus"}} {
			d, rs, e, locks := c3LockTrace(FindFunc(btc, "Executor", fn.name), "e.propMutex")
			o.Facts[fn.name+"_defer_unlock"] = d
			o.Facts[fn.name+"_returns_held"] = rs
			o.Facts[fn.name+"_end_held"] = e
			o.Facts[fn.name+"_locks"] = locks
			o.Lean.WriteString("/-- `" + fn.name + "`: number of Lock() statements, deferred unlock right after it, mutex held at each return / at the end (defers ignored) -/\n")
			o.Lean.WriteString("def " + fn.lean + "Locks : Nat := " + itoa(locks) + "\n")
			o.Lean.WriteString("def " + fn.lean + "DeferUnlock : Bool := " + leanBool(d) + "\n")
			o.Lean.WriteString("def " + fn.lean + "ReturnsHeld : List Bool := " + leanBoolList(rs) + "\n")
			o.Lean.WriteString("def " + fn.lean + "EndHeld : Bool := " + leanBool(e) + "\n\n")
		}
		for _, src := range []struct{ file, recv, lean string }{
			{"relayer/retry/retry.go", "", "retry"},
			{"chains/evm/listener/eventHandlers/retry.go", "RetryV1EventHandler", "retryV1"},
		} {
			f := o.ParseFile(src.file)
			fd := FindFunc(f, src.recv, "isExecuted")
			ex, ok1 := "false", false
			if c := c3IfWithBody(fd, "return true, nil"); c != nil {
				ex, ok1 = LeanExpr(c, c3StatusNames("propStatus"))
			}
			rel, ok2 := "false", false
			written := 99
			if c := c3IfWithBody(fd, "StorePropStatus("); c != nil {
				rel, ok2 = LeanExpr(c, c3StatusNames("propStatus"))
			}
			if fd != nil {
				body := Src(fd.Body)
				if i := strings.Index(body, "StorePropStatus("); i >= 0 {
					call := body[i:]
					best := len(call)
					for name, code := range map[string]int{"store.MissingProp": 0, "store.PendingProp": 1, "store.FailedProp": 2, "store.ExecutedProp": 3} {
						if j := strings.Index(call, name); j >= 0 && j < best {
							best, written = j, code
						}
					}
				}
			}
			o.Facts[src.lean+"_translated"] = ok1 && ok2
			o.Lean.WriteString("/-- `isExecuted` of " + src.file + ": reported executed / released (rewritten) when; status code written -/\n")
			o.Lean.WriteString("def " + src.lean + "Executed (s : Nat) : Bool := " + ex + "\n")
			o.Lean.WriteString("def " + src.lean + "Release (s : Nat) : Bool := " + rel + "\n")
			o.Lean.WriteString("def " + src.lean + "Writes : Nat := " + itoa(written) + "\n\n")
		}
	}
}
