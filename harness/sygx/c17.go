package main

import "go/ast"

// C17: regenerated facts about the BTC executor's mutex and the status tests of the retry filters. Every fact is an
// Option (`none` = anchor not located in an understood shape: o.Unavailable, obligation vacuous). Located by shape:
// the mutex is the sync.Mutex field of Executor addressed through the method's own receiver name; the functions are
// found by name or, if renamed, by receiver + signature; `if` chains and `switch` over the status are equivalent.
//   forExecLock / storeStatusLock : (number of Lock() statements, unlock deferred right after the lock, mutex held at
//                                    each return, mutex held at the end) — defers ignored in the last two
//   retryStatus / retryV1Status   : (reported executed for which status, record rewritten for which status, code written)
func init() {
	extractors["C17"] = func(o *Out) {
		btc := o.ParseFile("chains/btc/executor/executor.go")
		field := c3MutexField(btc, "Executor")
		for _, fn := range []struct {
			name, lean string
			shape      func(*ast.FuncDecl) bool
		}{
			{"proposalsForExecution", "forExecLock", func(fd *ast.FuncDecl) bool {
				return c3Results(fd) == "[]*BtcTransferProposal, error"
			}},
			{"storeProposalsStatus", "storeStatusLock", func(fd *ast.FuncDecl) bool {
				ts := c3ParamTypes(fd)
				return c3Results(fd) == "" && len(ts) == 2 && ts[0] == "[]*BtcTransferProposal" && ts[1] == "store.PropStatus"
			}},
		} {
			fd := c3Method(btc, "Executor", fn.name, fn.shape)
			recv := c3RecvName(fd)
			ok := fd != nil && field != "" && recv != ""
			term := "(0, false, [], true)"
			if ok {
				d, rs, e, locks := c3LockTrace(fd, recv+"."+field, c3LockHelpers(btc, "Executor", field))
				o.Facts[fn.name+"_lock"] = map[string]interface{}{"locks": locks, "defer_unlock": d, "returns_held": rs, "end_held": e}
				term = "(" + itoa(locks) + ", " + leanBool(d) + ", " + leanBoolList(rs) + ", " + leanBool(e) + ")"
			} else {
				o.Unavailable(fn.lean, "the function (by name or signature), its receiver name or the executor's sync.Mutex field was not located")
			}
			o.Lean.WriteString("/-- `" + fn.name + "`: Lock() statements, unlock deferred right after the lock, mutex held at each return / at the end (defers ignored) -/\n")
			o.Lean.WriteString("def " + fn.lean + " : Option (Nat × Bool × List Bool × Bool) := " + LeanOpt(ok, term) + "\n\n")
		}

		for _, src := range []struct{ file, recv, lean string }{
			{"relayer/retry/retry.go", "", "retryStatus"},
			{"chains/evm/listener/eventHandlers/retry.go", "RetryV1EventHandler", "retryV1Status"},
		} {
			f := o.ParseFile(src.file)
			fd := c3Method(f, src.recv, "isExecuted", func(fd *ast.FuncDecl) bool {
				return c3Results(fd) == "bool, error" && c3Calls(fd.Body, "PropStatus")
			})
			ex, ok1 := c3StatusDecision(fd, func(stmts []ast.Stmt) bool { return c3ReturnsBoolFirst(stmts, "true") })
			written, ok3 := 0, false
			rel, ok2 := c3StatusDecision(fd, func(stmts []ast.Stmt) bool {
				hit := false
				for _, st := range stmts {
					Walk(st, func(n ast.Node) bool {
						if c, ok := n.(*ast.CallExpr); ok {
							if s, ok := c.Fun.(*ast.SelectorExpr); ok && s.Sel.Name == "StorePropStatus" && len(c.Args) >= 1 {
								hit = true
								if code, ok := c3StatusCode(c.Args[len(c.Args)-1]); ok {
									written, ok3 = code, true
								}
							}
						}
						return true
					})
				}
				return hit
			})
			ok := ok1 && ok2 && ok3
			o.Facts[src.lean+"_translated"] = ok
			if !ok {
				o.Unavailable(src.lean, "the status tests of isExecuted ("+src.file+") were not located as if / switch over the status with a StorePropStatus call in the release branch")
			}
			o.Lean.WriteString("/-- `isExecuted` of " + src.file + ": reported executed when / record rewritten when (status codes 0 missing, 1 pending, 2 failed, 3 executed); code written -/\n")
			o.Lean.WriteString("def " + src.lean + " : Option ((Nat → Bool) × (Nat → Bool) × Nat) := " +
				LeanOpt(ok, "(fun s => "+ex+"), (fun s => "+rel+"), "+itoa(written)) + "\n\n")
		}
	}
}
