# sourced by every script that builds Go code
export GOFLAGS=-mod=mod GOPROXY=off GOSUMDB=off GOTOOLCHAIN=local GODEBUG=goindex=0 GONOSUMCHECK=1 GONOSUMDB='*' GOWORK=off
export CARGO_NET_OFFLINE=true PIP_NO_INDEX=1
